import MidiModel.Live
import MidiModel.Generated.ReaderGo
import Proofs.LiveInv
namespace Midi.Tie
set_option linter.unusedSimpArgs false
set_option linter.unusedVariables false
open Midi Midi.Live Midi.Go

def modeCode : Mode → Int
  | .clean => 0 | .chan => 1 | .sysc => 2 | .sysex => 3 | .unknown => 4

def evFrames : List drivers.Reader.Ev → List Frame
  | [] => []
  | .OnMsg b ts :: r => (b, ts) :: evFrames r
  | .OnErr :: r => evFrames r

@[simp] theorem evFrames_append (a b : List drivers.Reader.Ev) : evFrames (a ++ b) = evFrames a ++ evFrames b := by
  induction a with
  | nil => rfl
  | cons x xs ih => cases x <;> simp [evFrames, ih]

def wrap32 (x : Int) : Int := (x + 2147483648) % 4294967296 - 2147483648

def wrapFrame (f : Frame) : Frame := (f.1, wrap32 f.2)

def sxOf (r : drivers.Reader) : Bytes := if 0 < r.sysexlen then r.sysexBf.take r.sysexlen.toNat else []

def Rel (c : Cfg) (r : drivers.Reader) (s : St) : Prop :=
  r.state = modeCode s.mode ∧ r.statusByte = s.status ∧ r.typ = s.typ ∧
  s.pend = (if r.issetBf then some r.bf else none) ∧ s.sx = sxOf r ∧ 0 ≤ r.sysexlen ∧
  (0 < r.sysexlen → r.sysexBf.length = c.bufSize ∧ r.sysexlen ≤ (c.bufSize : Int)) ∧
  r.ts_ms = wrap32 s.ts ∧ r.sysexTS = wrap32 s.sxTs ∧ r.SysExBufferSize = c.bufSize ∧ r.HandleSysex = c.sysex ∧
  s.panicked = false

def Sim (c : Cfg) (t0 : List drivers.Reader.Ev) (res : Except String drivers.Reader) (m : St × List Frame) : Prop :=
  match res with
  | .ok r' => Rel c r' m.1 ∧ evFrames r'.trace = evFrames t0 ++ m.2.map wrapFrame
  | .error _ => m.1.panicked = true

@[simp] theorem sim_ok (c t0 r' m) : Sim c t0 (.ok r') m ↔ (Rel c r' m.1 ∧ evFrames r'.trace = evFrames t0 ++ m.2.map wrapFrame) := Iff.rfl
@[simp] theorem sim_pure (c t0 r' m) : Sim c t0 (pure r') m ↔ (Rel c r' m.1 ∧ evFrames r'.trace = evFrames t0 ++ m.2.map wrapFrame) := Iff.rfl
@[simp] theorem sim_error (c t0 e m) : Sim c t0 (.error e) m ↔ m.1.panicked = true := Iff.rfl
@[simp] theorem sim_throw (c t0) (e : String) (m) : Sim c t0 (throw e) m ↔ m.1.panicked = true := Iff.rfl

theorem isStatus_fin : ∀ b : Fin 256, utils.IsStatusByte b.val = decide (128 ≤ b.val) := by decide +kernel
theorem isStatus_eq {b : Nat} (hb : b < 256) : utils.IsStatusByte b = decide (128 ≤ b) := isStatus_fin ⟨b, hb⟩
theorem parseStatus_fin : ∀ b : Fin 256, (utils.ParseStatus b.val).1 = b.val / 16 := by decide +kernel
theorem parseStatus_eq {b : Nat} (hb : b < 256) : (utils.ParseStatus b).1 = b / 16 := parseStatus_fin ⟨b, hb⟩

macro "relsimp" "[" ts:Lean.Parser.Tactic.simpLemma,* "]" : tactic =>
  `(tactic| simp [Rel, evFrames, wrapFrame, modeCode, sxOf, $ts,*])

@[simp] theorem ok_bind {α β : Type} (x : α) (f : α → Except String β) : (Except.ok x >>= f) = f x := rfl
@[simp] theorem map_ok {α β : Type} (f : α → β) (x : α) : f <$> (Except.ok x : Except String α) = Except.ok (f x) := rfl
@[simp] theorem map_throw {α β : Type} (f : α → β) (e : String) : f <$> (throw e : Except String α) = throw e := rfl

theorem wcm_sim (c : Cfg) (r : drivers.Reader) (s : St) (h : Rel c r s) (b : Nat) :
    Sim c r.trace (drivers.Reader.withinChannelMessage r b) (withinChan s b) := by
  obtain ⟨mode, status, typ, pend, sx, sxTs, ts, panicked⟩ := s
  obtain ⟨hm, hst, hty, hp, hsx, hl0, hlb, hts, hsxts, hbuf, hhs, hnp⟩ := h
  simp only at hm hst hty hp hsx hts hsxts hnp
  subst hst hty hp hsx hnp
  unfold drivers.Reader.withinChannelMessage withinChan
  by_cases h13 : r.typ = 13
  · simp [h13, Rel, evFrames, wrapFrame, modeCode, sxOf, *] <;> exact hlb
  by_cases h12 : r.typ = 12
  · simp [h12, Rel, evFrames, wrapFrame, modeCode, sxOf, *] <;> exact hlb
  by_cases h11 : r.typ = 11
  · cases hb : r.issetBf <;> simp [h11, hb, Rel, evFrames, wrapFrame, modeCode, sxOf, *] <;> exact hlb
  by_cases h9 : r.typ = 9
  · cases hb : r.issetBf <;> simp [h9, hb, Rel, evFrames, wrapFrame, modeCode, sxOf, *] <;> exact hlb
  by_cases h8 : r.typ = 8
  · cases hb : r.issetBf <;> simp [h8, hb, Rel, evFrames, wrapFrame, modeCode, sxOf, *] <;> exact hlb
  by_cases h10 : r.typ = 10
  · cases hb : r.issetBf <;> simp [h10, hb, Rel, evFrames, wrapFrame, modeCode, sxOf, *] <;> exact hlb
  by_cases h14 : r.typ = 14
  · cases hb : r.issetBf <;> simp [h14, hb, Rel, evFrames, wrapFrame, modeCode, sxOf, *] <;> exact hlb
  simp [*]

theorem bufSize_pos (c : Cfg) : 0 < c.bufSize := by unfold Cfg.bufSize; split <;> omega

theorem setIdx_rep0 (n b : Nat) (h : 0 < n) : Go.setIdx (List.replicate n 0) 0 b = .ok ((List.replicate n 0).set 0 b) := by
  simp [Go.setIdx, h]; rfl

theorem take1_set0 (n b : Nat) (h : 0 < n) : List.take 1 ((List.replicate n 0).set 0 b) = [b] := by
  cases n with
  | zero => omega
  | succ k => simp [List.replicate_succ]

theorem cs_sim (c : Cfg) (r : drivers.Reader) (s : St) (h : Rel c r s) (b : Nat) (hb : b < 256) (hb8 : b < 0xF8) :
    Sim c r.trace (drivers.Reader.cleanState r b) (cleanState s b) := by
  have hR := h
  obtain ⟨mode, status, typ, pend, sx, sxTs, ts, panicked⟩ := s
  obtain ⟨hm, hst, hty, hp, hsx, hl0, hlb, hts, hsxts, hbuf, hhs, hnp⟩ := h
  simp only at hm hst hty hp hsx hts hsxts hnp
  subst hst hty hp hsx hnp
  have hpos := bufSize_pos c
  unfold drivers.Reader.cleanState cleanState
  by_cases h0 : b = 240
  · subst h0
    simp [hbuf, setIdx_rep0 _ _ hpos, Rel, evFrames, wrapFrame, modeCode, sxOf, take1_set0 _ _ hpos, *]
    omega
  by_cases h7 : b = 247
  · subst h7
    simp [Rel, evFrames, wrapFrame, modeCode, sxOf, *]
  by_cases hsc : 240 < b ∧ b < 247
  · have : b = 241 ∨ b = 242 ∨ b = 243 ∨ b = 244 ∨ b = 245 ∨ b = 246 := by omega
    rcases this with h | h | h | h | h | h <;> subst h <;> simp [Rel, evFrames, wrapFrame, modeCode, sxOf, *] <;> exact hlb
  by_cases hch : 128 ≤ b ∧ b ≤ 239
  · simp [h0, h7, hsc, hch, parseStatus_eq hb, Rel, evFrames, wrapFrame, modeCode, sxOf, *] <;> exact hlb
  have hlow : b < 128 := by omega
  by_cases hs0 : r.statusByte = 0
  · simp [h0, h7, hsc, hch, hs0, Rel, evFrames, wrapFrame, modeCode, sxOf, *] <;> first | exact hlb | omega
  · simp only [h0, h7, hsc, hch, hs0, ↓reduceIte, ne_eq, not_false_eq_true, and_self, and_false, false_and]
    rw [bind_pure]
    refine wcm_sim c { r with state := 1 } _ ?_ b
    simp [Rel, modeCode, sxOf, *]; exact hlb

theorem idx_ok (bb : Bytes) (k : Nat) (h : k < bb.length) : Go.idx bb (Int.ofNat k) = .ok bb[k] := by
  simp [Go.idx, h]; rfl

theorem setIdx_ok (a : Bytes) (k : Nat) (v : Nat) (h : k < a.length) : Go.setIdx a (Int.ofNat k) v = .ok (a.set k v) := by
  simp [Go.setIdx, h]; rfl

theorem copy_loop_gen (bb : Bytes) (n : Nat) (hn : n ≤ bb.length) :
    ∀ (m k : Nat) (acc : Bytes), k + m = n → acc.length = n →
      (forIn (List.range' k m) acc (fun (k4 : Nat) (s : Bytes) => (do
          let v ← Go.idx bb (Int.ofNat k4)
          ForInStep.yield <$> Go.setIdx s (Int.ofNat k4) v : Except String (ForInStep Bytes))) : Except String Bytes) = Except.ok (acc.take k ++ (bb.drop k).take m) := by
  intro m
  induction m with
  | zero =>
    intro k acc hk hal
    have : k = acc.length := by omega
    simp [this]; rfl
  | succ m ih =>
    intro k acc hk hal
    have hkb : k < bb.length := by omega
    have hka : k < acc.length := by omega
    rw [List.range'_succ, List.forIn_cons]
    simp only [idx_ok bb k hkb, setIdx_ok acc k _ hka]
    show (forIn (List.range' (k + 1) m) (acc.set k bb[k]) _ : Except String Bytes) = _
    rw [ih (k + 1) (acc.set k bb[k]) (by omega) (by simp [hal])]
    congr 1
    apply List.ext_getElem
    · simp; omega
    · intro i h1 h2
      simp only [List.getElem_append, List.getElem_take, List.getElem_set, List.length_take, List.length_set, List.getElem_drop]
      by_cases hi : i < k
      · have : i < min (k + 1) acc.length := by omega
        have h3 : i < min k acc.length := by omega
        have h4 : ¬ k = i := by omega
        simp [this, h3, h4]
      · by_cases hik : i = k
        · subst hik
          have : i < min (i + 1) acc.length := by omega
          have h3 : ¬ i < min i acc.length := by omega
          simp [this, h3]
          have : min i acc.length = i := by omega
          simp [this]
        · have : ¬ i < min (k + 1) acc.length := by omega
          have h3 : ¬ i < min k acc.length := by omega
          simp [this, h3]
          congr 1
          omega


theorem copy_loop (bb : Bytes) (n : Nat) (hn : n ≤ bb.length) :
    (forIn (List.range' 0 n) (List.replicate n 0) (fun (k4 : Nat) (s : Bytes) => (do
          let v ← Go.idx bb (Int.ofNat k4)
          ForInStep.yield <$> Go.setIdx s (Int.ofNat k4) v : Except String (ForInStep Bytes))) : Except String Bytes) = Except.ok (bb.take n) := by
  have := copy_loop_gen bb n hn n 0 (List.replicate n 0) (by omega) (by simp)
  simpa using this

theorem wrapS64_small (x : Int) (h0 : 0 ≤ x) (h1 : x < 4611686018427387904) : Go.wrapS 64 x = x := by
  unfold Go.wrapS; omega

theorem bufSize_lt (c : Cfg) (hc : c.buf < 4294967296) : c.bufSize < 4294967296 := by
  unfold Cfg.bufSize; split <;> omega

theorem take_succ_set (bf : Bytes) (n v : Nat) (h : n < bf.length) : (bf.set n v).take (n + 1) = bf.take n ++ [v] := by
  apply List.ext_getElem
  · simp; omega
  · intro i h1 h2
    simp only [List.getElem_take, List.getElem_set, List.getElem_append, List.length_take]
    by_cases hi : i = n
    · subst hi; have : ¬ i < min i bf.length := by omega
      simp [this]
    · have : i < n := by simp at h1; omega
      have h3 : i < min n bf.length := by omega
      have h4 : ¬ n = i := by omega
      simp [h3, h4]

theorem eb_sim (c : Cfg) (hc : c.buf < 4294967296) (r : drivers.Reader) (s : St) (h : Rel c r s) (b : Nat) (hb : b < 256) :
    Sim c r.trace (drivers.Reader.eachByte r b) (step c s b) := by
  have hR := h
  obtain ⟨mode, status, typ, pend, sx, sxTs, ts, panicked⟩ := s
  obtain ⟨hm, hst, hty, hp, hsx, hl0, hlb, hts, hsxts, hbuf, hhs, hnp⟩ := h
  simp only at hm hst hty hp hsx hts hsxts hnp
  subst hst hty hp hsx hnp
  have hpos := bufSize_pos c
  have hlt := bufSize_lt c hc
  unfold drivers.Reader.eachByte step
  by_cases hrt : 248 ≤ b
  · simp [hrt, Rel, evFrames, wrapFrame, modeCode, sxOf, *] <;> exact hlb
  have hb8 : b < 248 := by omega
  cases mode
  case sysex =>
    simp only [modeCode] at hm
    by_cases h7 : b = 247
    · subst h7
      simp [hm, isStatus_eq hb, sysexStep]
      obtain ⟨n, hn⟩ := Int.eq_ofNat_of_zero_le hl0
      simp only [hn] at hlb ⊢
      by_cases hcond : (r.HandleSysex = true ∧ 0 < (n : Int)) ∧ (n : Int) < ↑r.sysexBf.length
      · obtain ⟨⟨hh, hpos1⟩, hlen⟩ := hcond
        obtain ⟨hbl, hle⟩ := hlb hpos1
        have hn' : n < r.sysexBf.length := by omega
        have hw : Go.wrapS 64 ((n : Int) + 1) = ((n + 1 : Nat) : Int) := by rw [wrapS64_small] <;> omega
        simp only [hh, hpos1, hlen, and_self, ↓reduceIte, hw, Int.toNat_natCast]
        clear hw
        have := setIdx_ok r.sysexBf n 247 hn'
        simp only [Int.ofNat_eq_natCast] at this
        rw [this]
        have hlen2 : n + 1 ≤ (r.sysexBf.set n 247).length := by rw [List.length_set]; exact hn'
        have hl := copy_loop (r.sysexBf.set n 247) (n + 1) hlen2
        simp only [Int.ofNat_eq_natCast] at hl
        simp only [ok_bind]
        rw [hl]
        simp only [map_ok, sim_ok, take_succ_set _ _ _ hn']
        clear hl this
        have hn0 : 0 < n := by omega
        have hsx : sxOf r = r.sysexBf.take n := by
          unfold sxOf; rw [hn]; simp only [hpos1, ↓reduceIte, Int.toNat_natCast]
        have hlen3 : (r.sysexBf.take n).length = n := by
          rw [List.length_take]; exact Nat.min_eq_left (Nat.le_of_lt hn')
        have hne : r.sysexBf.take n ≠ [] := by
          intro h0; rw [h0] at hlen3; simp at hlen3; omega
        have hcs : c.sysex = true := by rw [← hhs]; exact hh
        have hnb : n < c.bufSize := by rw [← hbl]; exact hn'
        simp [Rel, evFrames, wrapFrame, modeCode, hsx, hne, hlen3, hcs, hnb, sxOf, *]
      · have hmodel : ¬ (c.sysex = true ∧ ¬sxOf r = [] ∧ List.length (sxOf r) < c.bufSize) := by
          intro ⟨h1, h2, h3⟩
          apply hcond
          have hp1 : 0 < (n : Int) := by
            by_cases hz : 0 < (n : Int)
            · exact hz
            · exfalso; apply h2; unfold sxOf; rw [hn]; simp only [hz, ↓reduceIte]
          obtain ⟨hbl, hle⟩ := hlb hp1
          refine ⟨⟨by rw [hhs]; exact h1, hp1⟩, ?_⟩
          have : sxOf r = r.sysexBf.take n := by unfold sxOf; rw [hn]; simp only [hp1, ↓reduceIte, Int.toNat_natCast]
          rw [this, List.length_take] at h3
          omega
        rw [if_neg hcond, if_neg hmodel]
        simp [Rel, evFrames, wrapFrame, modeCode, sxOf, *]
    by_cases h0 : b = 240
    · subst h0
      simp [hm, isStatus_eq hb, sysexStep, hbuf, setIdx_rep0 _ _ hpos, Rel, evFrames, wrapFrame, modeCode, sxOf, take1_set0 _ _ hpos, *]
      omega
    by_cases hst : 128 ≤ b
    · -- another status byte ends the sysex: the clean-state rules apply to it
      simp [hm, isStatus_eq hb, hst, sysexStep, h0, h7, hrt]
      refine cs_sim c _ _ ?_ b hb hb8
      simp [Rel, modeCode, sxOf, *]
    -- a data byte inside the sysex
    have hlow : b < 128 := by omega
    obtain ⟨n, hn⟩ := Int.eq_ofNat_of_zero_le hl0
    have hnd : ¬ 128 ≤ b := by omega
    simp [hm, isStatus_eq hb, hnd, sysexStep, h0, h7, hrt]
    simp only [hn] at hlb ⊢
    by_cases hcond : r.HandleSysex = true ∧ 0 < (n : Int)
    · obtain ⟨hh, hpos1⟩ := hcond
      obtain ⟨hbl, hle⟩ := hlb hpos1
      have hcs : c.sysex = true := by rw [← hhs]; exact hh
      have hn0 : 0 < n := by omega
      have hsxe : sxOf r = r.sysexBf.take n := by
        unfold sxOf; rw [hn]; simp only [hpos1, ↓reduceIte, Int.toNat_natCast]
      by_cases hfit : (n : Int) < ↑r.sysexBf.length
      · have hn' : n < r.sysexBf.length := by omega
        have hlen3 : (r.sysexBf.take n).length = n := by
          rw [List.length_take]; exact Nat.min_eq_left (Nat.le_of_lt hn')
        have hne : r.sysexBf.take n ≠ [] := by
          intro h0; rw [h0] at hlen3; simp at hlen3; omega
        have hnb : n < c.bufSize := by rw [← hbl]; exact hn'
        have hset := setIdx_ok r.sysexBf n b hn'
        simp only [Int.ofNat_eq_natCast] at hset
        have hw : Go.wrapS 64 ((n : Int) + 1) = ((n + 1 : Nat) : Int) := by rw [wrapS64_small] <;> omega
        simp only [hh, hpos1, hfit, and_self, ↓reduceIte, hset, ok_bind, map_ok, hw]
        clear hw
        simp [Rel, evFrames, wrapFrame, modeCode, hsxe, hne, hlen3, hcs, hnb, sxOf, take_succ_set _ _ _ hn', hn0, *]
        omega
      · -- the buffer is full: the message is dropped
        have hnl : ¬ n < r.sysexBf.length := by omega
        have hlen3 : (r.sysexBf.take n).length = r.sysexBf.length := by
          rw [List.length_take]; omega
        have hne : r.sysexBf.take n ≠ [] := by
          intro h0; rw [h0] at hlen3; simp at hlen3; omega
        have hnb : ¬ r.sysexBf.length < c.bufSize := by omega
        simp only [hh, hpos1, hfit, and_self, ↓reduceIte]
        simp [Rel, evFrames, wrapFrame, modeCode, hsxe, hne, hlen3, hcs, hnb, sxOf, hn0, *]
    · have hmodel : ¬ (c.sysex = true ∧ ¬ sxOf r = []) := by
        intro ⟨h1, h2⟩
        apply hcond
        refine ⟨by rw [hhs]; exact h1, ?_⟩
        by_cases hz : 0 < (n : Int)
        · exact hz
        · exfalso; apply h2; unfold sxOf; rw [hn]; simp only [hz, ↓reduceIte]
      rw [if_neg hcond, if_neg hmodel]
      simp [Rel, evFrames, wrapFrame, modeCode, sxOf, *]
      intro hz; have := hlb (by omega); omega
  case clean =>
    simp only [modeCode] at hm
    by_cases hst : 128 ≤ b
    · simp [hm, isStatus_eq hb, hst, hrt]
      exact cs_sim c r _ hR b hb hb8
    · simp [hm, isStatus_eq hb, hst, hrt]
      exact cs_sim c r _ hR b hb hb8
  case unknown =>
    simp only [modeCode] at hm
    by_cases hst : 128 ≤ b
    · simp [hm, isStatus_eq hb, hst, hrt]
      refine cs_sim c _ _ ?_ b hb hb8
      simp [Rel, modeCode, sxOf, *]; exact hlb
    · simp [hm, isStatus_eq hb, hst, hrt, Rel, evFrames, wrapFrame, modeCode, sxOf, *]; exact hlb
  case chan =>
    simp only [modeCode] at hm
    by_cases hst : 128 ≤ b
    · simp [hm, isStatus_eq hb, hst, hrt]
      refine cs_sim c _ _ ?_ b hb hb8
      simp [Rel, modeCode, sxOf, *]; exact hlb
    · simp [hm, isStatus_eq hb, hst, hrt]
      exact wcm_sim c r _ hR b
  case sysc =>
    simp only [modeCode] at hm
    by_cases hst : 128 ≤ b
    · simp [hm, isStatus_eq hb, hst, hrt]
      refine cs_sim c _ _ ?_ b hb hb8
      simp [Rel, modeCode, sxOf, *]; exact hlb
    · simp [hm, isStatus_eq hb, hst, hrt, syscStep]
      by_cases h1 : r.typ = 241
      · simp [h1, Rel, evFrames, wrapFrame, modeCode, sxOf, *] <;> exact hlb
      by_cases h2 : r.typ = 242
      · cases hbf : r.issetBf <;> simp [h2, hbf, Rel, evFrames, wrapFrame, modeCode, sxOf, *] <;> exact hlb
      by_cases h3 : r.typ = 243
      · simp [h3, Rel, evFrames, wrapFrame, modeCode, sxOf, *] <;> exact hlb
      by_cases h6 : r.typ = 246
      · simp [h6, Rel, evFrames, wrapFrame, modeCode, sxOf, *] <;> exact hlb
      cases he : r.OnErr_set <;> simp [h1, h2, h3, h6, he, Rel, evFrames, wrapFrame, modeCode, sxOf, *] <;> exact hlb

theorem em_eq (r : drivers.Reader) (bt : Bytes) (d : Int) :
    drivers.Reader.EachMessage r bt d =
      List.foldlM (fun r b => drivers.Reader.eachByte r b) { r with ts_ms := Go.wrapS 32 (r.ts_ms + d) } bt := by
  unfold drivers.Reader.EachMessage drivers.Reader.setDelta
  simp

theorem wrapS32_add (x d : Int) : Go.wrapS 32 (wrap32 x + d) = wrap32 (x + d) := by
  unfold Go.wrapS wrap32; omega

/-- any number of bytes: the translated `eachByte` folded over them follows the model, and does not panic -/
theorem bytes_sim (c : Cfg) (hc : c.buf < 4294967296) :
    ∀ (bs : Bytes) (r : drivers.Reader) (s : St), Rel c r s → Inv c s → (∀ b ∈ bs, b < 256) →
      ∃ r', List.foldlM (fun r b => drivers.Reader.eachByte r b) r bs = .ok r' ∧
        Rel c r' (feed c s (bs.map .byte)).1 ∧
        evFrames r'.trace = evFrames r.trace ++ (feed c s (bs.map .byte)).2.map wrapFrame := by
  intro bs
  induction bs with
  | nil => intro r s h hi _; exact ⟨r, rfl, h, by simp [feed]⟩
  | cons b bs ih =>
    intro r s h hi hb
    have hb1 : b < 256 := hb b (by simp)
    have hsim := eb_sim c hc r s h b hb1
    have hinv := (stepTok_inv c s (.byte b) hi).1
    simp only [stepTok] at hinv
    rw [List.foldlM_cons]
    cases hres : drivers.Reader.eachByte r b with
    | error e =>
      rw [hres] at hsim
      simp only [sim_error] at hsim
      rw [hinv.no_panic] at hsim
      exact absurd hsim (by simp)
    | ok r1 =>
      rw [hres] at hsim
      simp only [sim_ok] at hsim
      obtain ⟨r', h1, h2, h3⟩ := ih r1 (step c s b).1 hsim.1 hinv (fun x hx => hb x (by simp [hx]))
      refine ⟨r', ?_, ?_, ?_⟩
      · simpa using h1
      · simpa [feed, stepTok] using h2
      · simp only [List.map_cons, feed, stepTok, List.map_append]
        rw [h3, hsim.2, List.append_assoc]

/-- one `EachMessage(bt, Δ)` call = a clock tick followed by the bytes -/
theorem em_sim (c : Cfg) (hc : c.buf < 4294967296) (r : drivers.Reader) (s : St) (h : Rel c r s) (hi : Inv c s)
    (bt : Bytes) (d : Int) (hb : ∀ b ∈ bt, b < 256) :
    ∃ r', drivers.Reader.EachMessage r bt d = .ok r' ∧
      Rel c r' (feed c s (.tick d :: bt.map .byte)).1 ∧
      evFrames r'.trace = evFrames r.trace ++ (feed c s (.tick d :: bt.map .byte)).2.map wrapFrame := by
  rw [em_eq]
  have hrel : Rel c { r with ts_ms := Go.wrapS 32 (r.ts_ms + d) } { s with ts := s.ts + d } := by
    obtain ⟨hm, hst, hty, hp, hsx, hl0, hlb, hts, hsxts, hbuf, hhs, hnp⟩ := h
    refine ⟨hm, hst, hty, hp, hsx, hl0, hlb, ?_, hsxts, hbuf, hhs, hnp⟩
    show Go.wrapS 32 (r.ts_ms + d) = wrap32 (s.ts + d)
    rw [hts, wrapS32_add]
  have hinv : Inv c { s with ts := s.ts + d } := (stepTok_inv c s (.tick d) hi).1
  obtain ⟨r', h1, h2, h3⟩ := bytes_sim c hc bt _ _ hrel hinv hb
  exact ⟨r', h1, by simpa [feed, stepTok] using h2, by simpa [feed, stepTok] using h3⟩

/-- `drivers.NewReader(config, onMsg)` as far as the translated part goes: the zero `Reader` with the configuration
    fields set, then `Reset()` -/
def newReader (c : Cfg) : Except String drivers.Reader :=
  drivers.Reader.Reset { SysExBufferSize := c.buf, HandleSysex := c.sysex, OnMsg_set := true }

theorem rel_init (c : Cfg) (bf : Bytes) :
    Rel c { sysexBf := bf, SysExBufferSize := c.bufSize, HandleSysex := c.sysex, OnMsg_set := true } init := by
  simp [Rel, init, modeCode, sxOf, wrap32]

theorem newReader_eq (c : Cfg) : ∃ bf, newReader c =
    .ok { sysexBf := bf, SysExBufferSize := c.bufSize, HandleSysex := c.sysex, OnMsg_set := true } := by
  unfold newReader drivers.Reader.Reset Cfg.bufSize
  by_cases h : c.buf = 0
  · simp only [h, ↓reduceIte]; exact ⟨_, rfl⟩
  · simp only [h, ↓reduceIte]; exact ⟨_, rfl⟩

theorem newReader_rel (c : Cfg) : ∃ r0, newReader c = .ok r0 ∧ Rel c r0 init ∧ r0.trace = [] := by
  obtain ⟨bf, h⟩ := newReader_eq c
  exact ⟨_, h, rel_init c bf, rfl⟩

/-- a whole session: `EachMessage` call after call -/
def goFeed : drivers.Reader → List (Int × Bytes) → Except String drivers.Reader
  | r, [] => pure r
  | r, (d, bs) :: rest => do
    let r' ← drivers.Reader.EachMessage r bs d
    goFeed r' rest

theorem goFeed_sim (c : Cfg) (hc : c.buf < 4294967296) :
    ∀ (chunks : List (Int × Bytes)) (r : drivers.Reader) (s : St), Rel c r s → Inv c s →
      (∀ ch ∈ chunks, ∀ b ∈ ch.2, b < 256) →
      ∃ r', goFeed r chunks = .ok r' ∧ Rel c r' (feed c s (chunkToks chunks)).1 ∧
        evFrames r'.trace = evFrames r.trace ++ (feed c s (chunkToks chunks)).2.map wrapFrame := by
  intro chunks
  induction chunks with
  | nil => intro r s h _ _; exact ⟨r, rfl, h, by simp [chunkToks, feed]⟩
  | cons ch rest ih =>
    intro r s h hi hb
    obtain ⟨d, bs⟩ := ch
    obtain ⟨r1, e1, hr1, ht1⟩ := em_sim c hc r s h hi bs d (fun b hb' => hb (d, bs) (by simp) b hb')
    have hi1 : Inv c (feed c s (.tick d :: bs.map .byte)).1 := (feed_inv c _ s hi).1
    obtain ⟨r', e2, hr2, ht2⟩ := ih r1 _ hr1 hi1 (fun ch hch => hb ch (by simp [hch]))
    refine ⟨r', ?_, ?_, ?_⟩
    · simp only [goFeed, e1]; exact e2
    · have : chunkToks ((d, bs) :: rest) = (.tick d :: bs.map .byte) ++ chunkToks rest := by simp [chunkToks]
      rw [this, feed_append]; exact hr2
    · have : chunkToks ((d, bs) :: rest) = (.tick d :: bs.map .byte) ++ chunkToks rest := by simp [chunkToks]
      rw [this, feed_append, ht2, ht1]; simp [List.append_assoc]
end Midi.Tie
