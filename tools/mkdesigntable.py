#!/usr/bin/env python3
"""Refreshes the numeric columns (theorems discharged, correspondence cases, wall time) of the table in DESIGN.md §6.0
from evidence/*.json; the descriptive columns are kept as written."""
import json, re, os
ROOT = os.path.dirname(os.path.dirname(os.path.abspath(__file__)))
p = os.path.join(ROOT, "DESIGN.md")
s = open(p).read()
out = []
for line in s.split("\n"):
    m = re.match(r"^\| (C\d\d) \| (\d+/\d+) \| (.*) \| (.*) \| (\d+ cases, \d+ distinct) \| (\d+ s) \|$", line)
    if m:
        ev = json.load(open(os.path.join(ROOT, "evidence", m.group(1) + ".json")))
        c = ev["coverage"]
        line = "| %s | %d/%d | %s | %s | %d cases, %d distinct | %d s |" % (
            m.group(1), c["discharged"], c["obligations"], m.group(3), m.group(4), c["evaluations"], c["distinct_nontrivial"],
            round(float(ev["wall_s"])))
    out.append(line)
open(p, "w").write("\n".join(out))
