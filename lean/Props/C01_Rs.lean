import MidiModel.Smf
import MidiModel.Generated.RunningStatusGo
import Props.C14_Filter
/-!
# C01 (and C03), tie to the source: the running-status writer and reader of `internal/runningstatus` as translated by
`tools/go2lean` on every run are the running-status rules of the writer model (`Smf.encMsg`, branch `rsOn`) and of the
reader model (`Smf.readEvent`: meta / sysex clear the status, a channel status byte sets it, anything else keeps it).
-/
namespace Midi.C01
open Midi Midi.Go Midi.Msg

set_option linter.unusedSimpArgs false
set_option linter.unusedVariables false

theorem chan_fin : ∀ b : Fin 256, typeIs (typeOfStatus b.val) (-3) = Smf.isChanStatus b.val := by decide +kernel

/-- `midi.Message(raw).Is(midi.ChannelMsg)` looks at the first byte: a channel status byte -/
theorem chan_class (b : Nat) : typeIs (typeOfStatus b) (-3) = Smf.isChanStatus b := by
  by_cases h : b < 256
  · exact chan_fin ⟨b, h⟩
  · have hb : 256 ≤ b := by omega
    rw [Midi.C14.typeOfStatus_big b hb]
    have : Smf.isChanStatus b = false := by unfold Smf.isChanStatus; simp; omega
    rw [this]; decide

/-- `smfwriter.Write`: the body bytes and the new status are those of the writer model with running status on
    (for everything `addMessage` hands to it, i.e. no F0 / F7 first byte) -/
theorem code_rsWrite (rs b0 : Nat) (tl : Bytes) (h : ¬ (b0 = 0xF0 ∨ b0 = 0xF7)) :
    ∃ out rs', Smf.encMsg true rs (b0 :: tl) = some (out, rs') ∧
      runningstatus.smfwriter.Write ⟨rs⟩ (b0 :: tl) = .ok (⟨rs'⟩, out) := by
  unfold Smf.encMsg runningstatus.smfwriter.Write
  simp only [h, if_false, if_true]
  rw [Midi.C14.is_cons, chan_class]
  by_cases hc : Smf.isChanStatus b0 = true
  · by_cases hr : b0 = rs
    · subst hr
      refine ⟨tl, b0, by simp [hc], ?_⟩
      have hl : (1 : Int) ≤ (tl.length : Int) + 1 := by omega
      simp [hc, Go.idx, Go.slice, bind, Except.bind, pure, Except.pure, hl]
    · refine ⟨b0 :: tl, b0, by simp [hc, hr], ?_⟩
      simp [hc, hr, Go.idx, bind, Except.bind, pure, Except.pure]
  · have hc' : Smf.isChanStatus b0 = false := by simpa using hc
    refine ⟨b0 :: tl, 0, by simp [hc'], ?_⟩
    simp [hc', Go.idx, bind, Except.bind, pure, Except.pure]

/-- an empty message: index out of range in both -/
theorem code_rsWrite_empty (rs : Nat) :
    Smf.encMsg true rs [] = none ∧ ∃ e, runningstatus.smfwriter.Write ⟨rs⟩ [] = .error e := by
  refine ⟨rfl, ?_⟩
  unfold runningstatus.smfwriter.Write
  simp [Go.idx, bind, Except.bind, throw, throwThe, MonadExceptOf.throw]

/-- `ResetStatus` (what `addMessage` calls for F0 / F7): status 0 -/
theorem code_rsReset (rs : Nat) : runningstatus.smfwriter.ResetStatus ⟨rs⟩ = .ok ⟨0⟩ := rfl

/-- `smfreader.Read(canary)`: FF / F0 / F7 clear the status, a channel status byte becomes the status, any other
    byte keeps it; `changed` tells which -/
theorem code_rsRead (rr c : Nat) :
    runningstatus.smfreader.Read ⟨⟨rr⟩⟩ c =
      .ok (if c = 0xFF ∨ c = 0xF0 ∨ c = 0xF7 then (⟨⟨0⟩⟩, 0, true)
           else if Smf.isChanStatus c then (⟨⟨c⟩⟩, c, true) else (⟨⟨rr⟩⟩, rr, false)) := by
  unfold runningstatus.smfreader.Read runningstatus.reader.read Smf.isChanStatus
  by_cases h1 : c = 0xFF
  · subst h1; rfl
  by_cases h2 : c = 0xF0
  · subst h2; rfl
  by_cases h3 : c = 0xF7
  · subst h3; rfl
  by_cases h4 : (c ≥ 128 ∧ c ≤ 239)
  · simp [h1, h2, h3, h4]; rfl
  · have : ¬ (128 ≤ c ∧ c ≤ 239) := h4
    simp [h1, h2, h3, h4, this]
    rfl

end Midi.C01
