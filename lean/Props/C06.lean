import MidiModel.Live
namespace Midi.C06
theorem placeholder : True := trivial
end Midi.C06
