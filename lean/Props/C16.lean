import Proofs.ConvertMain
import MidiModel.Generated.Facts
/-!
# C16 — converting a format-0 file to format 1 preserves every event and its time

Model: `MidiModel/Convert.lean` (`convert` = `SMF.ConvertToSMF1`, built on `Track.add`/`Track.close`/
`File.addTrack` of `MidiModel/Smf.lean`). Vocabulary (`Proofs/ConvertSpec.lean`, not the model):
`timed t` = the events of a track with their absolute ticks (running sum of the deltas), `payload t` =
the same without end-of-track events, `IsChanMsg m c` / `IsNonChan m` = MIDI 1.0 channel message of
channel `c` / anything else, `channelsOf t` = the channels occurring in `t` in ascending order,
`ClosedOnce tr` = `tr` ends with an end-of-track event and contains none before.

Domain `Dom f t` (DESIGN §8): `f` has the single track `t`, is not format 1 already, an end-of-track event occurs
in `t` at most as the last event (where `Track.Close` puts it), and on every resulting track (the non-channel events;
each channel) every step from one event to the next — the first from tick 0 — is below `2^32` ticks (`GapsP`: the
recomputed deltas are `uint32`, more cannot be expressed). The total length is bounded by `int64` only; a source
shorter than `2^32` ticks is in the domain whatever its events (`Dom.ofTotal`). Messages are arbitrary byte strings.

Trusted (DESIGN §4): `sort.Sort` leaves the already non-decreasing `metaTrack` as it is.
-/
namespace Midi.C16
open Midi Midi.Smf Midi.Convert

/-- the selectors used below are the MIDI notions, not artefacts of the model -/
theorem onChan_iff (c : Nat) (p : Nat × Msg) : onChan c p = true ↔ IsChanMsg p.2 c := by
  simp [onChan, getChannel_some_iff]

theorem offChan_iff (p : Nat × Msg) : offChan p = true ↔ IsNonChan p.2 := by
  simp [offChan, ← getChannel_none_iff]

/-- `channelsOf t`: exactly the channels that occur, each once, ascending -/
theorem channelsOf_spec (t : Track) :
    (channelsOf t).Pairwise (· < ·) ∧ ∀ c, c ∈ channelsOf t ↔ ∃ e ∈ t, IsChanMsg e.msg c := by
  refine ⟨List.Pairwise.filter _ List.pairwise_lt_range, ?_⟩
  intro c
  simp only [channelsOf, List.mem_filter, List.mem_range, List.any_eq_true, beq_iff_eq,
    getChannel_some_iff]
  constructor
  · rintro ⟨_, e, he, hc⟩; exact ⟨e, he, hc⟩
  · rintro ⟨e, he, hc⟩
    exact ⟨getChannel_lt _ _ ((getChannel_some_iff _ _).2 hc), e, he, hc⟩

/-- The result is a format-1 file with the time division of the source. -/
theorem convert_division (f : File) (t : Track) (h : Dom f t) :
    ∃ g, convert f = .ok g ∧ g.tf = f.tf ∧ g.format = 1 :=
  ⟨_, convert_shape f t h, rfl, rfl⟩

/-- Every message keeps its absolute tick, and within each result track the messages are exactly
    those of the source that belong there, in the order of the source: the payload of the first track
    is the payload of the source restricted to non-channel messages, the payload of the `i`-th
    following track is the payload of the source restricted to the `i`-th occurring channel. -/
theorem convert_abs (f : File) (t : Track) (h : Dom f t) :
    ∃ mt cts, convert f = .ok ⟨1, f.tf, mt :: cts⟩ ∧
      payload mt = (payload t).filter offChan ∧
      cts.length = (channelsOf t).length ∧
      ∀ cp ∈ (channelsOf t).zip cts, payload cp.2 = (payload t).filter (onChan cp.1) := by
  refine ⟨_, _, convert_shape f t h, payload_meta t h.gaps_metaOf h.eot, by simp, ?_⟩
  intro cp hcp
  rw [List.zip_map_right] at hcp
  obtain ⟨⟨c, c'⟩, hz, rfl⟩ := List.mem_map.1 hcp
  have : c = c' := by
    rw [List.zip_eq_zipWith] at hz
    simp only [List.zipWith_self, List.mem_map] at hz
    obtain ⟨a, _, ha⟩ := hz
    cases ha; rfl
  subst this
  exact payload_chan t c (h.gaps_chanOf c)

/-- Channel messages sit on a track of their own channel — one track per channel that occurs, in
    channel order, none of them empty — and everything else on the first track. -/
theorem convert_routing (f : File) (t : Track) (h : Dom f t) :
    ∃ mt cts, convert f = .ok ⟨1, f.tf, mt :: cts⟩ ∧
      (∀ p ∈ payload mt, IsNonChan p.2) ∧
      cts.length = (channelsOf t).length ∧
      ∀ cp ∈ (channelsOf t).zip cts, payload cp.2 ≠ [] ∧ ∀ p ∈ payload cp.2, IsChanMsg p.2 cp.1 := by
  obtain ⟨mt, cts, hc, hm, hl, hz⟩ := convert_abs f t h
  refine ⟨mt, cts, hc, ?_, hl, ?_⟩
  · intro p hp
    rw [hm] at hp
    exact (offChan_iff p).1 (List.mem_filter.1 hp).2
  · intro cp hcp
    rw [hz cp hcp]
    constructor
    · -- the channel occurs in the source, so its track is not empty
      have hmem : cp.1 ∈ channelsOf t := (List.of_mem_zip hcp).1
      obtain ⟨e, he, hch⟩ := ((channelsOf_spec t).2 cp.1).1 hmem
      have hne : e.msg ≠ EOT := by
        intro heq; rw [heq] at hch
        have := (getChannel_some_iff _ _).2 hch
        rw [getChannel_EOT] at this; cases this
      -- e is in the payload of the source at some tick
      have : ∃ a, (a, e.msg) ∈ timed t := by
        have hgen : ∀ (a : Nat) (u : Track), e ∈ u → ∃ b, (b, e.msg) ∈ timedFrom a u := by
          intro a u
          induction u generalizing a with
          | nil => intro h; cases h
          | cons x r ih =>
            intro hx
            rcases List.mem_cons.1 hx with rfl | hx
            · exact ⟨a + e.delta, by simp [timedFrom]⟩
            · obtain ⟨b, hb⟩ := ih (a + x.delta) hx
              exact ⟨b, by simp [timedFrom, hb]⟩
        exact hgen 0 t he
      obtain ⟨a, ha⟩ := this
      intro hnil
      have hin : (a, e.msg) ∈ (payload t).filter (onChan cp.1) := by
        refine List.mem_filter.2 ⟨List.mem_filter.2 ⟨ha, by simpa using hne⟩, ?_⟩
        exact (onChan_iff _ _).2 hch
      rw [hnil] at hin; cases hin
    · intro p hp
      exact (onChan_iff _ _).1 (List.mem_filter.1 hp).2

/-- Within each result track the relative order of the messages (with their absolute ticks) is the
    order they have in the source. -/
theorem convert_order (f : File) (t : Track) (h : Dom f t) :
    ∃ g, convert f = .ok g ∧ ∀ tr ∈ g.tracks, (payload tr).Sublist (payload t) := by
  obtain ⟨mt, cts, hc, hm, hl, hz⟩ := convert_abs f t h
  refine ⟨_, hc, ?_⟩
  intro tr htr
  rcases List.mem_cons.1 htr with rfl | htr
  · rw [hm]; exact List.filter_sublist
  · obtain ⟨i, hi, rfl⟩ := List.getElem_of_mem htr
    have : ((channelsOf t)[i]'(by omega), cts[i]) ∈ (channelsOf t).zip cts := by
      have := List.getElem_mem (l := (channelsOf t).zip cts) (n := i) (by simp; omega)
      simpa using this
    rw [hz _ this]; exact List.filter_sublist

/-- The multiset of (absolute tick, message) pairs of the result tracks is that of the source:
    nothing is lost, duplicated or altered. -/
theorem convert_perm (f : File) (t : Track) (h : Dom f t) :
    ∃ g, convert f = .ok g ∧ (g.tracks.flatMap payload).Perm (payload t) := by
  refine ⟨_, convert_shape f t h, ?_⟩
  simp only [List.flatMap_cons, List.flatMap_map]
  rw [payload_meta t h.gaps_metaOf h.eot,
    flatMap_congr' (g := fun c => (payload t).filter (onChan c)) (fun c _ => payload_chan t c (h.gaps_chanOf c))]
  exact (payload_partition t).symm

/-- Every result track is properly terminated: it ends with an end-of-track event and contains no
    other one. -/
theorem convert_closed (f : File) (t : Track) (h : Dom f t) :
    ∃ g, convert f = .ok g ∧ ∀ tr ∈ g.tracks, ClosedOnce tr := by
  refine ⟨_, convert_shape f t h, ?_⟩
  intro tr htr
  rcases List.mem_cons.1 htr with rfl | htr
  · exact closedOnce_mkTrack _ (noEarly_metaOf t h.eot)
  · obtain ⟨c, _, rfl⟩ := List.mem_map.1 htr
    exact closedOnce_mkTrack _ (noEarly_chanOf t c)

/-- The end-of-track event of a closed source is not replaced: it travels through `Track.Add` to the
    first result track and stays at its absolute tick (the length of the track is preserved). -/
theorem convert_eot_time (f : File) (t : Track) (h : Dom f t) (hc : t.isClosed = true) :
    ∃ mt cts, convert f = .ok ⟨1, f.tf, mt :: cts⟩ ∧ (timed mt).getLast? = some (totalTicks t, EOT) :=
  ⟨_, _, convert_shape f t h, timed_meta_closed t h.gaps_metaOf h.eot hc⟩

/-- A file that is format 1 already is returned unchanged. -/
theorem convert_smf1 (f : File) (h : f.format = 1) : convert f = .ok f := by
  simp [convert, h]

/-- `GetChannel` of the model against the compiled library: the table over all 256 first bytes,
    dumped by the harness on every run (`Generated/Facts.lean`), and independence from the rest of
    the message. -/
theorem getChannel_table :
    (List.range 256).map (fun b => (getChannel [b]).getD 16) = Facts.c16ChanOfStatus ∧
    ∀ b rest, getChannel (b :: rest) = getChannel [b] := by
  refine ⟨by decide +kernel, fun _ _ => rfl⟩

/-! Non-vacuity: a closed source with channel messages on channels 0 and 9 (several per tick), a meta
    message after channel messages, a sysex message and a large gap meets the hypotheses; the
    executable model produces the three expected tracks. -/
def sampleTrack : Track :=
  [⟨0, [0xFF, 0x51, 0x03, 0x07, 0xA1, 0x20]⟩, ⟨0, [0x90, 60, 100]⟩, ⟨0, [0x99, 36, 127]⟩,
   ⟨480, [0x80, 60, 0]⟩, ⟨0, [0xFF, 0x01, 0x01, 0x41]⟩, ⟨0, [0x99, 38, 127]⟩,
   ⟨4294960000, [0xF0, 0x7E, 0xF7]⟩, ⟨10, [0xC0, 5]⟩, ⟨100, EOT⟩]

def sampleFile : File := ⟨0, .metric 480, [sampleTrack]⟩

example : Dom sampleFile sampleTrack := Dom.ofTotal rfl (by decide) (by decide) (by unfold EOTOnlyLast; decide)

/-- a long piece: 2^32 ticks and more in total (24 steps of 2^28 − 1 ticks), yet inside the domain because no
    resulting track is silent for 2^32 ticks -/
def longTrack : Track :=
  (List.range 24).map (fun i => ⟨268435455, if i % 3 = 0 then [0x90, 60, 100] else if i % 3 = 1 then [0xFF, 0x01, 0x01, 0x41] else [0x93, 62, 90]⟩)
    ++ [⟨5, EOT⟩]

example : 4294967296 ≤ totalTicks longTrack := by decide +kernel

example : Dom ⟨0, .metric 960, [longTrack]⟩ longTrack :=
  ⟨rfl, by decide, by decide +kernel, by decide +kernel,
   gapsChan_of_first16 longTrack (by decide +kernel), by unfold EOTOnlyLast; decide +kernel⟩

example : convert sampleFile = .ok ⟨1, .metric 480,
    [[⟨0, [0xFF, 0x51, 0x03, 0x07, 0xA1, 0x20]⟩, ⟨480, [0xFF, 0x01, 0x01, 0x41]⟩,
      ⟨4294960000, [0xF0, 0x7E, 0xF7]⟩, ⟨110, EOT⟩],
     [⟨0, [0x90, 60, 100]⟩, ⟨480, [0x80, 60, 0]⟩, ⟨4294960010, [0xC0, 5]⟩, ⟨0, EOT⟩],
     [⟨0, [0x99, 36, 127]⟩, ⟨480, [0x99, 38, 127]⟩, ⟨0, EOT⟩]]⟩ := by decide +kernel

example : channelsOf sampleTrack = [0, 9] := by decide +kernel
example : sampleTrack.isClosed = true := by decide

/-- outside the domain the model shows what the hypotheses exclude: the `uint32` wrap … -/
example : convert ⟨0, .metric 96, [[⟨4294967295, [0x90, 1, 1]⟩, ⟨1, [0xFF, 0x01, 0x00]⟩]]⟩ =
    .ok ⟨1, .metric 96, [[⟨0, [0xFF, 0x01, 0x00]⟩, ⟨0, EOT⟩], [⟨4294967295, [0x90, 1, 1]⟩, ⟨0, EOT⟩]]⟩ := by
  decide +kernel

/-- … an early end-of-track swallowing the non-channel events behind it, and the panic without a track -/
example : convert ⟨0, .metric 96, [[⟨0, EOT⟩, ⟨5, [0xFF, 0x01, 0x00]⟩, ⟨5, [0x90, 1, 1]⟩]]⟩ =
    .ok ⟨1, .metric 96, [[⟨0, EOT⟩], [⟨10, [0x90, 1, 1]⟩, ⟨0, EOT⟩]]⟩ := by decide +kernel

example : convert ⟨0, .metric 96, []⟩ = .panic := by decide

end Midi.C16
