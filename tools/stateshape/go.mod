module verifstateshape

go 1.22.2
