import MidiModel.SmfAst
import Proofs.Vlq
/-! Per-event round trip: the reader model decodes what the writer model emits for one event. -/
namespace Midi.Smf
open Midi.Vlq

/-- writer at AST level: body bytes of one event and the new running status -/
def encBody (rsOn : Bool) (rs : Nat) : Ev → Bytes × Nat
  | .chan s d1 d2 =>
    let tail := match d2 with | none => [d1] | some d => [d1, d]
    if rsOn ∧ s = rs then (tail, s) else (s :: tail, if rsOn then s else rs)
  | .metaEv t d => ([0xFF, t] ++ encode d.length ++ d, if rsOn then 0 else rs)
  | .sysex l d => (l :: (encode d.length ++ d), if rsOn then 0 else rs)

theorem encMsg_toBytes (rsOn : Bool) (rs : Nat) (e : Ev) (hv : e.Valid) :
    encMsg rsOn rs e.toBytes = some (encBody rsOn rs e) := by
  cases e with
  | metaEv t d =>
    cases rsOn <;> simp [Ev.toBytes, encMsg, encBody, isChanStatus]
  | sysex l d =>
    obtain ⟨hl, hd⟩ := hv
    have hm : d.length % 4294967296 = d.length := Nat.mod_eq_of_lt hd
    rcases hl with rfl | rfl <;> cases rsOn <;> simp [Ev.toBytes, encMsg, encBody, hm]
  | chan s d1 d2 =>
    obtain ⟨h1, h2, h3, h4⟩ := hv
    have hF0 : ¬ (s = 0xF0 ∨ s = 0xF7) := by omega
    have hc : isChanStatus s = true := by simp [isChanStatus]; omega
    cases d2 with
    | none =>
      cases rsOn with
      | false => simp [Ev.toBytes, encMsg, encBody, hF0]
      | true =>
        by_cases hs : s = rs
        · subst hs; simp [Ev.toBytes, encMsg, encBody, hF0, hc]
        · simp [Ev.toBytes, encMsg, encBody, hF0, hc, hs]
    | some d =>
      cases rsOn with
      | false => simp [Ev.toBytes, encMsg, encBody, hF0]
      | true =>
        by_cases hs : s = rs
        · subst hs; simp [Ev.toBytes, encMsg, encBody, hF0, hc]
        · simp [Ev.toBytes, encMsg, encBody, hF0, hc, hs]

theorem readVlq_encode (n : Nat) (hn : n < 4294967296) (rest : Bytes) :
    readVlq (encode n ++ rest) = .ok (n, rest) := by
  simp [readVlq, read_encode n hn rest]

theorem readN_append (d rest : Bytes) : readN d.length (d ++ rest) = .ok (d, rest) := by
  unfold readN
  by_cases h0 : d.length = 0
  · have : d = [] := List.eq_nil_of_length_eq_zero h0
    subst this; simp
  · have hne : d ++ rest ≠ [] := by
      intro h; have := (List.append_eq_nil_iff.mp h).1; simp [this] at h0
    simp [h0, hne]

theorem finishChan_one (δ s d1 : Nat) (rest : Bytes) (h : oneData s = true) :
    finishChan δ s d1 rest = ⟨δ, [s, d1], s, rest⟩ := by
  simp [oneData] at h
  simp [finishChan, h]

theorem finishChan_two (δ s d1 d2 : Nat) (rest : Bytes) (h : oneData s = false) :
    finishChan δ s d1 (d2 :: rest) = ⟨δ, [s, d1, d2], s, rest⟩ := by
  simp [oneData] at h
  simp [finishChan, h]

/-- C01 crux: one event written with running status `rs` is read back with reader status `rr`,
    provided both agree whenever running status is in use -/
theorem readEvent_enc (rsOn : Bool) (rs rr δ : Nat) (e : Ev) (rest : Bytes)
    (hv : e.Valid) (hδ : δ < 4294967296) (hrr : rsOn = true → rr = rs) :
    readEvent rr (encode δ ++ (encBody rsOn rs e).1 ++ rest)
      = .ok ⟨δ, e.toBytes, statusOr0 e, rest⟩ := by
  unfold readEvent
  simp only [List.append_assoc, readVlq_encode δ hδ]
  cases e with
  | metaEv t d =>
    obtain ⟨ht, hd⟩ := hv
    simp [encBody, readByte, readVlq_encode d.length hd, readN_append, Ev.toBytes, statusOr0, bind, Except.bind, pure, Except.pure]
  | sysex l d =>
    obtain ⟨hl, hd⟩ := hv
    rcases hl with rfl | rfl <;>
      simp [encBody, readByte, readVlq_encode d.length hd, readN_append, Ev.toBytes, statusOr0, bind, Except.bind, pure, Except.pure]
  | chan s d1 d2 =>
    obtain ⟨h1, h2, h3, h4⟩ := hv
    have hsFF : s ≠ 0xFF := by omega
    have hsF0 : ¬ (s = 0xF0 ∨ s = 0xF7) := by omega
    have hdFF : d1 ≠ 0xFF := by omega
    have hdF0 : ¬ (d1 = 0xF0 ∨ d1 = 0xF7) := by omega
    have hc : isChanStatus s = true := by simp [isChanStatus]; omega
    have hdc : isChanStatus d1 = false := by simp [isChanStatus]; omega
    by_cases hel : rsOn = true ∧ s = rs
    · obtain ⟨hon, rfl⟩ := hel
      have hrs : rr = s := hrr hon
      subst hrs
      have hs0 : rr ≠ 0 := by omega
      cases d2 with
      | none =>
        simp only at h4
        simp [encBody, hon, readByte, bind, Except.bind, pure, Except.pure, hdFF, hdF0, hdc, hs0, Ev.toBytes, statusOr0,
          finishChan_one _ _ _ _ h4]
      | some d =>
        obtain ⟨h5, h6⟩ := h4
        simp [encBody, hon, readByte, bind, Except.bind, pure, Except.pure, hdFF, hdF0, hdc, hs0, Ev.toBytes, statusOr0,
          finishChan_two _ _ _ _ _ h5]
    · cases d2 with
      | none =>
        simp only at h4
        simp [encBody, hel, readByte, bind, Except.bind, pure, Except.pure, hsFF, hsF0, hc, Ev.toBytes, statusOr0,
          finishChan_one _ _ _ _ h4]
      | some d =>
        obtain ⟨h5, h6⟩ := h4
        simp [encBody, hel, readByte, bind, Except.bind, pure, Except.pure, hsFF, hsF0, hc, Ev.toBytes, statusOr0,
          finishChan_two _ _ _ _ _ h5]

/-- the writer's running status after an event (running status on) is the event's status or 0 -/
theorem encBody_status (rs : Nat) (e : Ev) : (encBody true rs e).2 = statusOr0 e := by
  cases e with
  | chan s d1 d2 => simp only [encBody, statusOr0]; split <;> simp_all
  | metaEv t d => simp [encBody, statusOr0]
  | sysex l d => simp [encBody, statusOr0]

theorem encBody_false_indep (rs rr : Nat) (e : Ev) : (encBody false rs e).1 = (encBody false rr e).1 := by
  cases e <;> simp [encBody]

end Midi.Smf
