import MidiModel.Smf
/-!
# Strict SMF 1.0 parser (oracle of C03)

Written from the format description, independent of the reader model of `Smf.lean` (it shares only the
data types and `Vlq.encode` for re-encoding a parsed length): a 6-byte `MThd` header whose track count equals
the number of `MTrk` chunks that follow, every chunk length exact, canonical variable-length quantities
(shortest form, at most four bytes), running status only directly after a channel event of the same
track, data bytes below 0x80, exactly one end-of-track per track and nothing after it, no trailing bytes.
-/
namespace Midi.Strict
open Midi.Smf

/-- canonical VLQ: 1..4 bytes, no leading 0x80 -/
def vlq (bs : Bytes) : Option (Nat × Bytes) :=
  match bs with
  | [] => none
  | b0 :: r0 =>
    if b0 < 128 then some (b0, r0)
    else if b0 = 128 ∨ 256 ≤ b0 then none
    else match r0 with
      | [] => none
      | b1 :: r1 =>
        if b1 < 128 then some ((b0 - 128) * 128 + b1, r1)
        else if 256 ≤ b1 then none
        else match r1 with
          | [] => none
          | b2 :: r2 =>
            if b2 < 128 then some (((b0 - 128) * 128 + (b1 - 128)) * 128 + b2, r2)
            else if 256 ≤ b2 then none
            else match r2 with
              | [] => none
              | b3 :: r3 =>
                if b3 < 128 then some ((((b0 - 128) * 128 + (b1 - 128)) * 128 + (b2 - 128)) * 128 + b3, r3)
                else none

/-- result of one strictly parsed event -/
structure SEv where
  ev : Event
  rs : Nat          -- running status after the event (0 = none)
  rest : Bytes
  eot : Bool
deriving Repr, DecidableEq

def dataByte (b : Nat) : Bool := b < 128

def chanTail (δ status a1 : Nat) (bs : Bytes) : Option SEv :=
  if !dataByte a1 then none
  else if status / 16 = 0xC ∨ status / 16 = 0xD then some ⟨⟨δ, [status, a1]⟩, status, bs, false⟩
  else match bs with
    | [] => none
    | a2 :: r => if dataByte a2 then some ⟨⟨δ, [status, a1, a2]⟩, status, r, false⟩ else none

def event (rs : Nat) (bs : Bytes) : Option SEv :=
  match vlq bs with
  | none => none
  | some (δ, bs1) =>
    match bs1 with
    | [] => none
    | c :: bs2 =>
      if c = 0xFF then
        match bs2 with
        | [] => none
        | t :: bs3 =>
          match vlq bs3 with
          | none => none
          | some (n, bs4) =>
            if bs4.length < n then none
            else
              let d := bs4.take n
              let rest := bs4.drop n
              if t = 0x2F then (if n = 0 then some ⟨⟨δ, EOT⟩, 0, rest, true⟩ else none)
              else some ⟨⟨δ, [0xFF, t] ++ Vlq.encode n ++ d⟩, 0, rest, false⟩
      else if c = 0xF0 ∨ c = 0xF7 then
        match vlq bs2 with
        | none => none
        | some (n, bs4) =>
          if bs4.length < n then none
          else some ⟨⟨δ, c :: bs4.take n⟩, 0, bs4.drop n, false⟩
      else if 0x80 ≤ c ∧ c ≤ 0xEF then
        match bs2 with
        | [] => none
        | a1 :: r => chanTail δ c a1 r
      else if c < 0x80 ∧ rs ≠ 0 then chanTail δ rs c bs2
      else none

/-- the events of one chunk body: ends exactly with the end-of-track event -/
def events : Nat → Nat → Bytes → Option Track
  | 0, _, _ => none
  | f+1, rs, bs =>
    match event rs bs with
    | none => none
    | some se =>
      if se.eot then (if se.rest = [] then some [se.ev] else none)
      else match events f se.rs se.rest with
        | none => none
        | some t => some (se.ev :: t)

def take4 (bs : Bytes) : Option (Bytes × Bytes) :=
  if bs.length < 4 then none else some (bs.take 4, bs.drop 4)

def be32val (l : Bytes) : Option Nat :=
  match l with
  | [a, b, c, d] => if a ≥ 256 ∨ b ≥ 256 ∨ c ≥ 256 ∨ d ≥ 256 then none
                    else some (a * 16777216 + b * 65536 + c * 256 + d)
  | _ => none

/-- one track chunk: exact length, body parsed to its end; returns the bytes after the chunk -/
def chunk1 (bs : Bytes) : Option (Track × Bytes) :=
  match take4 bs with
  | none => none
  | some (typ, r1) =>
    match take4 r1 with
    | none => none
    | some (l4, rest) =>
      match be32val l4 with
      | none => none
      | some len =>
        if typ ≠ MTrk then none
        else if rest.length < len then none
        else match events (len + 1) 0 (rest.take len) with
          | some t => some (t, rest.drop len)
          | none => none

def chunks : Nat → Bytes → Option (List Track)
  | 0, bs => if bs = [] then some [] else none
  | k+1, bs =>
    match chunk1 bs with
    | none => none
    | some (t, r) =>
      match chunks k r with
      | none => none
      | some ts => some (t :: ts)

def division (hi lo : Nat) : Option TimeFormat :=
  if hi ≥ 256 ∨ lo ≥ 256 then none
  else if hi < 128 then (if hi * 256 + lo = 0 then none else some (.metric (hi * 256 + lo)))
  else
    let fps := 256 - hi
    if fps = 24 ∨ fps = 25 ∨ fps = 29 ∨ fps = 30 then some (.smpte fps lo) else none

def take2 (bs : Bytes) : Option (Nat × Bytes) :=
  match bs with
  | a :: b :: r => if a ≥ 256 ∨ b ≥ 256 then none else some (a * 256 + b, r)
  | _ => none

def rawDivision (bs : Bytes) : Option (TimeFormat × Bytes) :=
  match bs with
  | a :: b :: r => (division a b).map (fun tf => (tf, r))
  | _ => none

/-- the strict parser: `some content` iff the bytes are a structurally valid SMF 1.0 file -/
def parse (bs : Bytes) : Option File :=
  match take4 bs with
  | none => none
  | some (typ, r1) =>
  match take4 r1 with
  | none => none
  | some (l4, r2) =>
  if typ ≠ MThd ∨ l4 ≠ [0, 0, 0, 6] then none else
  match take2 r2 with
  | none => none
  | some (fmt, r3) =>
  match take2 r3 with
  | none => none
  | some (n, r4) =>
  match rawDivision r4 with
  | none => none
  | some (tf, rest) =>
    if fmt > 2 ∨ n = 0 ∨ (fmt = 0 ∧ n ≠ 1) then none
    else match chunks n rest with
      | some ts => some ⟨fmt, tf, ts⟩
      | none => none

--@driver strict. Strict.handle
def handle (op : String) (args : List String) : String :=
  match op, args with
  | "strict.parse", [h] => match unhex h with
    | some bs => match parse bs with
      | some f => "s=ok:" ++ showFile f
      | none => "s=invalid"
    | none => "bad-op"
  | "strict.vlq", [h] => match unhex h with
    | some bs => match vlq bs with
      | some (n, r) => s!"ok {n} {r.length}"
      | none => "invalid"
    | none => "bad-op"
  | _, _ => "bad-op"

end Midi.Strict
