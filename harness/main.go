// Command harness ties the Lean model of gomidi/midi to the implementation in the
// working tree it was built against: it generates operations from one seeded PRNG,
// runs them through the real library in-process, asks the compiled Lean model
// driver for its answer to the same operation over a line protocol, compares the
// canonicalised answers (correspondence) and evaluates each property directly on
// the implementation (property oracle).
package main

import (
	"bufio"
	"encoding/json"
	"flag"
	"fmt"
	"os"
	"os/exec"
	"runtime/debug"
	"sort"
	"strings"
	"sync/atomic"
	"time"
)

// Case is one generated operation.
type Case struct {
	Op   string   // line sent to the model driver
	Tags []string // what the case exercises (histogram in the evidence)
	// NonTrivial: reaches the mechanism the property is about (rule stated per property)
	NonTrivial bool
}

// Verdict is the outcome of one case.
type Verdict struct {
	Oracle   []string       // property violations observed on the implementation
	Mismatch []string       // model / implementation disagreements (correspondence)
	Tags     []string       // extra tags discovered while running (branches hit)
	Counts   map[string]int // extra counters (e.g. sub-evaluations inside one case), summed into the histogram
	Note     string
}

// Prop is the per-property plug-in.
type Prop struct {
	ID   string
	Rule string // how cases are generated and what makes one non-trivial
	Gen  func(r *Rng, tier string, emit func(Case))
	Run  func(c Case, m *Model) Verdict
}

var props = map[string]*Prop{}

func register(p *Prop) { props[p.ID] = p }

// Model is a running Lean model driver.
type Model struct {
	cmd *exec.Cmd
	in  *bufio.Writer
	out *bufio.Reader
	n   int
}

func startModel(path string) (*Model, error) {
	cmd := exec.Command(path)
	stdin, err := cmd.StdinPipe()
	if err != nil {
		return nil, err
	}
	stdout, err := cmd.StdoutPipe()
	if err != nil {
		return nil, err
	}
	cmd.Stderr = os.Stderr
	if err := cmd.Start(); err != nil {
		return nil, err
	}
	return &Model{cmd: cmd, in: bufio.NewWriterSize(stdin, 1<<20), out: bufio.NewReaderSize(stdout, 1<<20)}, nil
}

// Ask sends one op and returns the model's answer line.
func (m *Model) Ask(op string) string {
	m.n++
	m.in.WriteString(op)
	m.in.WriteByte('\n')
	m.in.Flush()
	line, err := m.out.ReadString('\n')
	if err != nil {
		return "model-died"
	}
	return strings.TrimRight(line, "\n")
}

// fields parses "k=v k=v" answers.
func fields(ans string) map[string]string {
	f := map[string]string{}
	for _, t := range strings.Fields(ans) {
		if i := strings.IndexByte(t, '='); i > 0 {
			f[t[:i]] = t[i+1:]
		} else {
			f["_"] = t
		}
	}
	return f
}

type failure struct {
	Index    int      `json:"index"`
	Op       string   `json:"op"`
	Kind     string   `json:"kind"` // oracle | mismatch | crash | timeout
	Detail   []string `json:"detail"`
	Shrunk   string   `json:"shrunk_op,omitempty"`     // a smaller op on which the property still fails
	ShrunkBy []string `json:"shrunk_detail,omitempty"` // what fails on it
	Before   []string `json:"before,omitempty"`        // the ops run just before (history-dependent failures replay with them)
}

type result struct {
	Property    string         `json:"property"`
	Seed        int64          `json:"seed"`
	Tier        string         `json:"tier"`
	Rule        string         `json:"rule"`
	Evaluations int            `json:"evaluations"`
	Distinct    int            `json:"distinct_nontrivial"`
	ModelAsks   int            `json:"model_asks"`
	Tags        map[string]int `json:"tags"`
	Samples     []string       `json:"samples"`
	Failures    []failure      `json:"failures"`
	Complete    bool           `json:"complete"`
}

var currentIndex int64 = -1
var currentStart int64

func main() {
	// recursion where the code is iterative today shows as a stack overflow on deep inputs: with Go's default limit of
	// 1 GB that needs millions of nested frames; 16 MB (far above what the library needs) makes it visible 64 times earlier
	debug.SetMaxStack(16 << 20)
	if len(os.Args) < 2 {
		fmt.Fprintln(os.Stderr, "usage: harness facts | check <prop> [flags] | list")
		os.Exit(2)
	}
	switch os.Args[1] {
	case "facts":
		writeFacts(os.Stdout)
		return
	case "list":
		ids := []string{}
		for id := range props {
			ids = append(ids, id)
		}
		sort.Strings(ids)
		fmt.Println(strings.Join(ids, " "))
		return
	case "check":
	default:
		fmt.Fprintln(os.Stderr, "unknown command")
		os.Exit(2)
	}
	fs := flag.NewFlagSet("check", flag.ExitOnError)
	seed := fs.Int64("seed", 1, "PRNG seed")
	tier := fs.String("tier", "quick", "quick|thorough")
	modelPath := fs.String("model", "", "path of the compiled Lean model driver")
	out := fs.String("out", "result.json", "result file")
	progress := fs.String("progress", "", "progress file (index of the op in flight)")
	crashed := fs.String("crashed", "", "comma separated indices of ops that killed an earlier run")
	replay := fs.String("replay", "", "file with ops to run instead of generating")
	opTimeout := fs.Duration("optimeout", 60*time.Second, "per-op watchdog")
	maxFail := fs.Int("maxfail", 20, "stop recording failures after this many")
	maxTime := fs.Duration("maxtime", 0, "stop after this much time (0 = no limit)")
	stopAt := fs.Int("stopat", -1, "stop after the case with this index (used once several cases have killed the process)")
	fs.Parse(os.Args[3:])
	p := props[os.Args[2]]
	if p == nil {
		fmt.Fprintln(os.Stderr, "unknown property", os.Args[2])
		os.Exit(2)
	}
	m, err := startModel(*modelPath)
	if err != nil {
		fmt.Fprintln(os.Stderr, "cannot start model:", err)
		os.Exit(2)
	}
	crashedSet := map[int]bool{}
	for _, s := range strings.Split(*crashed, ",") {
		var k int
		if _, err := fmt.Sscanf(s, "%d", &k); err == nil {
			crashedSet[k] = true
		}
	}
	res := result{Property: p.ID, Seed: *seed, Tier: *tier, Rule: p.Rule, Tags: map[string]int{}}
	var prog *os.File
	if *progress != "" {
		prog, _ = os.Create(*progress)
	}
	// watchdog
	go func() {
		for {
			time.Sleep(500 * time.Millisecond)
			i := atomic.LoadInt64(&currentIndex)
			st := atomic.LoadInt64(&currentStart)
			if i >= 0 && st > 0 && time.Since(time.Unix(0, st)) > *opTimeout {
				if prog != nil {
					fmt.Fprintf(prog, "TIMEOUT %d\n", i)
				}
				os.Exit(3)
			}
		}
	}()
	// cases are processed as they are generated (nothing is kept): generation is deterministic in the
	// seed, so a restarted run reaches the same indices
	seen := map[uint64]bool{}
	nOracle, nMismatch := 0, 0
	started := time.Now()
	index := 0
	stopped := false
	var recent []string
	process := func(c Case) {
		i := index
		index++
		defer func() {
			if len(c.Op) < 100000 {
				recent = append(recent, c.Op)
				if len(recent) > 3 {
					recent = recent[1:]
				}
			}
		}()
		if stopped {
			return
		}
		if *maxTime > 0 && time.Since(started) > *maxTime || *stopAt >= 0 && i > *stopAt {
			stopped = true
			return
		}
		res.Evaluations++
		for _, t := range c.Tags {
			res.Tags[t]++
		}
		if c.NonTrivial {
			h := fnv64(c.Op)
			if !seen[h] {
				seen[h] = true
				res.Distinct++
			}
		}
		if len(res.Samples) < 5 && (i < 2 || i%997 == 0) {
			s := c.Op
			if len(s) > 400 {
				s = s[:400] + "…"
			}
			res.Samples = append(res.Samples, s)
		}
		if crashedSet[i] {
			res.Failures = append(res.Failures, failure{Index: i, Op: c.Op, Kind: "crash", Detail: []string{"the implementation process died (fatal error or watchdog) while running this op"}})
			return
		}
		if prog != nil {
			fmt.Fprintf(prog, "%d\n", i)
		}
		atomic.StoreInt64(&currentStart, time.Now().UnixNano())
		atomic.StoreInt64(&currentIndex, int64(i))
		v := runGuarded(p, c, m)
		atomic.StoreInt64(&currentIndex, -1)
		for _, t := range v.Tags {
			res.Tags[t]++
		}
		for t, n := range v.Counts {
			res.Tags[t] += n
		}
		// separate quotas: mismatches must never crowd out a property violation
		if len(v.Oracle) > 0 {
			if nOracle < *maxFail {
				res.Failures = append(res.Failures, failure{Index: i, Op: c.Op, Kind: "oracle", Detail: v.Oracle, Before: append([]string{}, recent...)})
			}
			nOracle++
		} else if len(v.Mismatch) > 0 {
			if nMismatch < *maxFail {
				res.Failures = append(res.Failures, failure{Index: i, Op: c.Op, Kind: "mismatch", Detail: v.Mismatch})
			}
			nMismatch++
		}
	}
	if *replay != "" {
		data, err := os.ReadFile(*replay)
		if err != nil {
			fmt.Fprintln(os.Stderr, err)
			os.Exit(2)
		}
		var rp struct {
			Ops []string `json:"ops"`
		}
		if json.Unmarshal(data, &rp) == nil && len(rp.Ops) > 0 {
			for _, o := range rp.Ops {
				process(Case{Op: o, NonTrivial: true})
			}
		} else {
			for _, l := range strings.Split(string(data), "\n") {
				if strings.TrimSpace(l) != "" && !strings.HasPrefix(l, "#") {
					process(Case{Op: strings.TrimSpace(l), NonTrivial: true})
				}
			}
		}
	} else {
		// corpus of minimised past failures first
		if data, err := os.ReadFile("corpus/" + p.ID + ".ops"); err == nil {
			for _, l := range strings.Split(string(data), "\n") {
				if strings.TrimSpace(l) != "" && !strings.HasPrefix(l, "#") {
					process(Case{Op: strings.TrimSpace(l), Tags: []string{"corpus"}, NonTrivial: true})
				}
			}
		}
		p.Gen(NewRng(uint64(*seed)), *tier, process)
	}
	// shrink the first property violation (never runs on a tree where the property holds)
	for k := range res.Failures {
		if res.Failures[k].Kind == "oracle" {
			if so, sd := shrinkOp(p, res.Failures[k].Op, m, 25*time.Second); so != "" {
				res.Failures[k].Shrunk, res.Failures[k].ShrunkBy = so, sd
			}
			break
		}
	}
	res.ModelAsks = m.n
	res.Complete = true
	data, _ := json.MarshalIndent(res, "", " ")
	os.WriteFile(*out, data, 0o644)
}

// shrinkOp: greedy removal of list elements (separated by ; , | /) from an op as long as the model
// still accepts the op and the property oracle still fails on the implementation.
func shrinkOp(p *Prop, op string, m *Model, budget time.Duration) (string, []string) {
	deadline := time.Now().Add(budget)
	fails := func(o string) []string {
		if strings.HasPrefix(m.Ask(o), "bad-op") {
			return nil
		}
		atomic.StoreInt64(&currentStart, time.Now().UnixNano())
		v := runGuarded(p, Case{Op: o, NonTrivial: true}, m)
		return v.Oracle
	}
	// split the last blank-separated fields into elements
	isSep := func(c byte) bool { return c == ';' || c == ',' || c == '|' || c == '/' }
	type elem struct {
		sep  string
		text string
	}
	split := func(o string) []elem {
		var es []elem
		cur, sep := "", ""
		for i := 0; i < len(o); i++ {
			if isSep(o[i]) {
				es = append(es, elem{sep, cur})
				cur, sep = "", string(o[i])
			} else {
				cur += string(o[i])
			}
		}
		return append(es, elem{sep, cur})
	}
	join := func(es []elem) string {
		var sb strings.Builder
		for i, e := range es {
			if i > 0 {
				sb.WriteString(e.sep)
			}
			sb.WriteString(e.text)
		}
		return sb.String()
	}
	best := op
	var bestDetail []string
	es := split(op)
	if len(es) < 3 {
		return "", nil
	}
	for chunk := len(es) / 2; chunk >= 1; chunk /= 2 {
		for i := 1; i+chunk <= len(es) && time.Now().Before(deadline); {
			cand := append(append([]elem{}, es[:i]...), es[i+chunk:]...)
			o := join(cand)
			if d := fails(o); len(d) > 0 {
				es, best, bestDetail = cand, o, d
			} else {
				i++
			}
		}
	}
	if best == op {
		return "", nil
	}
	return best, bestDetail
}

func fnv64(s string) uint64 {
	h := uint64(0xcbf29ce484222325)
	for i := 0; i < len(s); i++ {
		h = (h ^ uint64(s[i])) * 0x100000001b3
	}
	return h
}

func runGuarded(p *Prop, c Case, m *Model) (v Verdict) {
	defer func() {
		if r := recover(); r != nil {
			v.Oracle = append(v.Oracle, fmt.Sprintf("harness-level panic while running the op: %v", r))
		}
	}()
	return p.Run(c, m)
}

// try runs f and reports a recovered panic.
func try(f func()) (panicked string) {
	defer func() {
		if r := recover(); r != nil {
			panicked = fmt.Sprint(r)
			if len(panicked) > 200 {
				panicked = panicked[:200]
			}
		}
	}()
	f()
	return ""
}
