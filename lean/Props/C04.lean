import MidiModel.Live
namespace Midi.C04
theorem placeholder : True := trivial
end Midi.C04
