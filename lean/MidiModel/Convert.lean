import MidiModel.Smf
/-!
# `SMF.ConvertToSMF1` (v2/smf/smf.go) — format 0 → format 1 conversion

The model follows the Go code statement by statement:

```
if src.format == 1 { return src }
for _, ev := range src.Tracks[0] {            -- `splitLoop`
    absTicks += int64(ev.Delta)
    te := {AbsTicks: absTicks, Message: ev.Message}
    if ev.Message.GetChannel(&channel) { channelTracks[channel] = append(channelTracks[channel], &te) }
    else                               { metaTrack = append(metaTrack, &te) }
}
sort.Sort(metaTrack)                           -- identity on a non-decreasing sequence (trusted, DESIGN §4)
for _, ev := range metaTrack {                 -- `rebuild`
    metaTarget.Add(uint32(ev.AbsTicks-lastAbs), ev.Message); lastAbs = ev.AbsTicks }
dest.TimeFormat = src.TimeFormat; dest.format = 1
metaTarget.Close(0); dest.Add(metaTarget)
for i := 0; i < 16; i++ {                      -- `chanLoop`
    if len(channelTracks[i]) > 0 { var t Track; lastAbs = 0; …same loop…; t.Close(0); dest.Add(t) } }
```

Quirks kept: `Track.Add` is a no-op on a closed track, so the source's own end-of-track event (a
non-channel message) travels to the first result track through `Add`, closes it, and the following
`Close(0)` does nothing; an end-of-track *inside* the source swallows every later non-channel event;
`src.Tracks[0]` panics without a track; tracks after the first are ignored; deltas are recomputed as
`uint32(int64 difference)` (explicit wrap).

`int64` absolute ticks: the running sum is kept as a `Nat`; the Go value is this sum as long as it is
below `2^63`. From `2^63` on (more than `2^31` events) the `int64` wraps, `metaTrack` is no longer
non-decreasing and the result of the unstable `sort.Sort` is not determined by its specification:
the model answers `unmodelled` there instead of inventing a behaviour.
-/
namespace Midi.Convert
open Midi.Smf

/-- `Message.GetChannel(&ch)` (v2/message.go): `m.Is(ChannelMsg)` looks at the first byte only
    (`getType`: `0x80 ≤ b ≤ 0xEF` ↦ a channel type), the channel is `utils.ParseStatus(m[0])` = low nibble.
    `none` = returns false (also for the empty message: `getType` answers `UnknownMsg`). -/
def getChannel (m : Msg) : Option Nat :=
  match m with
  | [] => none
  | b :: _ => if isChanStatus b then some (b % 16) else none

/-- `smf.TrackEvent` as far as the conversion uses it -/
structure TE where
  abs : Nat
  msg : Msg
deriving Repr, DecidableEq, Inhabited

/-- `var channelTracks [16]TrackEvents; var metaTrack TrackEvents` -/
structure Buckets where
  metaEvs : List TE
  chans : List (List TE)
deriving Repr, DecidableEq

def Buckets.empty : Buckets := ⟨[], List.replicate 16 []⟩

/-- first loop: absolute ticks and distribution. `chans.modify c (· ++ [te])` is
    `channelTracks[c] = append(channelTracks[c], &te)` (`c = b % 16 < 16`: always in range). -/
def splitLoop : Nat → Buckets → Track → Buckets
  | _, b, [] => b
  | a, b, ev :: r =>
    let abs := a + ev.delta
    let te : TE := ⟨abs, ev.msg⟩
    match getChannel ev.msg with
    | some c => splitLoop abs { b with chans := b.chans.modify c (· ++ [te]) } r
    | none => splitLoop abs { b with metaEvs := b.metaEvs ++ [te] } r

/-- `uint32(ev.AbsTicks - lastAbs)`: `int64` difference, then truncation to 32 bits -/
def u32sub (a last : Nat) : Nat := (((a : Int) - (last : Int)) % 4294967296).toNat

/-- the re-delta loop: `t.Add(uint32(ev.AbsTicks-lastAbs), ev.Message); lastAbs = ev.AbsTicks`
    (`Track.add` does nothing once the track is closed) -/
def rebuild : Track → Nat → List TE → Track
  | t, _, [] => t
  | t, last, te :: r => rebuild (t.add (u32sub te.abs last) [te.msg]) te.abs r

/-- one target track: `var t Track; lastAbs = 0; loop; t.Close(0)` -/
def mkTrack (evs : List TE) : Track := (rebuild [] 0 evs).close 0

/-- `for i := 0; i < 16; i++ { if len(evts) > 0 { …; dest.Add(t) } }` -/
def chanLoop : File → List (List TE) → File
  | dest, [] => dest
  | dest, evts :: r =>
    if evts.length > 0 then chanLoop (dest.addTrack (mkTrack evts)) r else chanLoop dest r

/-- sum of the deltas of a track (the last value of `absTicks`) -/
def totalTicks (t : Track) : Nat := (t.map (·.delta)).sum

inductive Res
  | ok (f : File)
  | panic                 -- `src.Tracks[0]`: index out of range
  | unmodelled            -- `int64` absolute ticks would wrap (see the header)
deriving Repr, DecidableEq

/-- `src.ConvertToSMF1()` -/
def convert (src : File) : Res :=
  if src.format = 1 then .ok src
  else match src.tracks with
    | [] => .panic
    | t0 :: _ =>
      if 9223372036854775808 ≤ totalTicks t0 then .unmodelled
      else
        let b := splitLoop 0 Buckets.empty t0
        -- sort.Sort(metaTrack): the sequence is non-decreasing already; left as it is (trusted)
        let metaTarget := mkTrack b.metaEvs
        let dest : File := ⟨1, src.tf, []⟩
        let dest := dest.addTrack metaTarget
        .ok (chanLoop dest b.chans)

/-! ## line protocol -/

def parseEvent (s : String) : Option Event :=
  match s.splitOn ":" with
  | [d, h] => do pure ⟨← d.toNat?, ← unhex h⟩
  | _ => none

def parseTrack (s : String) : Option Track :=
  if s = "-" then some [] else (s.splitOn ",").mapM parseEvent

/-- inverse of `Smf.showFile`: `format/tf/track|track…` (`none` for no track) -/
def parseFile (s : String) : Option File :=
  match s.splitOn "/" with
  | [fm, tf, ts] => do
    let tracks ← if ts = "none" then some [] else (ts.splitOn "|").mapM parseTrack
    pure ⟨← fm.toNat?, ← parseTF tf, tracks⟩
  | _ => none

def showRes : Res → String
  | .ok f => "ok:" ++ showFile f
  | .panic => "panic"
  | .unmodelled => "unmodelled"

--@driver convert. Convert.handle
def handle (op : String) (args : List String) : String :=
  match op with
  | "convert.run" =>
    match (field "src" args).bind parseFile with
    | some f => "r=" ++ showRes (convert f)
    | none => "bad-op"
  | "convert.chan" => match args with
    | [h] => match unhex h with
      | some m => match getChannel m with
        | some c => s!"ch={c}"
        | none => "ch=none"
      | none => "bad-op"
    | _ => "bad-op"
  | _ => "bad-op"

end Midi.Convert
