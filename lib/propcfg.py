"""Per-property configuration of ./check (level, trusted base additions, assumptions)."""

TRUSTED_BASE = [
    "Lean 4.33.0 kernel (re-checked with leanchecker in the thorough tier)",
    "axioms reported by #print axioms for every property theorem: subset of {propext, Classical.choice, Quot.sound}",
    "hand-written Lean model, tied to the working tree by the correspondence run of this check (differential; bounded by the generators)",
    "Go harness /verif/harness, orchestrator /verif/check, canonicalisation rules",
]

HOOK_COMMITS = ["abe0821"]

PROPS = {
    "C01": {
        "level": "proof",
        "text": "Kernel-checked theorems: for every SMF value in the stated domain the reader model applied to the writer model's bytes returns the written content (both running-status modes); the models are executable and compared with smf.WriteTo/ReadFrom on generated API histories on every run, and the round trip is also evaluated directly on the implementation.",
        "note": "Trusted: Lean kernel; hand-written model tied to the code only differentially (generators bound what is seen); Go slice/append/bytes.Buffer/binary semantics as modelled; domain guards of DESIGN §8.",
        "assumptions": [
            "domain of the theorems: 1..65535 tracks, well-formed channel/meta(not end-of-track)/sysex messages, deltas < 2^32 (DESIGN §8)",
            "Go slices/append/bytes.Buffer/encoding/binary behave as modelled (validated differentially)",
        ],
    },
}
