import MidiModel.Live
namespace Midi.C14
theorem placeholder : True := trivial
end Midi.C14
