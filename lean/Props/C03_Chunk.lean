import Props.C10_Chunk
/-!
# C03, tie to the source: the bytes `chunk.WriteTo` hands to the destination are `type ++ big-endian length ++ body`
(`Smf.encChunk`), the chunk framing the strict parser of C03 checks (proved in `Props/C10_Chunk.lean`).
-/
namespace Midi.C03
open Midi Midi.Go

theorem code_chunk_WriteTo (w : Go.Iface → List Nat → Int × Bool) (typ body : Bytes) (wr : Go.Iface)
    (h4 : typ.length = 4) :
    smf.chunk.WriteTo w ⟨typ, body⟩ wr =
      ((w wr (Smf.encChunk typ body)).1, (w wr (Smf.encChunk typ body)).2) :=
  Midi.C10.code_chunk_WriteTo w typ body wr h4

end Midi.C03
