import Proofs.StrictVlq
import Proofs.SmfDom
/-! The strict parser accepts what the writer model emits and recovers the written content. -/
namespace Midi.Strict
open Midi.Vlq Midi.Smf

def payloadLen : Ev → Nat
  | .chan _ _ _ => 0
  | .metaEv _ d => d.length
  | .sysex _ d => d.length

/-- extra bounds of the strict format: deltas and payload lengths fit the 4-byte VLQ -/
def SBodyOK (body : ATrack) : Prop := ∀ x ∈ body, x.1 < 268435456 ∧ payloadLen x.2 < 268435456

theorem take_append_self (d rest : Bytes) : (d ++ rest).take d.length = d := by simp
theorem drop_append_self (d rest : Bytes) : (d ++ rest).drop d.length = rest := by simp

theorem event_enc (rsOn : Bool) (rs rr δ : Nat) (e : Ev) (rest : Bytes)
    (hv : e.Valid) (hne : e.notEOT) (hδ : δ < 268435456) (hp : payloadLen e < 268435456)
    (hrr : rsOn = true → rr = rs) :
    event rr (encode δ ++ (encBody rsOn rs e).1 ++ rest)
      = some ⟨⟨δ, e.toBytes⟩, statusOr0 e, rest, false⟩ := by
  unfold event
  simp only [List.append_assoc, vlq_encode δ hδ]
  cases e with
  | metaEv t d =>
    simp only [payloadLen] at hp
    simp only [Ev.notEOT] at hne
    simp [encBody, vlq_encode d.length hp, Ev.toBytes, statusOr0, hne]
  | sysex l d =>
    obtain ⟨hl, _⟩ := hv
    simp only [payloadLen] at hp
    rcases hl with rfl | rfl <;> simp [encBody, vlq_encode d.length hp, Ev.toBytes, statusOr0]
  | chan s d1 d2 =>
    obtain ⟨h1, h2, h3, h4⟩ := hv
    have hsFF : s ≠ 0xFF := by omega
    have hsF0 : ¬ (s = 0xF0 ∨ s = 0xF7) := by omega
    have hdFF : d1 ≠ 0xFF := by omega
    have hdF0 : ¬ (d1 = 0xF0 ∨ d1 = 0xF7) := by omega
    have hdst : ¬ (0x80 ≤ d1 ∧ d1 ≤ 0xEF) := by omega
    by_cases hel : rsOn = true ∧ s = rs
    · obtain ⟨hon, rfl⟩ := hel
      have hrs : rr = s := hrr hon
      subst hrs
      have hs0 : rr ≠ 0 := by omega
      cases d2 with
      | none =>
        simp only [oneData, Bool.or_eq_true, decide_eq_true_eq] at h4
        simp [encBody, hon, hdFF, hdF0, hdst, hs0, h3, chanTail, dataByte, h4, Ev.toBytes, statusOr0]
      | some d =>
        obtain ⟨h5, h6⟩ := h4
        simp only [oneData, Bool.or_eq_false_iff, decide_eq_false_iff_not] at h5
        simp [encBody, hon, hdFF, hdF0, hdst, hs0, h3, chanTail, dataByte, h5, h6, Ev.toBytes, statusOr0]
    · cases d2 with
      | none =>
        simp only [oneData, Bool.or_eq_true, decide_eq_true_eq] at h4
        simp [encBody, hel, hsFF, hsF0, h1, h2, h3, chanTail, dataByte, h4, Ev.toBytes, statusOr0]
      | some d =>
        obtain ⟨h5, h6⟩ := h4
        simp only [oneData, Bool.or_eq_false_iff, decide_eq_false_iff_not] at h5
        simp [encBody, hel, hsFF, hsF0, h1, h2, h3, chanTail, dataByte, h5, h6, Ev.toBytes, statusOr0]

theorem event_eot (rr δ : Nat) (hδ : δ < 268435456) :
    event rr (encode δ ++ EOT) = some ⟨⟨δ, EOT⟩, 0, [], true⟩ := by
  unfold event
  rw [vlq_encode δ hδ EOT]
  simp [EOT, vlq]

/-- a whole chunk body -/
theorem events_track (rsOn : Bool) (body : ATrack) (δe : Nat) (hδ : δe < 268435456)
    (hb : BodyOK body) (hs : SBodyOK body) :
    ∀ (rs rr fuel : Nat), (rsOn = true → rr = rs) → body.length < fuel →
    events fuel rr (encBodyL rsOn rs body ++ (encode δe ++ EOT)) = some (body.map evOf ++ [⟨δe, EOT⟩]) := by
  induction body with
  | nil =>
    intro rs rr fuel _ hf
    cases fuel with
    | zero => omega
    | succ f => simp [encBodyL, events, event_eot rr δe hδ]
  | cons x body ih =>
    intro rs rr fuel hrr hf
    obtain ⟨δ, e⟩ := x
    obtain ⟨hv, hne, _⟩ := hb (δ, e) (by simp)
    obtain ⟨hd, hp⟩ := hs (δ, e) (by simp)
    cases fuel with
    | zero => omega
    | succ f =>
      have hev := event_enc rsOn rs rr δ e (encBodyL rsOn (encBody rsOn rs e).2 body ++ (encode δe ++ EOT))
        hv hne hd hp hrr
      have hnext := ih (fun y hy => hb y (by simp [hy])) (fun y hy => hs y (by simp [hy]))
        (encBody rsOn rs e).2 (statusOr0 e) f
        (by intro h; subst h; exact (encBody_status rs e).symm) (by simp at hf; omega)
      simp only [encBodyL, List.append_assoc] at hev ⊢
      simp [events, hev, hnext, evOf]

theorem be32_dec (n : Nat) (h : n < 4294967296) :
    n / 16777216 % 256 * 16777216 + n / 65536 % 256 * 65536 + n / 256 % 256 * 256 + n % 256 = n := by omega

def SCTrackOK (rsOn : Bool) (t : CTrack) : Prop :=
  SBodyOK t.1 ∧ t.2 < 268435456 ∧ (encBodyL rsOn 0 t.1 ++ (encode t.2 ++ EOT)).length < 4294967296

theorem chunks_enc (rsOn : Bool) (cs : List CTrack) (h : ∀ c ∈ cs, CTrackOK c) (hs : ∀ c ∈ cs, SCTrackOK rsOn c) :
    chunks cs.length ((cs.map (chunkBytes rsOn)).flatten) = some (cs.map prepTrack) := by
  induction cs with
  | nil => simp [chunks]
  | cons c cs ih =>
    obtain ⟨body, δe⟩ := c
    obtain ⟨hb, _⟩ := h (body, δe) (by simp)
    obtain ⟨hsb, hδ, hlen⟩ := hs (body, δe) (by simp)
    have ih' := ih (fun c hc => h c (by simp [hc])) (fun c hc => hs c (by simp [hc]))
    have hm : (encBodyL rsOn 0 body ++ (encode δe ++ EOT)).length % 4294967296
        = (encBodyL rsOn 0 body ++ (encode δe ++ EOT)).length := Nat.mod_eq_of_lt hlen
    have hev := events_track rsOn body δe hδ hb hsb 0 0
      ((encBodyL rsOn 0 body ++ (encode δe ++ EOT)).length + 1) (fun _ => rfl)
      (by have := encBodyL_length rsOn body 0; simp only [List.length_append]; omega)
    have hd := be32_dec _ hlen
    generalize hB : encBodyL rsOn 0 body ++ (encode δe ++ EOT) = B at hm hev hd hlen
    have e0 : B.length / 16777216 % 256 < 256 := Nat.mod_lt _ (by decide)
    have e1 : B.length / 65536 % 256 < 256 := Nat.mod_lt _ (by decide)
    have e2 : B.length / 256 % 256 < 256 := Nat.mod_lt _ (by decide)
    have e3 : B.length % 256 < 256 := Nat.mod_lt _ (by decide)
    have g : ¬ (B.length / 16777216 % 256 ≥ 256 ∨ B.length / 65536 % 256 ≥ 256 ∨ B.length / 256 % 256 ≥ 256 ∨ B.length % 256 ≥ 256) := by omega
    have hc1 : chunk1 (chunkBytes rsOn (body, δe) ++ (List.map (chunkBytes rsOn) cs).flatten)
        = some (body.map evOf ++ [⟨δe, EOT⟩], (List.map (chunkBytes rsOn) cs).flatten) := by
      have g2 : ¬ ((B ++ (List.map (chunkBytes rsOn) cs).flatten).length < B.length) := by simp
      have t1 : ∀ X : Bytes, take4 (MTrk ++ X) = some (MTrk, X) := by intro X; simp [take4, MTrk]
      have t2 : ∀ X : Bytes, take4 (be32 B.length ++ X) = some (be32 B.length, X) := by intro X; simp [take4, be32]
      have t3 : be32val (be32 B.length) = some B.length := by
        simp only [be32, be32val, g, if_false, hd]
      simp only [chunkBytes, encChunk, hB, hm, List.append_assoc, chunk1, t1, t2, t3]
      rw [if_neg (by simp), if_neg g2, take_append_self, drop_append_self, hev]
    simp only [List.length_cons, List.map_cons, List.flatten_cons, chunks, hc1, ih']
    simp [prepTrack]

end Midi.Strict

namespace Midi.Strict
open Midi.Vlq Midi.Smf

/-- time divisions the SMF 1.0 text allows -/
def StrictTF : TimeFormat → Prop
  | .metric q => 1 ≤ q ∧ q ≤ 32767
  | .smpte fps sub => (fps = 24 ∨ fps = 25 ∨ fps = 29 ∨ fps = 30) ∧ sub < 256

theorem strictTF_valid (tf : TimeFormat) (h : StrictTF tf) : ValidTF tf := by
  cases tf with
  | metric q => exact h
  | smpte fps sub => obtain ⟨h1, h2⟩ := h; exact ⟨by omega, by omega, h2⟩

theorem rawDivision_enc (tf : TimeFormat) (h : StrictTF tf) (rest : Bytes) :
    rawDivision (encTimeFormat tf ++ rest) = some (tf, rest) := by
  cases tf with
  | metric q =>
    obtain ⟨h1, h2⟩ := h
    have a : ¬ q = 0 := by omega
    have b : ¬ q > 32767 := by omega
    have c : q / 256 % 256 < 128 := by omega
    have d : ¬ (q / 256 % 256 ≥ 256 ∨ q % 256 ≥ 256) := by omega
    have e : q / 256 % 256 * 256 + q % 256 = q := be16_dec q (by omega)
    simp [rawDivision, encTimeFormat, a, b, be16, division, c, d, e]
  | smpte fps sub =>
    obtain ⟨h1, h2⟩ := h
    have e1 : fps % 256 = fps := Nat.mod_eq_of_lt (by omega)
    have e2 : (256 - fps) % 256 = 256 - fps := Nat.mod_eq_of_lt (by omega)
    have e4 : sub % 256 = sub := Nat.mod_eq_of_lt h2
    have e5 : 256 - (256 - fps) = fps := by omega
    have a : ¬ (256 - fps ≥ 256 ∨ sub ≥ 256) := by omega
    have b : ¬ (256 - fps < 128) := by omega
    simp [rawDivision, encTimeFormat, e1, e2, e4, division, a, b, e5, h1]

theorem take2_be16 (n : Nat) (h : n < 65536) (rest : Bytes) : take2 (be16 n ++ rest) = some (n, rest) := by
  have a : ¬ (n / 256 % 256 ≥ 256 ∨ n % 256 ≥ 256) := by omega
  simp [take2, be16, a, be16_dec n h]

/-- file level: the strict parser on what the writer emits -/
theorem parse_enc (rsOn : Bool) (fmt : Nat) (tf : TimeFormat) (cs : List CTrack)
    (hfmt : fmt ≤ 2) (hf0 : fmt = 0 → cs.length = 1) (htf : StrictTF tf) (hne : cs ≠ []) (hn : cs.length < 65536)
    (hok : ∀ c ∈ cs, CTrackOK c) (hs : ∀ c ∈ cs, SCTrackOK rsOn c) :
    parse (encHeader fmt cs.length tf ++ (cs.map (chunkBytes rsOn)).flatten) = some ⟨fmt, tf, cs.map prepTrack⟩ := by
  have t1 : ∀ X : Bytes, take4 (MThd ++ X) = some (MThd, X) := by intro X; simp [take4, MThd]
  have t2 : ∀ X : Bytes, take4 ([0, 0, 0, 6] ++ X) = some ([0, 0, 0, 6], X) := by intro X; simp [take4]
  have hb6 : be32 (6 % 4294967296) = [0, 0, 0, 6] := by decide
  have hl : (be16 fmt ++ be16 cs.length ++ encTimeFormat tf).length = 6 := by
    obtain ⟨a, b, hab, _⟩ := parseTF_enc tf (strictTF_valid tf htf)
    simp [be16, hab]
  have hc := chunks_enc rsOn cs hok hs
  have hn0 : cs.length ≠ 0 := by intro h; exact hne (List.eq_nil_of_length_eq_zero h)
  have g : ¬ (fmt > 2 ∨ cs.length = 0 ∨ (fmt = 0 ∧ cs.length ≠ 1)) := by
    intro h
    rcases h with h | h | ⟨h1, h2⟩
    · omega
    · exact hn0 h
    · exact h2 (hf0 h1)
  simp only [encHeader, encChunk, hl, hb6]
  simp only [List.append_assoc, parse, t1, t2, take2_be16 fmt (by omega),
    take2_be16 cs.length hn, rawDivision_enc tf htf, hc]
  rw [if_neg (by simp), if_neg g]

end Midi.Strict
