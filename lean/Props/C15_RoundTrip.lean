import Props.C15
import Props.C15_Ctor
import Props.C15_Get
/-!
# C15 on the translated code itself: constructor, then accessor

`smf.MetaX(args)` followed by `m.GetMetaX(&a, …)` (any of the pointers nil) — both as translated from the source on
every run — returns `true` and leaves the arguments in exactly the variables behind the non-nil pointers: channel, port,
SMPTE offset, time signature (power-of-two denominators up to 128), meter, key signature (0..7 accidentals) and sequence
number. (Texts, sequencer data and tempo: the constructor side is tied in `C15_Ctor`, the accessor side goes
through `bytes.NewReader` / `binary.Write` / floats and stays differential.)
-/
namespace Midi.C15
open Midi Midi.Go Midi.Meta

set_option linter.unusedSimpArgs false
set_option linter.unusedVariables false

theorem code_roundtrip_MetaChannel (c : Nat) (cn : Bool) (c0 : Nat) :
    (smf.MetaChannel c >>= fun m => smf.Message.GetMetaChannel m cn c0) = .ok (true, sel cn c0 c) := by
  rw [code_MetaChannel]
  show smf.Message.GetMetaChannel (metaChannel c) cn c0 = _
  rw [code_GetMetaChannel, channel_roundtrip]

theorem code_roundtrip_MetaPort (p : Nat) (pn : Bool) (p0 : Nat) :
    (smf.MetaPort p >>= fun m => smf.Message.GetMetaPort m pn p0) = .ok (true, sel pn p0 p) := by
  rw [code_MetaPort]
  show smf.Message.GetMetaPort (metaPort p) pn p0 = _
  rw [code_GetMetaPort, port_roundtrip]

theorem code_roundtrip_MetaSMPTE (h mi s f ff : Nat) (n1 n2 n3 n4 n5 : Bool) (x1 x2 x3 x4 x5 : Nat) :
    (smf.MetaSMPTE h mi s f ff >>= fun m => smf.Message.GetMetaSMPTEOffsetMsg m n1 x1 n2 x2 n3 x3 n4 x4 n5 x5)
      = .ok (true, sel n1 x1 h, sel n2 x2 mi, sel n3 x3 s, sel n4 x4 f, sel n5 x5 ff) := by
  rw [code_MetaSMPTE]
  show smf.Message.GetMetaSMPTEOffsetMsg (metaSMPTE h mi s f ff) _ _ _ _ _ _ _ _ _ _ = _
  rw [code_GetMetaSMPTE, smpte_roundtrip]

theorem timesig_bytes (n e c q : Nat) (he : e ≤ 7) (hn : n < 256) (hc : c < 256) (hq : q < 256) :
    ∀ x ∈ metaTimeSig n (2 ^ e) c q, x < 256 := by
  rw [(timesig_roundtrip n e c q he).2]
  intro x hx
  simp [metaMessage, Vlq.encode, Vlq.tailLE] at hx
  rcases hx with h | h | h | h | h | h | h <;> (try subst h) <;> (try split) <;> omega

theorem code_roundtrip_MetaTimeSig (n e c q : Nat) (he : e ≤ 7) (hn : n < 256) (hc : c < 256) (hq : q < 256)
    (n1 n2 n3 n4 : Bool) (x1 x2 x3 x4 : Nat) :
    (smf.MetaTimeSig n (2 ^ e) c q >>= fun m => smf.Message.GetMetaTimeSig m n1 x1 n2 x2 n3 x3 n4 x4)
      = .ok (true, sel n1 x1 n, sel n2 x2 (2 ^ e), sel n3 x3 (if c = 0 then 8 else c), sel n4 x4 (if q = 0 then 8 else q)) := by
  have h256 : 2 ^ e < 256 := by
    have : 2 ^ e ≤ 2 ^ 7 := Nat.pow_le_pow_right (by decide) he
    omega
  rw [code_MetaTimeSig n (2 ^ e) c q h256]
  show smf.Message.GetMetaTimeSig (metaTimeSig n (2 ^ e) c q) _ _ _ _ _ _ _ _ = _
  rw [code_GetMetaTimeSig _ (timesig_bytes n e c q he hn hc hq), (timesig_roundtrip n e c q he).1]

theorem code_roundtrip_MetaMeter (n e : Nat) (he : e ≤ 7) (hn : n < 256) (n1 n2 : Bool) (x1 x2 : Nat) :
    (smf.MetaMeter n (2 ^ e) >>= fun m => smf.Message.GetMetaMeter m n1 x1 n2 x2)
      = .ok (true, sel n1 x1 n, sel n2 x2 (2 ^ e)) := by
  have h256 : 2 ^ e < 256 := by
    have : 2 ^ e ≤ 2 ^ 7 := Nat.pow_le_pow_right (by decide) he
    omega
  have hpos : 2 ^ e ≠ 0 := Nat.ne_of_gt (Nat.two_pow_pos e)
  rw [code_MetaMeter n (2 ^ e) h256]
  show smf.Message.GetMetaMeter (metaMeter n (2 ^ e)) _ _ _ _ = _
  have hb : ∀ x ∈ metaMeter n (2 ^ e), x < 256 := by
    have := timesig_bytes n e 8 8 he hn (by decide) (by decide)
    simpa [metaMeter, hpos] using this
  rw [code_GetMetaMeter _ hb, meter_roundtrip n e he]

theorem key_bytes (k n : Nat) (isMajor isFlat : Bool) (hn : n ≤ 7) : ∀ x ∈ metaKey k isMajor n isFlat, x < 256 := by
  intro x hx
  simp [metaKey, metaMessage, Vlq.encode, Vlq.tailLE] at hx
  rcases hx with h | h | h | h | h <;> (try subst h) <;> (try split) <;> omega

theorem code_roundtrip_MetaKey (k n : Nat) (isMajor isFlat : Bool) (hn : n ≤ 7) (n1 n2 n3 n4 : Bool) (k0 u0 : Nat) (j0 f0 : Bool) :
    ∃ pc, Spec.tonic isMajor isFlat n = some pc ∧
      (smf.MetaKey k isMajor n isFlat >>= fun m => smf.Message.GetMetaKeySig m n1 k0 n2 u0 n3 j0 n4 f0)
        = .ok (true, sel n1 k0 pc, sel n2 u0 n, sel n3 j0 isMajor, sel n4 f0 (isFlat && n != 0)) := by
  obtain ⟨pc, hpc, hg⟩ := keysig_roundtrip k n isMajor isFlat hn
  refine ⟨pc, hpc, ?_⟩
  rw [code_MetaKey k isMajor n isFlat (by omega)]
  show smf.Message.GetMetaKeySig (metaKey k isMajor n isFlat) _ _ _ _ _ _ _ _ = _
  rw [code_GetMetaKeySig _ (key_bytes k n isMajor isFlat hn), hg]

theorem seqno_bytes (n : Nat) : ∀ x ∈ metaSequenceNo n, x < 256 := by
  intro x hx
  simp [metaSequenceNo, metaMessage, be16, Vlq.encode, Vlq.tailLE] at hx
  rcases hx with h | h | h | h | h <;> (try subst h) <;> omega

theorem code_roundtrip_MetaSequenceNo (n : Nat) (h : n < 65536) (sn : Bool) (s0 : Nat) :
    (smf.MetaSequenceNo n >>= fun m => smf.Message.GetMetaSeqNumber m sn s0) = .ok (true, sel sn s0 n) := by
  rw [code_MetaSequenceNo]
  show smf.Message.GetMetaSeqNumber (metaSequenceNo n) sn s0 = _
  rw [code_GetMetaSeqNumber _ (seqno_bytes n), seqno_roundtrip n h]

end Midi.C15
