import MidiModel.Smf
/-!
# SMF 1.0 file grammar with encoding choices (independent specification for C02)

A syntax tree of a Standard MIDI File that records every *encoding choice* the format leaves open —
non-minimal variable-length quantities (leading `0x80` bytes), running status (status byte elided
where the previous event of the track was a channel event with the same status), meta events of any
type with any payload, `F0`/`F7` packets with arbitrary payload, alien chunks before, between and after
the track chunks — together with `serialize` (the bytes) and `meaning` (the events an SMF 1.0 decoder must
report). Written from the format description; it shares only the data types with the reader model.
-/
namespace Midi.Gram
open Midi.Smf

/-- a variable-length quantity with `pad` redundant leading `0x80` bytes -/
structure GVlq where
  value : Nat
  pad : Nat
deriving Repr, DecidableEq

def GVlq.bytes (v : GVlq) : Bytes := List.replicate v.pad 0x80 ++ Vlq.encode v.value

/-- SMF 1.0: a quantity is at most 0x0FFFFFFF and its representation at most four bytes -/
def GVlq.Valid (v : GVlq) : Prop := v.value < 268435456 ∧ v.bytes.length ≤ 4

inductive GEv
  | chan (status d1 : Nat) (d2 : Option Nat) (elide : Bool)
  | metaEv (typ : Nat) (len : GVlq) (data : Bytes)
  | sysex (lead : Nat) (len : GVlq) (data : Bytes)
deriving Repr, DecidableEq

structure GEvent where
  delta : GVlq
  ev : GEv
deriving Repr, DecidableEq

structure GTrack where
  events : List GEvent
  eotDelta : GVlq
  eotLenPad : Nat         -- the length byte of the closing `FF 2F 00` may be padded too
deriving Repr, DecidableEq

structure Alien where
  typ : Bytes
  data : Bytes
deriving Repr, DecidableEq

structure GFile where
  format : Nat
  tf : TimeFormat
  groups : List (List Alien × GTrack)     -- every track chunk with the alien chunks in front of it
  trailer : List Alien                    -- alien chunks after the last track
deriving Repr, DecidableEq

/-! ### bytes -/

def GEv.bytes : GEv → Bytes
  | .chan s d1 d2 elide =>
    (if elide then [] else [s]) ++ (match d2 with | none => [d1] | some d => [d1, d])
  | .metaEv t len data => [0xFF, t] ++ len.bytes ++ data
  | .sysex l len data => l :: (len.bytes ++ data)

def GEvent.bytes (e : GEvent) : Bytes := e.delta.bytes ++ e.ev.bytes

def GTrack.body (t : GTrack) : Bytes :=
  (t.events.map GEvent.bytes).flatten ++
    (t.eotDelta.bytes ++ ([0xFF, 0x2F] ++ (List.replicate t.eotLenPad 0x80 ++ [0x00])))

def chunk (typ body : Bytes) : Bytes := typ ++ be32 body.length ++ body

def Alien.bytes (a : Alien) : Bytes := chunk a.typ a.data

def divisionBytes : TimeFormat → Bytes
  | .metric q => be16 q
  | .smpte fps sub => [256 - fps, sub]

def groupBytes (g : List Alien × GTrack) : Bytes :=
  (g.1.map Alien.bytes).flatten ++ chunk MTrk g.2.body

def serialize (g : GFile) : Bytes :=
  MThd ++ be32 6 ++ be16 g.format ++ be16 g.groups.length ++ divisionBytes g.tf ++
    ((g.groups.map groupBytes).flatten ++ (g.trailer.map Alien.bytes).flatten)

/-! ### meaning -/

def GEv.msg : GEv → Msg
  | .chan s d1 none _ => [s, d1]
  | .chan s d1 (some d2) _ => [s, d1, d2]
  | .metaEv t _ data => [0xFF, t] ++ Vlq.encode data.length ++ data
  | .sysex l _ data => l :: data

def GTrack.meaning (t : GTrack) : Track :=
  t.events.map (fun e => ⟨e.delta.value, e.ev.msg⟩) ++ [⟨t.eotDelta.value, EOT⟩]

def meaning (g : GFile) : File := ⟨g.format, g.tf, g.groups.map (fun x => x.2.meaning)⟩

/-! ### validity -/

def oneData (status : Nat) : Bool := status / 16 = 0xC || status / 16 = 0xD

def GEv.Valid : GEv → Prop
  | .chan s d1 d2 _ => 0x80 ≤ s ∧ s ≤ 0xEF ∧ d1 < 128 ∧
      (match d2 with | none => oneData s = true | some d => oneData s = false ∧ d < 128)
  | .metaEv t len data => t < 256 ∧ t ≠ 0x2F ∧ len.Valid ∧ len.value = data.length
  | .sysex l len data => (l = 0xF0 ∨ l = 0xF7) ∧ len.Valid ∧ len.value = data.length

/-- running status after an event: the status of a channel event, nothing after meta / sysex -/
def GEv.statusAfter : GEv → Nat
  | .chan s _ _ _ => s
  | _ => 0

/-- the status byte may be left out only directly after a channel event with the same status -/
def elideOK : Nat → List GEvent → Prop
  | _, [] => True
  | rs, e :: r =>
    (match e.ev with | .chan s _ _ true => rs = s | _ => True) ∧ elideOK e.ev.statusAfter r

def GTrack.Valid (t : GTrack) : Prop :=
  (∀ e ∈ t.events, e.delta.Valid ∧ e.ev.Valid) ∧ elideOK 0 t.events ∧ t.eotDelta.Valid ∧ t.eotLenPad ≤ 3 ∧
  t.body.length < 4294967296

def Alien.Valid (a : Alien) : Prop := a.typ.length = 4 ∧ a.typ ≠ MTrk ∧ a.data.length < 4294967296

def ValidDiv : TimeFormat → Prop
  | .metric q => 1 ≤ q ∧ q ≤ 32767
  | .smpte fps sub => (fps = 24 ∨ fps = 25 ∨ fps = 29 ∨ fps = 30) ∧ sub < 256

structure GFile.Valid (g : GFile) : Prop where
  fmt : g.format ≤ 2
  div : ValidDiv g.tf
  nonempty : g.groups ≠ []
  count : g.groups.length < 65536
  groups : ∀ x ∈ g.groups, (∀ a ∈ x.1, a.Valid) ∧ x.2.Valid

/-! ### executable validity test (used by the driver to label generated trees) -/

def GVlq.validB (v : GVlq) : Bool := v.value < 268435456 && v.bytes.length ≤ 4

def GEv.validB : GEv → Bool
  | .chan s d1 d2 _ => 0x80 ≤ s && s ≤ 0xEF && d1 < 128 &&
      (match d2 with | none => oneData s | some d => !oneData s && d < 128)
  | .metaEv t len data => t < 256 && t != 0x2F && len.validB && len.value == data.length
  | .sysex l len data => (l == 0xF0 || l == 0xF7) && len.validB && len.value == data.length

def elideOKB : Nat → List GEvent → Bool
  | _, [] => true
  | rs, e :: r =>
    (match e.ev with | .chan s _ _ true => rs == s | _ => true) && elideOKB e.ev.statusAfter r

def GTrack.validB (t : GTrack) : Bool :=
  t.events.all (fun e => e.delta.validB && e.ev.validB) && elideOKB 0 t.events && t.eotDelta.validB &&
  t.eotLenPad ≤ 3 && t.body.length < 4294967296

def Alien.validB (a : Alien) : Bool := a.typ.length == 4 && a.typ != MTrk && a.data.length < 4294967296

def validDivB : TimeFormat → Bool
  | .metric q => 1 ≤ q && q ≤ 32767
  | .smpte fps sub => (fps == 24 || fps == 25 || fps == 29 || fps == 30) && sub < 256

def GFile.validB (g : GFile) : Bool :=
  g.format ≤ 2 && validDivB g.tf && !g.groups.isEmpty && g.groups.length < 65536 &&
  g.groups.all (fun x => x.1.all Alien.validB && x.2.validB) &&
  (g.groups.map fun x => x.1).flatten.all (fun a => a.typ.all (· < 256) && a.data.all (· < 256)) &&
  g.trailer.all (fun a => a.typ.length == 4 && a.typ.all (· < 256) && a.data.all (· < 256))

/-! ### line protocol -/

def parseGVlq (s : String) : Option GVlq :=
  match s.splitOn "+" with
  | [p, v] => do pure ⟨← v.toNat?, ← p.toNat?⟩
  | _ => none

/-- event syntax: `c.<pad>+<delta>.<elide>.<hex>` | `m.<pad>+<delta>.<pad>+<len>.<typ>.<hex>` |
    `x.<pad>+<delta>.<pad>+<len>.<lead>.<hex>` -/
def parseGEvent (s : String) : Option GEvent :=
  match s.splitOn "." with
  | ["c", d, el, h] => do
    let δ ← parseGVlq d
    let bs ← unhex h
    match bs with
    | [st, d1] => pure ⟨δ, .chan st d1 none (el == "1")⟩
    | [st, d1, d2] => pure ⟨δ, .chan st d1 (some d2) (el == "1")⟩
    | _ => none
  | ["m", d, l, t, h] => do pure ⟨← parseGVlq d, .metaEv (← t.toNat?) (← parseGVlq l) (← unhex h)⟩
  | ["x", d, l, t, h] => do pure ⟨← parseGVlq d, .sysex (← t.toNat?) (← parseGVlq l) (← unhex h)⟩
  | _ => none

def parseAlien (s : String) : Option Alien :=
  match s.splitOn "." with
  | ["a", t, h] => do pure ⟨← unhex t, ← unhex h⟩
  | _ => none

def parseGTrack (s : String) : Option GTrack := do
  let parts := s.splitOn ","
  let evs := parts.dropLast
  let last ← parts.getLast?
  match last.splitOn "." with
  | ["e", d, lp] => pure ⟨← evs.mapM parseGEvent, ← parseGVlq d, ← lp.toNat?⟩
  | _ => none

def parseGroup (s : String) : Option (List Alien × GTrack) := do
  let parts := s.splitOn ";"
  let t ← parts.getLast?
  pure (← parts.dropLast.mapM parseAlien, ← parseGTrack t)

--@driver gram. Gram.handle
def handle (op : String) (args : List String) : String :=
  match op with
  | "gram.file" =>
    match natField "fmt" args, (field "tf" args).bind parseTF, field "g" args, field "trailer" args with
    | some fm, some tf, some gs, some tr =>
      let groups := (gs.splitOn "|").mapM parseGroup
      let trailer := if tr = "-" then some [] else (tr.splitOn ";").mapM parseAlien
      match groups, trailer with
      | some groups, some trailer =>
        let g : GFile := ⟨fm, tf, groups, trailer⟩
        let bytes := serialize g
        s!"valid={if g.validB then 1 else 0} bytes={hex bytes} meaning=ok:{showFile (meaning g)} r={showRRes (readFrom bytes)}"
      | _, _ => "bad-op"
    | _, _, _, _ => "bad-op"
  | _ => "bad-op"

end Midi.Gram
