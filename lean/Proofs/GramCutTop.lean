import Proofs.GramCutFile
import Proofs.SmfTotal
/-! Truncation of a whole file (C05): groups, file. -/
namespace Midi.Gram
open Midi.Vlq Midi.Smf

/-- every track is an event-for-event prefix of the corresponding original track -/
inductive TracksPrefix : List Track → List Track → Prop
  | nil : TracksPrefix [] []
  | cons {a b : Track} {as bs : List Track} : a <+: b → TracksPrefix as bs → TracksPrefix (a :: as) (b :: bs)

theorem tracksPrefix_refl (M : List Track) : TracksPrefix M M := by
  induction M with
  | nil => exact .nil
  | cons a M ih => exact .cons (List.prefix_refl a) ih

theorem tracksPrefix_empty (r : Nat) (Ms : List Track) (h : Ms.length = r) : TracksPrefix (List.replicate r []) Ms := by
  induction Ms generalizing r with
  | nil => subst h; exact .nil
  | cons a Ms ih =>
    subst h
    simp only [List.length_cons, List.replicate_succ]
    exact .cons (List.nil_prefix) (ih _ rfl)

theorem tracksPrefix_app (D : List Track) (x y : Track) (X Y : List Track) (hxy : x <+: y) (hXY : TracksPrefix X Y) :
    TracksPrefix (D ++ x :: X) (D ++ y :: Y) := by
  induction D with
  | nil => exact .cons hxy hXY
  | cons d D ih => exact .cons (List.prefix_refl d) ih

/-- how the event loop may end on a cut file: tracks still missing, an error that `ReadFrom` reports, or
    every track an event prefix of the original -/
def GoodEnd (M : List Track) (r : RState × RErr) : Prop :=
  r.1.missing = true ∨ (r.2 ≠ .eof ∧ r.2 ≠ .finished) ∨ TracksPrefix r.1.tracks M

theorem take_map_prefix (evs : List GEvent) (k : Nat) (δe : Nat) :
    (evs.take k).map evM <+: (evs.map (fun e => (⟨e.delta.value, e.ev.msg⟩ : Event)) ++ [⟨δe, EOT⟩]) := by
  have h1 : (evs.take k).map evM <+: evs.map evM := by
    exact List.IsPrefix.map _ (List.take_prefix k evs)
  exact List.IsPrefix.trans h1 (List.prefix_append _ _)

theorem readLoop_chunkErr (f n k rr : Nat) (T : List Track) (bs : Bytes) (e : RErr)
    (h : chunkLoop (bs.length + 1) k bs = .error e) :
    readLoop (f+1) ⟨n, k, true, rr, false, T⟩ bs
      = (⟨n, k, true, rr, false, T⟩, if e = .eof ∧ decide (n > k) = true then .missing else e) := by
  unfold readLoop
  simp [h, RState.missing]

theorem groupBytes_len (g : List Alien × GTrack) :
    (groupBytes g).length = ((g.1.map Alien.bytes).flatten).length + 8 + (trackBody g.2.events g.2.eotDelta g.2.eotLenPad).length := by
  simp [groupBytes_eq, trackBody, MTrk, be32, List.length_append]; omega

/-- a cut inside one group (alien chunks + track chunk) -/
theorem readLoop_cut_group (g : List Alien × GTrack) (hg : (∀ a ∈ g.1, a.Valid) ∧ g.2.Valid) (D Ms : List Track) (R : Bytes)
    (fuel m n : Nat) (hn : n = D.length + 1 + Ms.length) (hf : m + 2 ≤ fuel) (hm : m < (groupBytes g).length) :
    GoodEnd (D ++ g.2.meaning :: Ms)
      (readLoop fuel ⟨n, D.length, true, 0, false, D ++ [] :: List.replicate Ms.length []⟩ ((groupBytes g ++ R).take m)) := by
  obtain ⟨hal, hev, hel, hδ, _, _⟩ := hg
  obtain ⟨f, rfl⟩ : ∃ f, fuel = f + 1 := ⟨fuel - 1, by omega⟩
  rw [List.take_append_of_le_length (by omega)]
  have hgb : groupBytes g = (g.1.map Alien.bytes).flatten ++ (MTrk ++ (be32 g.2.body.length ++ trackBody g.2.events g.2.eotDelta g.2.eotLenPad)) := by
    simp [groupBytes_eq, trackBody, List.append_assoc]
  have hlen := groupBytes_len g
  by_cases hc : m < ((g.1.map Alien.bytes).flatten).length + 8
  · -- cut inside the alien chunks or the chunk header: "missing"
    left
    rw [hgb]
    have hcl := chunkLoop_cut g.1 hal D.length g.2.body.length (trackBody g.2.events g.2.eotDelta g.2.eotLenPad)
      ((((g.1.map Alien.bytes).flatten ++ (MTrk ++ (be32 g.2.body.length ++ trackBody g.2.events g.2.eotDelta g.2.eotLenPad))).take m).length + 1)
      m (by
        have : m ≤ ((g.1.map Alien.bytes).flatten ++ (MTrk ++ (be32 g.2.body.length ++ trackBody g.2.events g.2.eotDelta g.2.eotLenPad))).length := by
          rw [← hgb]; omega
        simp only [List.length_take]; omega) hc
    have hmiss : decide (n > D.length) = true := by simp [hn]; omega
    rcases hcl with h | h <;> (rw [readLoop_chunkErr _ _ _ _ _ _ _ h]; simp [RState.missing, hn]; omega)
  · -- the chunk header is complete, the cut lies in the track body
    rw [hgb, take_append_ge _ _ _ (by omega)]
    have e8 : (MTrk ++ (be32 g.2.body.length ++ trackBody g.2.events g.2.eotDelta g.2.eotLenPad)).take (m - ((g.1.map Alien.bytes).flatten).length)
        = MTrk ++ be32 g.2.body.length ++ (trackBody g.2.events g.2.eotDelta g.2.eotLenPad).take (m - ((g.1.map Alien.bytes).flatten).length - 8) := by
      rw [take_app4 MTrk _ _ rfl (by omega), take_app4 (be32 _) _ _ (be32_len _) (by omega), List.append_assoc]
      congr 3
    rw [e8]
    have hc2 := readLoop_gchunk f n D.length 0 g.2.body.length (D ++ [] :: List.replicate Ms.length []) g.1 hal
      ((trackBody g.2.events g.2.eotDelta g.2.eotLenPad).take (m - ((g.1.map Alien.bytes).flatten).length - 8))
    rw [hc2]
    have hct := readLoop_cut_track g.2.events g.2.eotDelta g.2.eotLenPad n D (List.replicate Ms.length []) hδ hev [] 0 (f+1)
      (m - ((g.1.map Alien.bytes).flatten).length - 8) (by simp [Track.isClosed]) hel (by omega) (by omega)
    rcases hct with h | h | ⟨h1, h2, h3, k, hk, h4⟩
    · right; left; rw [h]; exact ⟨by simp, by simp⟩
    · right; left; rw [h]; exact ⟨by simp, by simp⟩
    · right; right
      rw [h4]
      apply tracksPrefix_app
      · simpa [GTrack.meaning] using take_map_prefix g.2.events k g.2.eotDelta.value
      · exact tracksPrefix_empty _ _ rfl

theorem groupBytes_ge (g : List Alien × GTrack) : g.2.events.length + 1 + 8 ≤ (groupBytes g).length := by
  have hev : g.2.events.length ≤ ((g.2.events.map GEvent.bytes).flatten).length := by
    generalize g.2.events = evs
    induction evs with
    | nil => simp
    | cons e evs ihe =>
      have := event_bytes_pos e
      simp only [List.map_cons, List.flatten_cons, List.length_append, List.length_cons]
      omega
  rw [groupBytes_len]
  simp only [trackBody, List.length_append, eotBytes, List.length_cons, List.length_nil, List.length_replicate]
  omega

/-- any prefix of the chunk stream of a valid file -/
theorem readLoop_cut_groups (tail : Bytes) :
    ∀ (gs : List (List Alien × GTrack)) (D : List Track) (fuel m n : Nat), gs ≠ [] →
    (∀ x ∈ gs, (∀ a ∈ x.1, a.Valid) ∧ x.2.Valid) → m + 2 ≤ fuel → n = D.length + gs.length →
    GoodEnd (D ++ gs.map (fun x => x.2.meaning))
      (readLoop fuel ⟨n, D.length, true, 0, false, D ++ List.replicate gs.length []⟩
        (((gs.map groupBytes).flatten ++ tail).take m)) := by
  intro gs
  induction gs with
  | nil => intro _ _ _ _ h; exact absurd rfl h
  | cons g gs ih =>
    intro D fuel m n _ hok hf hn
    have hg := hok g (by simp)
    have hok' : ∀ x ∈ gs, (∀ a ∈ x.1, a.Valid) ∧ x.2.Valid := fun x hx => hok x (by simp [hx])
    simp only [List.map_cons, List.flatten_cons, List.append_assoc, List.length_cons, List.replicate_succ]
    by_cases hc : m < (groupBytes g).length
    · have := readLoop_cut_group g hg D (gs.map (fun x => x.2.meaning)) ((gs.map groupBytes).flatten ++ tail) fuel m n
        (by simp [hn]; omega) hf hc
      simpa using this
    · -- the whole group is there
      rw [take_append_ge _ _ _ (by omega)]
      obtain ⟨hal, hev, hel, hδ, _, _⟩ := hg
      have hge := groupBytes_ge g
      obtain ⟨f, rfl⟩ : ∃ f, fuel = f + 1 := ⟨fuel - 1, by omega⟩
      generalize hR : ((gs.map groupBytes).flatten ++ tail).take (m - (groupBytes g).length) = R
      have hgb : groupBytes g ++ R = (g.1.map Alien.bytes).flatten ++ (MTrk ++ be32 g.2.body.length ++
          ((g.2.events.map GEvent.bytes).flatten ++ (eotBytes g.2.eotDelta g.2.eotLenPad ++ R))) := by
        simp [groupBytes_eq, List.append_assoc]
      rw [hgb]
      have hc2 := readLoop_gchunk f n D.length 0 g.2.body.length (D ++ [] :: List.replicate gs.length []) g.1 hal
        ((g.2.events.map GEvent.bytes).flatten ++ (eotBytes g.2.eotDelta g.2.eotLenPad ++ R))
      have ht := readLoop_gtrack g.2.events g.2.eotDelta g.2.eotLenPad n D (List.replicate gs.length []) R hδ hev [] 0 (f+1)
        (by simp [Track.isClosed]) hel (by omega)
      rw [hc2, ht]
      cases gs with
      | nil =>
        have e1 : (D.length + 1 == n) = true := by simp [hn]
        have e2 : f + 1 - (g.2.events.length + 1) = (f - (g.2.events.length + 1)) + 1 := by omega
        rw [e1, e2]
        right; right
        simp only [readLoop_done, Bool.not_true, List.replicate_zero, List.map_nil, List.nil_append]
        simpa [GTrack.meaning] using tracksPrefix_refl (D ++ [g.2.meaning])
      | cons g2 gs2 =>
        have e1 : (D.length + 1 == n) = false := by simp [hn]
        have := ih (D ++ [g.2.meaning]) (f + 1 - (g.2.events.length + 1)) (m - (groupBytes g).length) n (by simp) hok'
          (by omega) (by simp [hn]; omega)
        have l1 : (D ++ [g.2.meaning]).length = D.length + 1 := by simp
        have l2 : ∀ X : List Track, (D ++ [g.2.meaning]) ++ X = D ++ g.2.meaning :: X := by simp
        rw [l1, l2, l2, hR] at this
        rw [e1]
        simpa [GTrack.meaning] using this

end Midi.Gram

namespace Midi.Gram
open Midi.Vlq Midi.Smf

theorem readFrom_short (bs : Bytes) (h : bs.length < 14) : ∃ e, readFrom bs = .error e := by
  unfold readFrom
  cases h1 : readN 4 bs with
  | error e => exact ⟨e, rfl⟩
  | ok x1 =>
  obtain ⟨typ, bs1⟩ := x1
  have l1 := readN_rest _ _ _ _ h1
  simp only
  cases h2 : readN 4 bs1 with
  | error e => exact ⟨e, rfl⟩
  | ok x2 =>
  obtain ⟨l4, bs2⟩ := x2
  have l2 := readN_rest _ _ _ _ h2
  simp only
  split
  · exact ⟨_, rfl⟩
  · cases h3 : readN 2 bs2 with
    | error e => exact ⟨e, rfl⟩
    | ok x3 =>
    obtain ⟨fm, bs3⟩ := x3
    have l3 := readN_rest _ _ _ _ h3
    simp only
    split
    · exact ⟨_, rfl⟩
    · cases h4 : readN 2 bs3 with
      | error e => exact ⟨e, rfl⟩
      | ok x4 =>
      obtain ⟨nt, bs4⟩ := x4
      have l4' := readN_rest _ _ _ _ h4
      simp only
      cases h5 : readN 2 bs4 with
      | error e => exact ⟨e, rfl⟩
      | ok x5 =>
      obtain ⟨dv, bs5⟩ := x5
      have l5 := readN_rest _ _ _ _ h5
      omega

def headerBytes (g : GFile) : Bytes :=
  MThd ++ be32 6 ++ be16 g.format ++ be16 g.groups.length ++ divisionBytes g.tf

theorem headerBytes_len (g : GFile) (h : ValidDiv g.tf) : (headerBytes g).length = 14 := by
  obtain ⟨a, b, hab, _⟩ := parseDiv g.tf h
  simp [headerBytes, MThd, be32, be16, hab]

/-- C05: every prefix of a valid file reads as an error or as a value whose tracks are event-for-event
    prefixes of the original tracks (same format, same division, same number of tracks) -/
theorem readFrom_prefix (g : GFile) (h : g.Valid) (k : Nat) :
    match readFrom ((serialize g).take k) with
    | .ok f => f.format = g.format ∧ f.tf = g.tf ∧ TracksPrefix f.tracks (meaning g).tracks
    | .error _ => True := by
  have hH := headerBytes_len g h.div
  have hser : serialize g = headerBytes g ++ ((g.groups.map groupBytes).flatten ++ (g.trailer.map Alien.bytes).flatten) := by
    simp [serialize, headerBytes, List.append_assoc]
  by_cases hk : k < 14
  · have : ((serialize g).take k).length < 14 := by simp; omega
    obtain ⟨e, he⟩ := readFrom_short _ this
    rw [he]; trivial
  · rw [hser, take_append_ge _ _ _ (by omega), hH]
    generalize hS : (g.groups.map groupBytes).flatten ++ (g.trailer.map Alien.bytes).flatten = S
    -- normalise the cut to the length of the stream
    have hmin : S.take (k - 14) = S.take (min (k - 14) S.length) := by
      by_cases hle : k - 14 ≤ S.length
      · rw [Nat.min_eq_left hle]
      · rw [Nat.min_eq_right (by omega), List.take_of_length_le (by omega), List.take_of_length_le (Nat.le_refl _)]
    rw [hmin]
    generalize hm : min (k - 14) S.length = m
    have hmS : m ≤ S.length := by omega
    have hlt : (S.take m).length = m := by simp; omega
    obtain ⟨a, b, hab, hp⟩ := parseDiv g.tf h.div
    have hl := readLoop_cut_groups ((g.trailer.map Alien.bytes).flatten) g.groups [] ((S.take m).length + 2) m g.groups.length
      h.nonempty h.groups (by omega) (by simp)
    rw [hS] at hl
    simp only [List.length_nil, List.nil_append] at hl
    have e1 : g.format / 256 % 256 * 256 + g.format % 256 = g.format := be16_dec g.format (by have := h.fmt; omega)
    have e2 : g.groups.length / 256 % 256 * 256 + g.groups.length % 256 = g.groups.length := be16_dec _ h.count
    have e3 : ¬ (2 < g.format) := by have := h.fmt; omega
    simp only [headerBytes, MThd, be32, be16, hab, List.cons_append, List.nil_append, List.append_assoc,
      readFrom, readN4, readN2, val16, tfOf2, e1, e2, hp, ne_eq, not_true_eq_false, if_false, gt_iff_lt, e3]
    generalize readLoop ((S.take m).length + 2) ⟨g.groups.length, 0, true, 0, false, List.replicate g.groups.length []⟩ (S.take m) = r at hl
    obtain ⟨st, e⟩ := r
    simp only
    rcases hl with hmiss | ⟨hne1, hne2⟩ | hpre
    · simp only at hmiss; simp [hmiss]
    · simp only at hne1 hne2
      by_cases hmiss : st.missing = true
      · simp [hmiss]
      · simp [hmiss, hne1, hne2]
    · simp only at hpre
      by_cases hmiss : st.missing = true
      · simp [hmiss]
      · simp only [hmiss, Bool.false_eq_true, if_false]
        by_cases hc : e = .finished ∨ e = .eof
        · simp only [hc, if_true]
          exact ⟨trivial, trivial, by simpa [meaning] using hpre⟩
        · simp only [hc, if_false]

end Midi.Gram
