import MidiModel.Live
import Proofs.MsgCtor
/-!
# Live decoder (`MidiModel/Live.lean`): invariant, well-formed frames, what `retype` does to them

* `step_rt … step_sysc`: `step` by decoder mode (the "new status abandons" pre-step resolved)
* `Inv c s`: the invariant of `drivers.Reader` (all reachable states satisfy it: `init_inv`, `stepTok_inv`,
  `feed_inv`)
* `WfFrame c f`: the raw frames the reader hands to the driver callback
* `retype_rt … retype_sysex`, `retype_wf`: `retype` (the `onMsg` closure of `midi.ListenTo`) cuts a well-formed
  frame down to its wire encoding, never panics on it, keeps its first byte
* `WellFormedMsg c m`: a delivered `midi.Message`
-/
namespace Midi.Live
open Midi Midi.Msg

/-! ## `step` by mode -/

theorem step_rt (c : Cfg) (s : St) (b : Nat) (h : 0xF8 ≤ b) : step c s b = (s, [([b], s.ts)]) := by
  simp only [step, h, if_true]

theorem step_clean (c : Cfg) (s : St) (b : Nat) (hb : b < 0xF8) (hm : s.mode = .clean) :
    step c s b = cleanState s b := by
  have h : ¬ 0xF8 ≤ b := by omega
  simp [step, h, hm]

theorem step_sysex (c : Cfg) (s : St) (b : Nat) (hb : b < 0xF8) (hm : s.mode = .sysex) :
    step c s b = sysexStep c s b := by
  have h : ¬ 0xF8 ≤ b := by omega
  simp [step, h, hm]

theorem step_unknown (c : Cfg) (s : St) (b : Nat) (hb : b < 0xF8) (hm : s.mode = .unknown) :
    step c s b = if 0x80 ≤ b then cleanState { s with mode := .clean } b else (s, []) := by
  have h : ¬ 0xF8 ≤ b := by omega
  simp [step, h, hm]

theorem step_chan (c : Cfg) (s : St) (b : Nat) (hb : b < 0xF8) (hm : s.mode = .chan) :
    step c s b = if 0x80 ≤ b then cleanState { s with pend := none, mode := .clean } b else withinChan s b := by
  have h : ¬ 0xF8 ≤ b := by omega
  by_cases h8 : 0x80 ≤ b <;> simp [step, h, hm, h8]

theorem step_sysc (c : Cfg) (s : St) (b : Nat) (hb : b < 0xF8) (hm : s.mode = .sysc) :
    step c s b = if 0x80 ≤ b then cleanState { s with pend := none, mode := .clean } b else syscStep s b := by
  have h : ¬ 0xF8 ≤ b := by omega
  by_cases h8 : 0x80 ≤ b <;> simp [step, h, hm, h8]

/-! ## the invariant -/

theorem bufSize_pos (c : Cfg) : 1 ≤ c.bufSize := by
  unfold Cfg.bufSize; split <;> omega

/-- Invariant of the decoder state under configuration `c` (only the sysex-buffer bound depends on `c`). -/
structure Inv (c : Cfg) (s : St) : Prop where
  /-- running status is a channel status byte and `typ` is its high nibble -/
  typ_of_status : s.status ≠ 0 → s.typ = s.status / 16 ∧ 0x80 ≤ s.status ∧ s.status ≤ 0xEF
  /-- within a channel message there is a status -/
  chan_status : s.mode = .chan → s.status ≠ 0
  /-- within a system common message `typ` is F1, F2 or F3 -/
  sysc_typ : s.mode = .sysc → s.typ = 0xF1 ∨ s.typ = 0xF2 ∨ s.typ = 0xF3
  /-- the pending first data byte is a data byte -/
  pend_data : ∀ x, s.pend = some x → x < 0x80
  /-- a data byte is pending only inside a channel / system common message -/
  pend_mode : s.pend ≠ none → s.mode = .chan ∨ s.mode = .sysc
  /-- the sysex buffer is dropped (`[]`) or `F0 :: data`, within the configured size -/
  sx_sysex : s.mode = .sysex →
    s.sx = [] ∨ ∃ d, s.sx = 0xF0 :: d ∧ (∀ x ∈ d, x < 0x80) ∧ s.sx.length ≤ c.bufSize
  /-- no sysex buffer outside sysex mode -/
  sx_other : s.mode ≠ .sysex → s.sx = []
  no_panic : s.panicked = false

/-- raw frames of the reader: `[real-time]`, a fixed three-byte frame `[status, d1, d2]` (channel voice, F1, F2,
    F3, F6, lone F7), or a complete sysex (only with the sysex option, within the buffer size) -/
def WfFrame (c : Cfg) (f : Frame) : Prop :=
  (∃ b, f.1 = [b] ∧ 0xF8 ≤ b) ∨
  (∃ st d1 d2, f.1 = [st, d1, d2] ∧ d1 < 0x80 ∧ d2 < 0x80 ∧
      ((0x80 ≤ st ∧ st ≤ 0xEF) ∨ st = 0xF1 ∨ st = 0xF2 ∨ st = 0xF3 ∨ st = 0xF6 ∨ st = 0xF7)) ∨
  (c.sysex = true ∧ ∃ d, f.1 = 0xF0 :: (d ++ [0xF7]) ∧ (∀ x ∈ d, x < 0x80) ∧ f.1.length ≤ c.bufSize)

theorem init_inv (c : Cfg) : Inv c init :=
  ⟨by simp [init], by simp [init], by simp [init], by simp [init], by simp [init], by simp [init],
   by simp [init], rfl⟩

theorem withinChan_inv (c : Cfg) (s : St) (b : Nat) (h : Inv c s) (hs : s.status ≠ 0) (hm : s.mode = .chan)
    (hb : b < 0x80) :
    Inv c (withinChan s b).1 ∧ ∀ f ∈ (withinChan s b).2, WfFrame c f := by
  obtain ⟨h1, h2, h3, h4, h5, h6, h7, h8⟩ := h
  obtain ⟨ht, hlo, hhi⟩ := h1 hs
  have hx : s.sx = [] := h7 (by rw [hm]; simp)
  have hty : s.typ = 8 ∨ s.typ = 9 ∨ s.typ = 10 ∨ s.typ = 11 ∨ s.typ = 12 ∨ s.typ = 13 ∨ s.typ = 14 := by omega
  unfold withinChan
  split
  · refine ⟨⟨h1, by simp, by simp, by simp, by simp, by simp, fun _ => hx, h8⟩, ?_⟩
    intro f hf; simp at hf; subst hf
    exact Or.inr (Or.inl ⟨s.status, b, 0, rfl, hb, by omega, Or.inl ⟨hlo, hhi⟩⟩)
  · split
    · split
      · next x hx' =>
        refine ⟨⟨h1, by simp, by simp, by simp, by simp, by simp, fun _ => hx, h8⟩, ?_⟩
        intro f hf; simp at hf; subst hf
        exact Or.inr (Or.inl ⟨s.status, x, b, rfl, h4 x hx', hb, Or.inl ⟨hlo, hhi⟩⟩)
      · refine ⟨⟨h1, fun _ => hs, by simp [hm], ?_, fun _ => Or.inl hm, by simp [hm], fun _ => hx, h8⟩, by simp⟩
        intro x hx'; simp at hx'; omega
    · omega

theorem cleanState_inv (c : Cfg) (s : St) (b : Nat) (h : Inv c s) (hm : s.mode = .clean) (hp : s.pend = none)
    (hb : b < 0xF8) :
    Inv c (cleanState s b).1 ∧ ∀ f ∈ (cleanState s b).2, WfFrame c f := by
  have hx : s.sx = [] := h.sx_other (by rw [hm]; simp)
  have hw := fun (hs : s.status ≠ 0) (hb : b < 0x80) =>
    withinChan_inv c { s with mode := .chan } b
      ⟨h.1, fun _ => hs, by simp, h.4, fun _ => Or.inl rfl, by simp, fun _ => hx, h.8⟩ hs rfl hb
  obtain ⟨h1, h2, h3, h4, h5, h6, h7, h8⟩ := h
  have hbs := bufSize_pos c
  unfold cleanState
  split
  · exact ⟨⟨by simp, by simp, by simp, h4, by simp [hp],
      fun _ => Or.inr ⟨[], rfl, by simp, by simpa using hbs⟩, by simp, h8⟩, by simp⟩
  · split
    · refine ⟨⟨by simp, by simp [hm], by simp [hm], h4, by simp [hp], by simp [hm], by simp, h8⟩, ?_⟩
      intro f hf; simp at hf; subst hf
      exact Or.inr (Or.inl ⟨0xF7, 0, 0, rfl, by omega, by omega, by simp⟩)
    · split
      · split
        · next hb3 => exact ⟨⟨by simp, by simp, fun _ => hb3, by simp, by simp, by simp, fun _ => hx, h8⟩, by simp⟩
        · split
          · next hb6 =>
            refine ⟨⟨by simp, by simp [hm], by simp [hm], by simp, by simp, by simp [hm], fun _ => hx, h8⟩, ?_⟩
            intro f hf; simp at hf; subst hf
            exact Or.inr (Or.inl ⟨0xF6, 0, 0, rfl, by omega, by omega, by simp⟩)
          · exact ⟨⟨by simp, by simp, by simp, by simp, by simp, by simp, fun _ => hx, h8⟩, by simp⟩
      · split
        · next hch =>
          exact ⟨⟨fun _ => ⟨rfl, hch.1, hch.2⟩, fun _ => by simp; omega, by simp, by simp, by simp, by simp,
            fun _ => hx, h8⟩, by simp⟩
        · split
          · next hs => exact hw hs (by omega)
          · exact ⟨⟨h1, h2, h3, h4, h5, h6, h7, h8⟩, by simp⟩

theorem sysexStep_inv (c : Cfg) (s : St) (b : Nat) (h : Inv c s) (hm : s.mode = .sysex) (hb : b < 0xF8) :
    Inv c (sysexStep c s b).1 ∧ ∀ f ∈ (sysexStep c s b).2, WfFrame c f := by
  have hp : s.pend = none := by
    cases hpe : s.pend with
    | none => rfl
    | some x => have := h.pend_mode (by simp [hpe]); simp [hm] at this
  obtain ⟨h1, h2, h3, h4, h5, h6, h7, h8⟩ := h
  have hbs := bufSize_pos c
  unfold sysexStep
  split
  · exact ⟨⟨by simp, by simp [hm], by simp [hm], h4, by simp [hp],
      fun _ => Or.inr ⟨[], rfl, by simp, by simpa using hbs⟩, by simp [hm], h8⟩, by simp⟩
  · split
    · refine ⟨⟨h1, by simp, by simp, h4, by simp [hp], by simp, by simp, h8⟩, ?_⟩
      intro f hf
      split at hf
      · next hcond =>
        simp at hf; subst hf
        obtain ⟨hc, hne, hlen⟩ := hcond
        rcases h6 hm with he | ⟨d, hd, hdd, _⟩
        · exact absurd he hne
        · refine Or.inr (Or.inr ⟨hc, d, by simp [hd], hdd, ?_⟩)
          simp only [List.length_append, List.length_cons, List.length_nil]
          omega
      · simp at hf
    · split
      · exact cleanState_inv c _ b ⟨h1, by simp, by simp, h4, by simp [hp], by simp, by simp, h8⟩ rfl hp hb
      · split
        · next hcond =>
          split
          · next hlen =>
            refine ⟨⟨h1, h2, h3, h4, h5, fun _ => ?_, by simp [hm], h8⟩, by simp⟩
            rcases h6 hm with he | ⟨d, hd, hdd, _⟩
            · exact absurd he hcond.2
            · refine Or.inr ⟨d ++ [b], by simp [hd], ?_, ?_⟩
              · intro x hx; simp at hx; rcases hx with hx | rfl
                · exact hdd x hx
                · omega
              · simp only [List.length_append, List.length_cons, List.length_nil]
                omega
          · exact ⟨⟨h1, h2, h3, h4, h5, fun _ => Or.inl rfl, by simp [hm], h8⟩, by simp⟩
        · exact ⟨⟨h1, h2, h3, h4, h5, h6, h7, h8⟩, by simp⟩

theorem syscStep_inv (c : Cfg) (s : St) (b : Nat) (h : Inv c s) (hm : s.mode = .sysc) (hb : b < 0x80) :
    Inv c (syscStep s b).1 ∧ ∀ f ∈ (syscStep s b).2, WfFrame c f := by
  obtain ⟨h1, h2, h3, h4, h5, h6, h7, h8⟩ := h
  have hty := h3 hm
  have hx : s.sx = [] := h7 (by rw [hm]; simp)
  unfold syscStep
  split
  · next hf13 =>
    refine ⟨⟨h1, by simp, by simp, by simp, by simp, by simp, fun _ => hx, h8⟩, ?_⟩
    intro f hf; simp at hf; subst hf
    exact Or.inr (Or.inl ⟨s.typ, b, 0, rfl, hb, by omega, by omega⟩)
  · split
    · split
      · next x hx' =>
        refine ⟨⟨h1, by simp, by simp, by simp, by simp, by simp, fun _ => hx, h8⟩, ?_⟩
        intro f hf; simp at hf; subst hf
        exact Or.inr (Or.inl ⟨0xF2, x, b, rfl, h4 x hx', hb, by simp⟩)
      · refine ⟨⟨h1, h2, h3, ?_, fun _ => Or.inr hm, h6, h7, h8⟩, by simp⟩
        intro x hx'; simp at hx'; omega
    · exact ⟨⟨h1, h2, h3, h4, h5, h6, h7, h8⟩, by simp⟩

/-- the state after the "new status abandons" pre-step of `eachByte` -/
theorem abandon_inv (c : Cfg) (s : St) (h : Inv c s) (hm : s.mode ≠ .sysex) :
    Inv c { s with pend := none, mode := .clean } :=
  ⟨h.1, by simp, by simp, by simp, by simp, by simp, fun _ => h.sx_other hm, h.8⟩

theorem pend_none_of (c : Cfg) (s : St) (h : Inv c s) (hc : s.mode ≠ .chan) (hs : s.mode ≠ .sysc) : s.pend = none := by
  cases hpe : s.pend with
  | none => rfl
  | some x => rcases h.pend_mode (by simp [hpe]) with h | h <;> contradiction

/-- one byte: the invariant is preserved and every frame handed on is well formed -/
theorem step_inv (c : Cfg) (s : St) (b : Nat) (h : Inv c s) :
    Inv c (step c s b).1 ∧ ∀ f ∈ (step c s b).2, WfFrame c f := by
  by_cases hrt : 0xF8 ≤ b
  · rw [step_rt c s b hrt]
    refine ⟨h, ?_⟩
    intro f hf; simp at hf; subst hf
    exact Or.inl ⟨b, rfl, hrt⟩
  · have hb : b < 0xF8 := by omega
    cases hm : s.mode with
    | sysex => rw [step_sysex c s b hb hm]; exact sysexStep_inv c s b h hm hb
    | clean =>
      rw [step_clean c s b hb hm]
      exact cleanState_inv c s b h hm (pend_none_of c s h (by simp [hm]) (by simp [hm])) hb
    | unknown =>
      rw [step_unknown c s b hb hm]
      have hp := pend_none_of c s h (by simp [hm]) (by simp [hm])
      split
      · exact cleanState_inv c _ b
          ⟨h.1, by simp, by simp, h.4, by simp [hp], by simp, fun _ => h.sx_other (by simp [hm]), h.8⟩ rfl hp hb
      · exact ⟨h, by simp⟩
    | sysc =>
      rw [step_sysc c s b hb hm]
      split
      · exact cleanState_inv c _ b (abandon_inv c s h (by simp [hm])) rfl rfl hb
      · exact syscStep_inv c s b h hm (by omega)
    | chan =>
      rw [step_chan c s b hb hm]
      split
      · exact cleanState_inv c _ b (abandon_inv c s h (by simp [hm])) rfl rfl hb
      · exact withinChan_inv c s b h (h.chan_status hm) hm (by omega)

theorem stepTok_inv (c : Cfg) (s : St) (t : Tok) (h : Inv c s) :
    Inv c (stepTok c s t).1 ∧ ∀ f ∈ (stepTok c s t).2, WfFrame c f := by
  cases t with
  | byte b => exact step_inv c s b h
  | tick d => exact ⟨⟨h.1, h.2, h.3, h.4, h.5, h.6, h.7, h.8⟩, by simp [stepTok]⟩

theorem feed_inv (c : Cfg) (toks : List Tok) (s : St) (h : Inv c s) :
    Inv c (feed c s toks).1 ∧ ∀ f ∈ (feed c s toks).2, WfFrame c f := by
  induction toks generalizing s with
  | nil => exact ⟨h, by simp [feed]⟩
  | cons t ts ih =>
    have h1 := stepTok_inv c s t h
    have h2 := ih _ h1.1
    simp only [feed]
    refine ⟨h2.1, ?_⟩
    intro f hf
    rcases List.mem_append.mp hf with hf | hf
    · exact h1.2 f hf
    · exact h2.2 f hf

theorem feed_append (c : Cfg) (s : St) (xs ys : List Tok) :
    feed c s (xs ++ ys) = ((feed c (feed c s xs).1 ys).1, (feed c s xs).2 ++ (feed c (feed c s xs).1 ys).2) := by
  induction xs generalizing s with
  | nil => simp [feed]
  | cons t ts ih => simp only [List.cons_append, feed, ih, List.append_assoc]

/-! ## `retype` on the frames of the reader -/

theorem retype_rt (b : Nat) (r : Bytes) (h : 0xF8 ≤ b) : retype (b :: r) = some (some [b]) := by
  simp only [retype, h, if_true]

theorem retype_F7 (r : Bytes) : retype (0xF7 :: r) = none := by simp [retype]

theorem retype_sysex (r : Bytes) : retype (0xF0 :: r) = some (some (0xF0 :: r)) := by simp [retype]

theorem retype_F6 (r : Bytes) : retype (0xF6 :: r) = some (some [0xF6]) := by simp [retype, tune]

theorem retype_F1 (d : Nat) (r : Bytes) (hd : d < 0x80) : retype (0xF1 :: d :: r) = some (some [0xF1, d]) := by
  simp only [retype, mtc_eq]
  simp; omega

theorem retype_F3 (d : Nat) (r : Bytes) (hd : d < 0x80) : retype (0xF3 :: d :: r) = some (some [0xF3, d]) := by
  simp only [retype, songSelect_eq]
  simp; omega

theorem retype_F2 (d1 d2 : Nat) (r : Bytes) (h1 : d1 < 0x80) (h2 : d2 < 0x80) :
    retype (0xF2 :: d1 :: d2 :: r) = some (some [0xF2, d1, d2]) := by
  simp only [retype, spp_eq, parsePitchWheelVals_eq]
  simp; omega

/-- channel voice frames: the constructor called by `_channelMessage` rebuilds exactly the wire bytes
    (two bytes for program change / channel pressure, whose frame carries a padding 0) -/
theorem retype_chan (st d1 d2 : Nat) (r : Bytes) (hlo : 0x80 ≤ st) (hhi : st ≤ 0xEF) (h1 : d1 < 0x80) (h2 : d2 < 0x80) :
    retype (st :: d1 :: d2 :: r) =
      some (some (if 0xC0 ≤ st ∧ st ≤ 0xDF then [st, d1] else [st, d1, d2])) := by
  have hps := parseStatus_eq st (by omega)
  have e1 : ¬ 0xF8 ≤ st := by omega
  have e2 : ¬ (0xF0 < st ∧ st < 0xF7) := by omega
  have e3 : ¬ st = 0xF7 := by omega
  have e4 : ¬ st = 0xF0 := by omega
  have e5 : 0x80 ≤ st ∧ st ≤ 0xEF := ⟨hlo, hhi⟩
  simp only [retype, if_neg e1, if_neg e2, if_neg e3, if_neg e4, if_pos e5, hps]
  have hk : st / 16 = 8 ∨ st / 16 = 9 ∨ st / 16 = 10 ∨ st / 16 = 11 ∨ st / 16 = 12 ∨ st / 16 = 13 ∨ st / 16 = 14 := by
    omega
  rcases hk with hk | hk | hk | hk | hk | hk | hk
  · have hc : ¬ (0xC0 ≤ st ∧ st ≤ 0xDF) := by omega
    simp only [hk, if_neg hc, noteOffVelocity_eq]; simp; omega
  · have hc : ¬ (0xC0 ≤ st ∧ st ≤ 0xDF) := by omega
    simp only [hk, if_neg hc, noteOn_eq]; simp; omega
  · have hc : ¬ (0xC0 ≤ st ∧ st ≤ 0xDF) := by omega
    simp only [hk, if_neg hc, polyAfterTouch_eq]; simp; omega
  · have hc : ¬ (0xC0 ≤ st ∧ st ≤ 0xDF) := by omega
    simp only [hk, if_neg hc, controlChange_eq]; simp; omega
  · have hc : 0xC0 ≤ st ∧ st ≤ 0xDF := by omega
    simp only [hk, if_pos hc, programChange_eq]; simp; omega
  · have hc : 0xC0 ≤ st ∧ st ≤ 0xDF := by omega
    simp only [hk, if_pos hc, afterTouch_eq]; simp; omega
  · have hc : ¬ (0xC0 ≤ st ∧ st ≤ 0xDF) := by omega
    simp only [hk, if_neg hc, parsePitchWheelVals_eq, pitchbend_eq, clampPitch_eq]; simp; omega

/-- a message as delivered to the listener of `midi.ListenTo`: status byte first, then exactly the data bytes
    its kind requires, all `< 0x80`; a sysex is `F0 data… F7` and fits the configured buffer -/
def WellFormedMsg (c : Cfg) (m : Bytes) : Prop :=
  (∃ st d1 d2, m = [st, d1, d2] ∧ ((0x80 ≤ st ∧ st ≤ 0xBF) ∨ (0xE0 ≤ st ∧ st ≤ 0xEF)) ∧ d1 < 0x80 ∧ d2 < 0x80) ∨
  (∃ st d, m = [st, d] ∧ 0xC0 ≤ st ∧ st ≤ 0xDF ∧ d < 0x80) ∨
  (∃ d, m = [0xF1, d] ∧ d < 0x80) ∨
  (∃ d1 d2, m = [0xF2, d1, d2] ∧ d1 < 0x80 ∧ d2 < 0x80) ∨
  (∃ d, m = [0xF3, d] ∧ d < 0x80) ∨
  m = [0xF6] ∨
  (∃ b, m = [b] ∧ 0xF8 ≤ b) ∨
  (∃ d, m = 0xF0 :: (d ++ [0xF7]) ∧ (∀ x ∈ d, x < 0x80) ∧ m.length ≤ c.bufSize)

/-- `retype` on a well-formed frame: the lone-F7 frame is swallowed (listener not called); every other frame
    becomes a well-formed message with the same first byte; never the panic outcome `some none` -/
theorem retype_wf (c : Cfg) (f : Frame) (h : WfFrame c f) :
    (f.1.head? = some 0xF7 ∧ retype f.1 = none) ∨
    (f.1.head? ≠ some 0xF7 ∧ ∃ m, retype f.1 = some (some m) ∧ WellFormedMsg c m ∧ m.head? = f.1.head?) := by
  rcases h with ⟨b, hf, hb⟩ | ⟨st, d1, d2, hf, h1, h2, hst⟩ | ⟨_, d, hf, hd, hl⟩
  · refine Or.inr ⟨by rw [hf]; simp; omega, [b], by rw [hf]; exact retype_rt b [] hb, ?_, by rw [hf]⟩
    exact Or.inr (Or.inr (Or.inr (Or.inr (Or.inr (Or.inr (Or.inl ⟨b, rfl, hb⟩))))))
  · rcases hst with ⟨hlo, hhi⟩ | rfl | rfl | rfl | rfl | rfl
    · refine Or.inr ⟨by rw [hf]; simp; omega, _, by rw [hf]; exact retype_chan st d1 d2 [] hlo hhi h1 h2, ?_, ?_⟩
      · split
        · next hc => exact Or.inr (Or.inl ⟨st, d1, rfl, hc.1, hc.2, h1⟩)
        · next hc => exact Or.inl ⟨st, d1, d2, rfl, by omega, h1, h2⟩
      · rw [hf]; split <;> rfl
    · exact Or.inr ⟨by rw [hf]; simp, _, by rw [hf]; exact retype_F1 d1 _ h1,
        Or.inr (Or.inr (Or.inl ⟨d1, rfl, h1⟩)), by rw [hf]; rfl⟩
    · exact Or.inr ⟨by rw [hf]; simp, _, by rw [hf]; exact retype_F2 d1 d2 _ h1 h2,
        Or.inr (Or.inr (Or.inr (Or.inl ⟨d1, d2, rfl, h1, h2⟩))), by rw [hf]⟩
    · exact Or.inr ⟨by rw [hf]; simp, _, by rw [hf]; exact retype_F3 d1 _ h1,
        Or.inr (Or.inr (Or.inr (Or.inr (Or.inl ⟨d1, rfl, h1⟩)))), by rw [hf]; rfl⟩
    · exact Or.inr ⟨by rw [hf]; simp, _, by rw [hf]; exact retype_F6 _,
        Or.inr (Or.inr (Or.inr (Or.inr (Or.inr (Or.inl rfl))))), by rw [hf]; rfl⟩
    · exact Or.inl ⟨by rw [hf]; rfl, by rw [hf]; exact retype_F7 _⟩
  · refine Or.inr ⟨by rw [hf]; simp, _, by rw [hf]; exact retype_sysex _, ?_, by rw [hf]⟩
    exact Or.inr (Or.inr (Or.inr (Or.inr (Or.inr (Or.inr (Or.inr ⟨d, rfl, hd, by rw [hf] at hl; exact hl⟩))))))

end Midi.Live
