import MidiModel.Tempo
/-!
# Helper lemmas for C11: `calcAbs`/`timeAt` on a sorted tempo map are a left-to-right fold

`calcSimple`/`timeSimple` are proof devices (state = tick, time and tempo of the last visited entry); the lemmas
`calcLoop_eq` and `timeAt_eq` show that the code-shaped `calcLoop`/`timeAt` (whole-slice lookups at `tick-1`)
compute exactly these folds when the slice is non-decreasing in the tick.
-/
namespace Midi.Tempo

/-- non-decreasing ticks, all `≥ a` -/
def SortedFrom : Nat → Map → Prop
  | _, [] => True
  | a, p :: r => a ≤ p.1 ∧ SortedFrom p.1 r

theorem SortedFrom.mono {a b : Nat} {m : Map} (h : SortedFrom a m) (hb : b ≤ a) : SortedFrom b m := by
  cases m with
  | nil => trivial
  | cons p r => exact ⟨Nat.le_trans hb h.1, h.2⟩

theorem isSorted_iff (m : Map) : isSorted m = true ↔ SortedFrom 0 m := by
  suffices h : ∀ (p : Nat × Nat) (r : Map), isSorted (p :: r) = true ↔ SortedFrom p.1 r by
    cases m with
    | nil => simp [isSorted, SortedFrom]
    | cons p r => rw [h]; simp [SortedFrom]
  intro p r
  induction r generalizing p with
  | nil => simp [isSorted, SortedFrom]
  | cons b r ih => simp [isSorted, SortedFrom, ih]

/-- `calculateAbsTimes` as a fold -/
def calcSimple (dur : Nat → Nat → Nat) : Nat → Nat → Nat → Map → List Tc
  | _, _, _, [] => []
  | a, T, lu, p :: r =>
    if p.1 = a then ⟨p.1, T, p.2⟩ :: calcSimple dur a T p.2 r
    else
      let T' := T + dur lu (tk ((p.1 : Int) - a))
      ⟨p.1, T', p.2⟩ :: calcSimple dur p.1 T' p.2 r

/-- `TimeAt` as a fold over the raw map -/
def timeSimple (dur : Nat → Nat → Nat) : Nat → Nat → Nat → Map → Nat → Nat
  | a, T, lu, [], t => T + dur lu (tk ((t : Int) - a))
  | a, T, lu, p :: r, t =>
    if t ≤ p.1 then T + dur lu (tk ((t : Int) - a))
    else if p.1 = a then timeSimple dur a T p.2 r t
    else timeSimple dur p.1 (T + dur lu (tk ((p.1 : Int) - a))) p.2 r t

/-- state of the fold that belongs to the visited prefix `pre` -/
def Inv (pre : List Tc) (a T lu : Nat) : Prop :=
  (∀ e ∈ pre, e.tick ≤ a) ∧
  match pre.getLast? with
  | none => a = 0 ∧ T = 0 ∧ lu = defaultU
  | some e => e = ⟨a, T, lu⟩

theorem Inv.nil : Inv [] 0 0 defaultU := by simp [Inv]

theorem Inv.snoc {pre : List Tc} {a T lu : Nat} (h : Inv pre a T lu) (τ T' u : Nat) (hτ : a ≤ τ) :
    Inv (pre ++ [⟨τ, T', u⟩]) τ T' u := by
  refine ⟨?_, by simp⟩
  intro e he
  rcases List.mem_append.1 he with he | he
  · exact Nat.le_trans (h.1 e he) hτ
  · simp at he; subst he; exact Nat.le_refl _

theorem tcaLoop_append (p s : List Tc) (t : Int) (acc : Option Tc) (h : ∀ e ∈ p, (e.tick : Int) ≤ t) :
    tcaLoop (p ++ s) t acc = tcaLoop s t (p.getLast?.or acc) := by
  induction p generalizing acc with
  | nil => simp
  | cons x p ih =>
    have hx : ¬ ((x.tick : Int) > t) := by have := h x (by simp); omega
    simp only [List.cons_append, tcaLoop, hx, if_false]
    rw [ih _ (fun e he => h e (by simp [he]))]
    congr 1
    cases p with
    | nil => simp
    | cons y p =>
      rcases h' : (y :: p).getLast? with _ | z
      · simp [List.getLast?_eq_none_iff] at h'
      · simp [List.getLast?_cons_cons, h']

theorem tca_prefix (pre : List Tc) (x : Tc) (rest : List Tc) (t : Int)
    (h1 : ∀ e ∈ pre, (e.tick : Int) ≤ t) (h2 : (x.tick : Int) > t) :
    tempoChangeAt (pre ++ x :: rest) t = pre.getLast? := by
  unfold tempoChangeAt
  rw [tcaLoop_append _ _ _ _ h1]
  simp [tcaLoop, h2]

theorem tca_all (pre : List Tc) (t : Int) (h1 : ∀ e ∈ pre, (e.tick : Int) ≤ t) :
    tempoChangeAt pre t = pre.getLast? := by
  have := tcaLoop_append pre [] t none h1
  simpa [tempoChangeAt, tcaLoop] using this

/-- what the lookups of the code return when the visited prefix is `pre` -/
theorem Inv.cases {pre : List Tc} {a T lu : Nat} (h : Inv pre a T lu) :
    (pre.getLast? = none ∧ T = 0 ∧ lu = defaultU ∧ a = 0) ∨ pre.getLast? = some ⟨a, T, lu⟩ := by
  have := h.2
  cases hl : pre.getLast? with
  | none => rw [hl] at this; simp [this]
  | some e => rw [hl] at this; simp [this]

/-- `calculateAbsTimes` on a non-decreasing slice is the fold `calcSimple` -/
theorem calcLoop_eq (dur : Nat → Nat → Nat) (post : Map) (pre : List Tc) (a T lu : Nat)
    (hi : Inv pre a T lu) (hs : SortedFrom a post) :
    calcLoop dur pre (ofMap post) a T = pre ++ calcSimple dur a T lu post := by
  induction post generalizing pre a T lu with
  | nil => simp [ofMap, calcLoop, calcSimple]
  | cons p r ih =>
    obtain ⟨hle, hs'⟩ := hs
    simp only [ofMap, List.map_cons, calcLoop, calcSimple]
    by_cases hpa : p.1 = a
    · have hd : (p.1 : Int) - a = 0 := by omega
      simp only [if_true, hpa]
      have := ih (pre ++ [⟨a, T, p.2⟩]) a T p.2 (hi.snoc a T p.2 (Nat.le_refl _)) (hpa ▸ hs')
      simp only [ofMap] at this
      rw [this]; simp
    · have hd : ¬ ((p.1 : Int) - a = 0) := by omega
      simp only [hd, if_false, hpa]
      have hlook : tempoChangeAt (pre ++ ⟨p.1, 0, p.2⟩ :: List.map (fun p => ({ tick := p.1, time := 0, u := p.2 } : Tc)) r)
          ((p.1 : Int) - 1) = pre.getLast? := by
        apply tca_prefix
        · intro e he; have := hi.1 e he; omega
        · simp; omega
      have hgoal : ∀ (pt pu : Nat), pt = T → pu = lu →
          calcLoop dur (pre ++ [⟨p.1, pt + dur pu (tk ((p.1 : Int) - a)), p.2⟩])
            (List.map (fun p => ({ tick := p.1, time := 0, u := p.2 } : Tc)) r) p.1
            (pt + dur pu (tk ((p.1 : Int) - a))) =
          pre ++ ⟨p.1, T + dur lu (tk ((p.1 : Int) - a)), p.2⟩ ::
            calcSimple dur p.1 (T + dur lu (tk ((p.1 : Int) - a))) p.2 r := by
        intro pt pu h1 h2; subst h1; subst h2
        have := ih (pre ++ [⟨p.1, pt + dur pu (tk ((p.1 : Int) - a)), p.2⟩]) p.1 _ p.2 (hi.snoc _ _ _ hle) hs'
        simp only [ofMap] at this
        rw [this]; simp
      simp only [tempoAt, hlook]
      rcases hi.cases with ⟨h0, h1, h2, _⟩ | h0
      · simp only [h0]; exact hgoal _ _ h1.symm h2.symm
      · simp only [h0]; exact hgoal _ _ rfl rfl
theorem calcAbs_eq (dur : Nat → Nat → Nat) (m : Map) (hs : SortedFrom 0 m) :
    calcAbs dur (ofMap m) = calcSimple dur 0 0 defaultU m := by
  simpa [calcAbs] using calcLoop_eq dur m [] 0 0 defaultU Inv.nil hs

theorem timeAt_of_lookup (dur : Nat → Nat → Nat) (l pre : List Tc) (a T lu t : Nat) (hi : Inv pre a T lu)
    (hl : tempoChangeAt l ((t : Int) - 1) = pre.getLast?) :
    timeAt dur l t = T + dur lu (tk ((t : Int) - a)) := by
  simp only [timeAt, hl]
  rcases hi.cases with ⟨h0, h1, h2, h3⟩ | h0
  · simp [h0, h1, h2, h3]
  · simp [h0]

/-- `TimeAt` on the finished, non-decreasing slice is the fold `timeSimple` -/
theorem timeAt_eq (dur : Nat → Nat → Nat) (r : Map) (pre : List Tc) (a T lu t : Nat)
    (hi : Inv pre a T lu) (hs : SortedFrom a r) (ht : pre = [] ∨ a < t) :
    timeAt dur (pre ++ calcSimple dur a T lu r) t = timeSimple dur a T lu r t := by
  have hpre : ∀ e ∈ pre, (e.tick : Int) ≤ (t : Int) - 1 := by
    intro e he
    rcases ht with h | h
    · subst h; simp at he
    · have := hi.1 e he; omega
  induction r generalizing pre a T lu with
  | nil =>
    simp only [calcSimple, timeSimple, List.append_nil]
    exact timeAt_of_lookup dur _ pre a T lu t hi (tca_all _ _ hpre)
  | cons p r ih =>
    obtain ⟨hle, hs'⟩ := hs
    simp only [calcSimple, timeSimple]
    by_cases htp : t ≤ p.1
    · simp only [htp, if_true]
      apply timeAt_of_lookup dur _ pre a T lu t hi
      by_cases hpa : p.1 = a
      · simp only [hpa, if_true]; apply tca_prefix _ _ _ _ hpre; simp; omega
      · simp only [hpa, if_false]; apply tca_prefix _ _ _ _ hpre; simp; omega
    · simp only [htp, if_false]
      by_cases hpa : p.1 = a
      · simp only [hpa, if_true]
        have hi' := hi.snoc a T p.2 (Nat.le_refl _)
        have := ih (pre ++ [⟨a, T, p.2⟩]) a T p.2 hi' (hpa ▸ hs') (Or.inr (by omega))
          (by intro e he; have := hi'.1 e he; omega)
        rw [← this]; simp
      · simp only [hpa, if_false]
        have hi' := hi.snoc p.1 (T + dur lu (tk ((p.1 : Int) - a))) p.2 hle
        have := ih (pre ++ [⟨p.1, T + dur lu (tk ((p.1 : Int) - a)), p.2⟩]) p.1 _ p.2 hi' hs' (Or.inr (by omega))
          (by intro e he; have := hi'.1 e he; omega)
        rw [← this]; simp

/-- the tick count of a non-negative difference -/
theorem tk_sub (t a : Nat) (h : a ≤ t) : tk ((t : Int) - a) = t - a := by
  unfold tk; omega

/-- `SMF.TimeAt` after `finishTempoChanges` on a non-decreasing map, as a fold over the map -/
theorem timeAt_finish_eq (dur : Nat → Nat → Nat) (m : Map) (hs : SortedFrom 0 m) (t : Nat) :
    timeAt dur (calcAbs dur (ofMap m)) t = timeSimple dur 0 0 defaultU m t := by
  rw [calcAbs_eq dur m hs]
  simpa using timeAt_eq dur m [] 0 0 defaultU t Inv.nil hs (Or.inl rfl)

/-! ### the sort model -/

theorem insertTc_sorted (a : Nat × Nat) (m : Map) (b : Nat) (hm : SortedFrom b m) (hb : b ≤ a.1) :
    SortedFrom b (insertTc a m) := by
  induction m generalizing b with
  | nil => exact ⟨hb, trivial⟩
  | cons c r ih =>
    simp only [insertTc]
    by_cases h : a.1 ≤ c.1
    · simp only [h, if_true]; exact ⟨hb, h, hm.2⟩
    · simp only [h, if_false]; exact ⟨hm.1, ih _ hm.2 (by omega)⟩

theorem sortTc_sorted (m : Map) : SortedFrom 0 (sortTc m) := by
  induction m with
  | nil => trivial
  | cons a r ih => exact insertTc_sorted a _ 0 ih (Nat.zero_le _)

theorem sortTc_of_sorted (m : Map) (a : Nat) (h : SortedFrom a m) : sortTc m = m := by
  induction m generalizing a with
  | nil => rfl
  | cons p r ih =>
    simp only [sortTc, ih _ h.2]
    cases r with
    | nil => rfl
    | cons c r => simp [insertTc, h.2.1]

/-! ### accuracy hypothesis on the duration function and the domain of a query -/

/-- What the proofs need of `dur u d` = `MetricTicks(q).Duration(6e7/u, d).Microseconds()`: zero ticks take no time,
    it is monotone in the ticks, and it is within one microsecond of the exact `u·d/q` for segment durations up to
    the horizon `H` microseconds (the float64 arithmetic is only that accurate on a bounded range). -/
structure DurOK (dur : Nat → Nat → Nat) (q H : Nat) : Prop where
  zero : ∀ u, dur u 0 = 0
  mono : ∀ u d d', d ≤ d' → dur u d ≤ dur u d'
  upper : ∀ u d, u * d ≤ q * H → q * dur u d ≤ u * d + q
  lower : ∀ u d, u * d ≤ q * H → u * d ≤ q * dur u d + q

/-- one segment of `d` ticks at tempo `u` is inside the domain: its exact duration does not exceed the horizon -/
def SegOK (q H u d : Nat) : Prop := u * d ≤ q * H

/-- every segment on the way to tick `t` is inside the domain (same recursion as `exactFrom`) -/
def DomFrom (q H : Nat) : Nat → Nat → Map → Nat → Prop
  | a, lu, [], t => SegOK q H lu (t - a)
  | a, lu, p :: r, t =>
    if t ≤ p.1 then SegOK q H lu (t - a)
    else SegOK q H lu (p.1 - a) ∧ DomFrom q H p.1 p.2 r t

/-- the query tick `t` is inside the domain of the theorems for the (sorted) map `m` -/
def InDomain (q H : Nat) (m : Map) (t : Nat) : Prop := DomFrom q H 0 defaultU m t

theorem seg_error {dur : Nat → Nat → Nat} {q H : Nat} (hd : DurOK dur q H) (T lu t a : Nat) (hat : a ≤ t)
    (hseg : SegOK q H lu (t - a)) :
    q * (T + dur lu (tk ((t : Int) - a))) ≤ q * T + lu * (t - a) + q ∧
    q * T + lu * (t - a) ≤ q * (T + dur lu (tk ((t : Int) - a))) + q := by
  rw [tk_sub t a hat, Nat.mul_add]
  have h1 := hd.upper lu (t - a) hseg
  have h2 := hd.lower lu (t - a) hseg
  omega

/-- error of the fold against the exact integral: one microsecond per `dur` call -/
theorem timeSimple_error {dur : Nat → Nat → Nat} {q H : Nat} (hd : DurOK dur q H) (r : Map) (a T lu t : Nat)
    (hs : SortedFrom a r) (hat : a ≤ t) (hdom : DomFrom q H a lu r t) :
    q * timeSimple dur a T lu r t ≤ q * T + exactFrom a lu r t + q * (segFrom a r t + 1) ∧
    q * T + exactFrom a lu r t ≤ q * timeSimple dur a T lu r t + q * (segFrom a r t + 1) := by
  induction r generalizing a T lu with
  | nil =>
    simp only [timeSimple, exactFrom, segFrom, DomFrom] at *
    have := seg_error hd T lu t a hat hdom
    omega
  | cons p r ih =>
    obtain ⟨τ, u⟩ := p
    obtain ⟨hle, hs'⟩ := hs
    simp only [timeSimple, exactFrom, segFrom, DomFrom] at *
    by_cases htp : t ≤ τ
    · simp only [htp, if_true] at hdom ⊢
      have := seg_error hd T lu t a hat hdom
      omega
    · simp only [htp, if_false] at hdom ⊢
      obtain ⟨hseg, hdom'⟩ := hdom
      by_cases hpa : τ = a
      · subst hpa
        simp only [if_true, Nat.sub_self, Nat.mul_zero, Nat.zero_add]
        exact ih τ T u hs' (by omega) hdom'
      · simp only [hpa, if_false]
        have h1 := ih τ (T + dur lu (tk ((τ : Int) - a))) u hs' (by omega) hdom'
        have h2 := seg_error hd T lu τ a hle hseg
        have e1 : q * (1 + segFrom τ r t + 1) = q * (segFrom τ r t + 1) + q := by
          rw [show 1 + segFrom τ r t + 1 = (segFrom τ r t + 1) + 1 by omega, Nat.mul_add, Nat.mul_one]
        rw [e1]
        omega

theorem timeSimple_ge (dur : Nat → Nat → Nat) (r : Map) (a T lu t : Nat) : T ≤ timeSimple dur a T lu r t := by
  induction r generalizing a T lu with
  | nil => simp [timeSimple]
  | cons p r ih =>
    simp only [timeSimple]
    by_cases htp : t ≤ p.1
    · simp [htp]
    · simp only [htp, if_false]
      by_cases hpa : p.1 = a
      · simp only [hpa, if_true]; exact ih _ _ _
      · simp only [hpa, if_false]
        exact Nat.le_trans (Nat.le_add_right _ _) (ih _ _ _)

theorem seg_mono {dur : Nat → Nat → Nat} {q H : Nat} (hd : DurOK dur q H) (T lu a t t' : Nat) (hat : a ≤ t)
    (htt : t ≤ t') :
    T + dur lu (tk ((t : Int) - a)) ≤ T + dur lu (tk ((t' : Int) - a)) := by
  rw [tk_sub t a hat, tk_sub t' a (by omega)]
  have := hd.mono lu (t - a) (t' - a) (by omega)
  omega

/-- the fold is non-decreasing in the query tick (needs only `dur u 0 = 0` and monotonicity: no horizon) -/
theorem timeSimple_mono {dur : Nat → Nat → Nat} {q H : Nat} (hd : DurOK dur q H) (r : Map) (a T lu t t' : Nat)
    (hs : SortedFrom a r) (hat : a ≤ t) (htt : t ≤ t') :
    timeSimple dur a T lu r t ≤ timeSimple dur a T lu r t' := by
  induction r generalizing a T lu with
  | nil =>
    simp only [timeSimple]
    exact seg_mono hd T lu a t t' hat htt
  | cons p r ih =>
    obtain ⟨τ, u⟩ := p
    obtain ⟨hle, hs'⟩ := hs
    simp only [timeSimple]
    by_cases htp' : t' ≤ τ
    · have htp : t ≤ τ := by omega
      simp only [htp', htp, if_true]
      exact seg_mono hd T lu a t t' hat htt
    · simp only [htp', if_false]
      by_cases htp : t ≤ τ
      · simp only [htp, if_true]
        by_cases hpa : τ = a
        · subst hpa
          have hta : t = τ := by omega
          subst hta
          simp only [if_true, Int.sub_self]
          have : tk 0 = 0 := by unfold tk; omega
          rw [this, hd.zero]
          exact timeSimple_ge dur r t T u t'
        · simp only [hpa, if_false]
          exact Nat.le_trans (seg_mono hd T lu a t τ hat htp) (timeSimple_ge dur r τ _ u t')
      · simp only [htp, if_false]
        by_cases hpa : τ = a
        · simp only [hpa, if_true]
          subst hpa
          exact ih τ T u hs' (by omega)
        · simp only [hpa, if_false]
          exact ih τ _ u hs' (by omega)

/-! ### the exact integral, tick by tick (specification) -/

/-- tempo in force during tick `k` (from `k` to `k+1`): the `u` of the last entry of the map whose tick is `≤ k`;
    `lu` if there is none -/
def uAtFrom (lu : Nat) (m : Map) (k : Nat) : Nat :=
  match (m.filter (fun p => p.1 ≤ k)).getLast? with
  | some p => p.2
  | none => lu

/-- "120 BPM before the first tempo event, each tempo valid from its tick until the next" -/
def uAt (m : Map) (k : Nat) : Nat := uAtFrom defaultU m k

/-- `q` times the exact time of tick `t` in microseconds: every tick `k < t` lasts `uAt m k / q` microseconds -/
def integral (m : Map) : Nat → Nat
  | 0 => 0
  | t + 1 => integral m t + uAt m t

theorem filter_nil_of_sorted (r : Map) (b t : Nat) (hs : SortedFrom b r) (h : t < b) :
    r.filter (fun p => p.1 ≤ t) = [] := by
  induction r generalizing b with
  | nil => rfl
  | cons p r ih =>
    have : ¬ p.1 ≤ t := by have := hs.1; omega
    simp only [List.filter_cons, this, decide_false]
    exact ih p.1 hs.2 (by have := hs.1; omega)

theorem uAtFrom_cons_le (lu τ u : Nat) (r : Map) (t : Nat) (h : τ ≤ t) :
    uAtFrom lu ((τ, u) :: r) t = uAtFrom u r t := by
  simp only [uAtFrom, List.filter_cons, h, decide_true, if_true, List.getLast?_cons]
  cases (r.filter fun p => p.1 ≤ t).getLast? <;> simp

theorem uAtFrom_cons_gt (lu τ u : Nat) (r : Map) (t : Nat) (hs : SortedFrom τ r) (h : t < τ) :
    uAtFrom lu ((τ, u) :: r) t = lu := by
  have h1 : ¬ τ ≤ t := by omega
  simp [uAtFrom, h1, filter_nil_of_sorted r τ t hs h]

theorem exactFrom_self (a lu : Nat) (r : Map) (hs : SortedFrom a r) : exactFrom a lu r a = 0 := by
  cases r with
  | nil => simp [exactFrom]
  | cons p r => obtain ⟨τ, u⟩ := p; have := hs.1; simp [exactFrom, this]

theorem exactFrom_succ (r : Map) (a lu t : Nat) (hs : SortedFrom a r) (hat : a ≤ t) :
    exactFrom a lu r (t + 1) = exactFrom a lu r t + uAtFrom lu r t := by
  induction r generalizing a lu with
  | nil =>
    simp only [exactFrom, uAtFrom, List.filter_nil, List.getLast?_nil]
    rw [show t + 1 - a = (t - a) + 1 by omega, Nat.mul_add, Nat.mul_one]
  | cons p r ih =>
    obtain ⟨τ, u⟩ := p
    obtain ⟨hle, hs'⟩ := hs
    simp only [exactFrom]
    by_cases h1 : t + 1 ≤ τ
    · have h2 : t ≤ τ := by omega
      simp only [h1, h2, if_true]
      rw [uAtFrom_cons_gt lu τ u r t hs' (by omega)]
      rw [show t + 1 - a = (t - a) + 1 by omega, Nat.mul_add, Nat.mul_one]
    · simp only [h1, if_false]
      rw [uAtFrom_cons_le lu τ u r t (by omega), ih τ u hs' (by omega)]
      by_cases h2 : t ≤ τ
      · have : t = τ := by omega
        subst this
        simp only [Nat.le_refl, if_true, exactFrom_self t u r hs']
        omega
      · simp only [h2, if_false]; omega

/-- the segment-wise numerator the driver returns is the tick-by-tick integral of the tempo map -/
theorem exactNum_eq_integral (m : Map) (hs : SortedFrom 0 m) (t : Nat) : exactNum m t = integral m t := by
  induction t with
  | zero => simp [exactNum, integral, exactFrom_self 0 defaultU m hs]
  | succ t ih =>
    simp only [integral, ← ih, exactNum, uAt]
    exact exactFrom_succ m 0 defaultU t hs (Nat.zero_le _)

/-! ### a simple sufficient condition for the domain -/

theorem exactFrom_seg_le (a lu τ u : Nat) (r : Map) (t : Nat) (h : ¬ t ≤ τ) :
    lu * (τ - a) ≤ exactFrom a lu ((τ, u) :: r) t ∧ exactFrom τ u r t ≤ exactFrom a lu ((τ, u) :: r) t := by
  simp only [exactFrom, h, if_false]; omega

theorem domFrom_of_small (q H : Nat) (r : Map) (a lu t : Nat) (hs : SortedFrom a r) (hat : a ≤ t)
    (hH : exactFrom a lu r t ≤ q * H) : DomFrom q H a lu r t := by
  induction r generalizing a lu with
  | nil => simpa [DomFrom, SegOK, exactFrom] using hH
  | cons p r ih =>
    obtain ⟨τ, u⟩ := p
    obtain ⟨hle, hs'⟩ := hs
    simp only [DomFrom]
    by_cases htp : t ≤ τ
    · simp only [htp, if_true]
      simpa [SegOK, exactFrom, htp] using hH
    · simp only [htp, if_false]
      have := exactFrom_seg_le a lu τ u r t htp
      exact ⟨Nat.le_trans this.1 hH, ih τ u hs' (by omega) (Nat.le_trans this.2 hH)⟩

/-! ### the rational reference `durRef` meets `DurOK` (for every horizon) -/

theorem roundDiv_spec (n d : Nat) (hd : 0 < d) :
    2 * (d * roundDiv n d) ≤ 2 * n + d ∧ 2 * n + d < 2 * (d * roundDiv n d) + 2 * d := by
  unfold roundDiv
  have h1 := Nat.div_add_mod (2 * n + d) (2 * d)
  have h2 := Nat.mod_lt (2 * n + d) (show 0 < 2 * d by omega)
  have h3 : 2 * d * ((2 * n + d) / (2 * d)) = 2 * (d * ((2 * n + d) / (2 * d))) := by rw [Nat.mul_assoc]
  omega

theorem durRef_ok (q H : Nat) (hq : 0 < q) : DurOK (durRef q) q H := by
  have key : ∀ u d, q * durRef q u d ≤ u * d + q ∧ u * d ≤ q * durRef q u d + q := by
    intro u d
    unfold durRef durNsRef
    have h1 := roundDiv_spec (1000 * u * d) q hq
    have h2 := Nat.div_add_mod (roundDiv (1000 * u * d) q) 1000
    have h3 := Nat.mod_lt (roundDiv (1000 * u * d) q) (show 0 < 1000 by omega)
    have h4 : q * roundDiv (1000 * u * d) q =
        1000 * (q * (roundDiv (1000 * u * d) q / 1000)) + q * (roundDiv (1000 * u * d) q % 1000) := by
      rw [← Nat.mul_assoc 1000 q, Nat.mul_comm 1000 q, Nat.mul_assoc q 1000, ← Nat.mul_add, h2]
    have h5 : q * (roundDiv (1000 * u * d) q % 1000) ≤ q * 999 := Nat.mul_le_mul_left q (by omega)
    have h6 : 1000 * u * d = 1000 * (u * d) := Nat.mul_assoc _ _ _
    rw [h6] at h1 h4 h5 h2 h3 ⊢
    omega
  refine ⟨?_, ?_, fun u d _ => (key u d).1, fun u d _ => (key u d).2⟩
  · intro u
    unfold durRef durNsRef roundDiv
    simp only [Nat.mul_zero, Nat.zero_add]
    have : q / (2 * q) = 0 := Nat.div_eq_of_lt (by omega)
    rw [this]
  · intro u d d' hdd
    unfold durRef durNsRef roundDiv
    apply Nat.div_le_div_right
    apply Nat.div_le_div_right
    have := Nat.mul_le_mul_left (1000 * u) hdd
    omega

/-! ### `TracksReader.Do` -/

/-- absolute ticks of the events of a track with deltas `ds`, starting at `abs` -/
def absTicks : List Nat → Nat → List Nat
  | [], _ => []
  | d :: r, abs => (abs + d) :: absTicks r (abs + d)

theorem doTrack_eq (dur : Nat → Nat → Nat) (l : List Tc) (ds : List Nat) (abs : Nat) :
    doTrack dur l ds abs = (absTicks ds abs).map fun a => (a, timeAt dur l a) := by
  induction ds generalizing abs with
  | nil => rfl
  | cons d r ih => simp [doTrack, absTicks, ih]

theorem absTicks_length (ds : List Nat) (abs : Nat) : (absTicks ds abs).length = ds.length := by
  induction ds generalizing abs with
  | nil => rfl
  | cons d r ih => simp [absTicks, ih]

/-- the `i`-th absolute tick is the sum of the first `i+1` deltas -/
theorem absTicks_getElem? (ds : List Nat) (abs i : Nat) (h : i < ds.length) :
    (absTicks ds abs)[i]? = some (abs + (ds.take (i + 1)).sum) := by
  induction ds generalizing abs i with
  | nil => simp at h
  | cons d r ih =>
    cases i with
    | zero => simp [absTicks]
    | succ i =>
      simp only [absTicks, List.getElem?_cons_succ, List.take_succ_cons, List.sum_cons]
      rw [ih (abs + d) i (by simpa using h)]
      simp [Nat.add_assoc]

/-! ### duration → ticks is the inverse of ticks → duration (integers, explicit error budget) -/

/-- `D` (nanoseconds) is within `(500+e1)/1000` ns of the exact duration `1000·u·n/q` of `n` ticks, `T` is within
    `(500+e2)/1000` ticks of `D·q/(1000·u)` (what a round-to-nearest of a value with error `e/1000` gives), and the
    budget `q·(500+e1) + 1000·u·(500+e2) < 10^6·u` holds (i.e. `(0.5+ε1)/L + 0.5 + ε2 < 1` with `L = 1000u/q` ns the
    length of a tick): then `T = n`. -/
theorem inverse_budget (q u n D T e1 e2 : Nat)
    (hD1 : 1000 * (q * D) ≤ 1000 * (1000 * (u * n)) + q * (500 + e1))
    (hD2 : 1000 * (1000 * (u * n)) ≤ 1000 * (q * D) + q * (500 + e1))
    (hT1 : 1000 * (u * T) ≤ q * D + u * (500 + e2))
    (hT2 : q * D ≤ 1000 * (u * T) + u * (500 + e2))
    (hb : q * (500 + e1) + 1000 * (u * (500 + e2)) < 1000000 * u) : T = n := by
  rcases Nat.lt_trichotomy T n with h | h | h
  · have := Nat.mul_le_mul_left u (show T + 1 ≤ n from h)
    rw [Nat.mul_add, Nat.mul_one] at this
    omega
  · exact h
  · have := Nat.mul_le_mul_left u (show n + 1 ≤ T from h)
    rw [Nat.mul_add, Nat.mul_one] at this
    omega

/-- the exact reference pair: rounding to whole nanoseconds and back loses nothing as long as a tick is longer than
    one nanosecond -/
theorem ticksRef_durNsRef (q u n : Nat) (hq : 0 < q) (h : q < 1000 * u) : ticksRef q u (durNsRef q u n) = n := by
  have hu : 0 < 1000 * u := by omega
  have h1 := roundDiv_spec (1000 * u * n) q hq
  have h2 := roundDiv_spec (q * durNsRef q u n) (1000 * u) hu
  unfold ticksRef
  have e1 : 1000 * u * n = 1000 * (u * n) := Nat.mul_assoc _ _ _
  unfold durNsRef at h2 ⊢
  rw [e1] at h1 h2 ⊢
  generalize roundDiv (1000 * (u * n)) q = D at h1 h2 ⊢
  generalize roundDiv (q * D) (1000 * u) = T at h2 ⊢
  rw [Nat.mul_assoc 1000 u T] at h2
  apply inverse_budget q u n D T 0 0 <;> omega

end Midi.Tempo
