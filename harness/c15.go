package main

import (
	"bytes"
	"fmt"
	"io"
	"math"
	"math/big"
	"strconv"
	"strings"

	"gitlab.com/gomidi/midi/v2/smf"
)

// C15: meta-event constructors and accessors are mutually inverse.
//
// Ops (see lean/MidiModel/Meta.lean, `handle`):
//   meta.text <kind> <hex>         meta.textfill <kind> <n> <a> <b>     (payload d[i] = (a+b*i)%256, digests only)
//   meta.seqdata <hex>             meta.seqfill <n> <a> <b>
//   meta.channel c | meta.port p | meta.seqno n | meta.smpte h m s f ff
//   meta.timesig n d c q | meta.meter n d | meta.key k maj n flat | meta.named Name
//   meta.tempo <float64 bits, hex>  (the model is asked `meta.temporat p q` with bpm = p/q exactly)
//   meta.undef t <hex> | meta.get <hex>  (every accessor on arbitrary bytes; correspondence only)

type c15Text struct {
	name string
	typ  byte
	mk   func(string) smf.Message
	get  func(smf.Message, *string) bool
}

var c15Texts = []c15Text{
	{"lyric", 0x05, smf.MetaLyric, smf.Message.GetMetaLyric},
	{"copyright", 0x02, smf.MetaCopyright, smf.Message.GetMetaCopyright},
	{"cuepoint", 0x07, smf.MetaCuepoint, smf.Message.GetMetaCuepoint},
	{"device", 0x09, smf.MetaDevice, smf.Message.GetMetaDevice},
	{"instrument", 0x04, smf.MetaInstrument, smf.Message.GetMetaInstrument},
	{"marker", 0x06, smf.MetaMarker, smf.Message.GetMetaMarker},
	{"program", 0x08, smf.MetaProgram, smf.Message.GetMetaProgramName},
	{"text", 0x01, smf.MetaText, smf.Message.GetMetaText},
	{"trackname", 0x03, smf.MetaTrackSequenceName, smf.Message.GetMetaTrackName},
}

type c15Named struct {
	name string
	f    func() smf.Message
}

// the 26 named key constructors of key.go (tools/extract/keys.go checks that key.go declares exactly these)
var c15NamedKeys = []c15Named{
	{"CMaj", smf.CMaj}, {"DMaj", smf.DMaj}, {"EMaj", smf.EMaj}, {"FsharpMaj", smf.FsharpMaj}, {"GMaj", smf.GMaj},
	{"AMaj", smf.AMaj}, {"BMaj", smf.BMaj}, {"FMaj", smf.FMaj}, {"BbMaj", smf.BbMaj}, {"EbMaj", smf.EbMaj},
	{"AbMaj", smf.AbMaj}, {"DbMaj", smf.DbMaj}, {"GbMaj", smf.GbMaj}, {"AMin", smf.AMin}, {"BMin", smf.BMin},
	{"CsharpMin", smf.CsharpMin}, {"DsharpMin", smf.DsharpMin}, {"EMin", smf.EMin}, {"FsharpMin", smf.FsharpMin},
	{"GsharpMin", smf.GsharpMin}, {"DMin", smf.DMin}, {"GMin", smf.GMin}, {"CMin", smf.CMin}, {"FMin", smf.FMin},
	{"BbMin", smf.BbMin}, {"EbMin", smf.EbMin},
}

// ---------- reference notions written from the SMF 1.0 text and from music theory (not from the code) ----------

// specVLQ: 7 bits per byte, most significant group first, bit 7 set on all but the last byte.
func specVLQ(n uint32) []byte {
	out := []byte{byte(n & 0x7f)}
	for n >>= 7; n > 0; n >>= 7 {
		out = append([]byte{byte(n&0x7f) | 0x80}, out...)
	}
	return out
}

// specParseMeta: FF type length data, nothing else.
func specParseMeta(m []byte) (typ byte, data []byte, ok bool) {
	if len(m) < 3 || m[0] != 0xFF {
		return
	}
	n, i := uint64(0), 2
	for {
		if i >= len(m) || i > 6 {
			return
		}
		n = n<<7 | uint64(m[i]&0x7f)
		i++
		if m[i-1]&0x80 == 0 {
			break
		}
	}
	if uint64(len(m)-i) != n {
		return
	}
	return m[1], m[i:], true
}

// circle of fifths, spelled; index = number of accidentals
var c15Circle = map[[2]bool][]string{ // [isMajor, isFlat]
	{true, false}:  {"C", "G", "D", "A", "E", "B", "F#", "C#"},
	{true, true}:   {"C", "F", "Bb", "Eb", "Ab", "Db", "Gb", "Cb"},
	{false, false}: {"A", "E", "B", "F#", "C#", "G#", "D#", "A#"},
	{false, true}:  {"A", "D", "G", "C", "F", "Bb", "Eb", "Ab"},
}

func c15PitchClass(note string) int {
	pc := map[byte]int{'C': 0, 'D': 2, 'E': 4, 'F': 5, 'G': 7, 'A': 9, 'B': 11}[note[0]]
	if strings.HasSuffix(note, "#") {
		pc++
	}
	if len(note) == 2 && note[1] == 'b' {
		pc += 11
	}
	return pc % 12
}

// c15KeyOfName: "FsharpMin" -> pitch class 6, 3 accidentals, minor, sharp side
func c15KeyOfName(name string) (k smf.Key, ok bool) {
	isMajor := strings.HasSuffix(name, "Maj")
	note := strings.Replace(name[:len(name)-3], "sharp", "#", 1)
	for _, flat := range []bool{false, true} {
		for n, s := range c15Circle[[2]bool{isMajor, flat}] {
			if s == note {
				return smf.Key{Key: uint8(c15PitchClass(s)), Num: uint8(n), IsMajor: isMajor, IsFlat: flat && n != 0}, true
			}
		}
	}
	return
}

// ---------- canonical forms ----------

func c15Fill(n, a, b int) []byte {
	d := make([]byte, n)
	for i := range d {
		d[i] = byte(a + b*i)
	}
	return d
}

func c15Digest(l []byte) string {
	h := uint64(7)
	for _, x := range l {
		h = (h*257 + uint64(x) + 1) % 4294967291
	}
	return fmt.Sprintf("%d:%d", len(l), h)
}

func c15b01(b bool) string {
	if b {
		return "1"
	}
	return "0"
}

func c15ShowKey(k smf.Key) string {
	return fmt.Sprintf("%d,%d,%s,%s", k.Key, k.Num, c15b01(k.IsMajor), c15b01(k.IsFlat))
}

func c15KeyStr(k smf.Key) string {
	if s := k.String(); s != "" {
		return s
	}
	return "-"
}

// c15TempoField recovers the integer the accessor divided 60000000 by (exact for every 24-bit field: the
// two correctly rounded divisions are off by less than 2^-27 in absolute terms).
func c15TempoField(bpm float64) string {
	if math.IsInf(bpm, 0) {
		return "0"
	}
	if math.IsNaN(bpm) || bpm <= 0 {
		return "nan"
	}
	return strconv.FormatUint(uint64(math.Round(60000000/bpm)), 10)
}

// c15All applies every accessor of the implementation (all out-parameters non-nil): same layout as `showAll`.
func c15All(m smf.Message) string {
	var sb strings.Builder
	for _, t := range c15Texts {
		var s string
		sb.WriteString(t.name + "=")
		if t.get(m, &s) {
			sb.WriteString(hx([]byte(s)))
		} else {
			sb.WriteString("no")
		}
		sb.WriteByte(' ')
	}
	no := func(ok bool, s string) string {
		if ok {
			return s
		}
		return "no"
	}
	var a, b, c, d, e uint8
	var u16 uint16
	var bt []byte
	var k smf.Key
	var bpm float64
	ok := m.GetMetaChannel(&a)
	sb.WriteString("channel=" + no(ok, fmt.Sprint(a)))
	ok = m.GetMetaPort(&a)
	sb.WriteString(" port=" + no(ok, fmt.Sprint(a)))
	ok = m.GetMetaSeqNumber(&u16)
	sb.WriteString(" seqno=" + no(ok, fmt.Sprint(u16)))
	ok = m.GetMetaSeqData(&bt)
	sb.WriteString(" seqdata=" + no(ok, hx(bt)))
	ok = m.GetMetaSMPTEOffsetMsg(&a, &b, &c, &d, &e)
	sb.WriteString(" smpte=" + no(ok, fmt.Sprintf("%d,%d,%d,%d,%d", a, b, c, d, e)))
	ok = m.GetMetaTimeSig(&a, &b, &c, &d)
	sb.WriteString(" timesig=" + no(ok, fmt.Sprintf("%d,%d,%d,%d", a, b, c, d)))
	ok = m.GetMetaMeter(&a, &b)
	sb.WriteString(" meter=" + no(ok, fmt.Sprintf("%d,%d", a, b)))
	ok = m.GetMetaKey(&k)
	sb.WriteString(" key=" + no(ok, c15ShowKey(k)))
	sb.WriteString(" keystr=" + no(ok, c15KeyStr(k)))
	ok = m.GetMetaTempo(&bpm)
	sb.WriteString(" tempo=" + no(ok, c15TempoField(bpm)))
	return sb.String()
}

// ---------- generator ----------

var c15Lens = []int{0, 1, 127, 128, 129, 16383, 16384, 20000}

func c15GenLen(r *Rng) int {
	switch r.Intn(10) {
	case 0:
		return r.Pick(c15Lens...)
	case 1:
		return r.Pick(126, 130, 255, 256, 16382, 16385, 19999)
	case 2, 3:
		return r.Range(0, 20000)
	case 4:
		return r.Range(100, 300)
	default:
		return r.Range(0, 40)
	}
}

func c15GenBytes(r *Rng, n int) []byte {
	d := r.Bytes(n)
	switch r.Intn(4) {
	case 0: // looks like more length bytes / another meta event
		for i := range d {
			d[i] = byte(r.Pick(0x80, 0x81, 0xFF, 0x7F, 0x00, 0x2F))
		}
	case 1: // printable
		for i := range d {
			d[i] = byte(r.Range(0x20, 0x7E))
		}
	}
	return d
}

func c15Gen(r *Rng, tier string, emit func(Case)) {
	thorough := tier == "thorough"
	// Cases inside the property's domain (judged by the oracle) are emitted before the correspondence-only
	// ones: the runner keeps the first 20 failures of either kind, and a run of mere model/implementation
	// differences outside the domain must not use up the slots before an oracle failure is reached.
	var outside []Case
	E := func(nt bool, op string, tags ...string) {
		if nt {
			emit(Case{Op: op, Tags: tags, NonTrivial: nt})
		} else {
			outside = append(outside, Case{Op: op, Tags: tags})
		}
	}
	defer func() {
		for _, c := range outside {
			emit(c)
		}
	}()
	lenTag := func(n int) string {
		switch {
		case n == 0:
			return "len=0"
		case n < 128:
			return "len<128"
		case n < 16384:
			return "len<16384"
		}
		return "len>=16384"
	}
	// --- length sweeps (deterministic fill, digests): every length in the thorough tier
	for n := 0; n <= 20000; n++ {
		near := n <= 400 || (n >= 16370 && n <= 16400) || n >= 19990
		if thorough || near || n%53 == r.Intn(53) {
			t := c15Texts[n%len(c15Texts)]
			E(true, fmt.Sprintf("meta.textfill %s %d %d %d", t.name, n, r.Intn(256), r.Intn(256)), "textfill", lenTag(n))
			if n >= 1 {
				E(true, fmt.Sprintf("meta.seqfill %d %d %d", n, r.Intn(256), r.Intn(256)), "seqfill", lenTag(n))
			}
		}
	}
	// --- texts: the listed lengths for every kind, random contents
	for _, t := range c15Texts {
		for _, n := range c15Lens {
			E(true, "meta.text "+t.name+" "+hx(c15GenBytes(r, n)), "text", lenTag(n))
		}
	}
	// texts that a "clean-up" would alter (byte order marks, blanks, NULs, invalid UTF-8, format verbs ...), every kind
	for _, t := range c15Texts {
		for _, sp := range specialTextVariants() {
			E(true, "meta.text "+t.name+" "+hx(sp), "text", "special-text")
		}
	}
	for _, sp := range specialTextVariants() {
		E(true, "meta.seqdata "+hx(sp), "seqdata", "special-text")
	}
	// histories: a failed read of a damaged long event first, then the round trip.  The cases that are failing
	// histories by themselves (long declared length, some bytes present, long payload afterwards) come first, so that
	// the first failure kept as the replay does not depend on what ran earlier in the process.
	for pass := 0; pass < 2; pass++ {
		for i, n := range []int{4097, 5000, 8192, 12000, 16384, 20000, 0, 1, 127, 128, 4095, 4096} {
			for j, declared := range []int{6000, 4097, 20000, 70000, 200, 4096} {
				for _, present := range []int{100, 1, declared / 2, declared - 1, 0} {
					self := n > 4096 && declared > 4096 && present > 0
					if self != (pass == 0) || present >= declared || !thorough && (i+j+present)%3 != 0 {
						continue
					}
					t := c15Texts[(i+j+present)%len(c15Texts)]
					E(true, fmt.Sprintf("meta.afterfail %s %d %d %d %d %d", t.name, n, r.Intn(256), r.Intn(255), declared, present), "afterfail", lenTag(n))
				}
			}
		}
	}
	nr := 400
	if thorough {
		nr = 6000
	}
	for i := 0; i < nr; i++ {
		n := c15GenLen(r)
		t := c15Texts[r.Intn(len(c15Texts))]
		E(true, "meta.text "+t.name+" "+hx(c15GenBytes(r, n)), "text", lenTag(n))
		n = c15GenLen(r)
		if n == 0 {
			n = 1
		}
		E(true, "meta.seqdata "+hx(c15GenBytes(r, n)), "seqdata", lenTag(n))
	}
	for _, n := range c15Lens[1:] {
		E(true, "meta.seqdata "+hx(c15GenBytes(r, n)), "seqdata", lenTag(n))
	}
	E(false, "meta.seqdata -", "seqdata-empty")
	// beyond the property's 20 000: the next sizes of the length field (3 and 4 bytes) and the 16-bit boundary
	for _, n := range []int{65535, 65536, 65537, 2097151, 2097152, 2097153} {
		if n > 70000 && !thorough && n != 2097152 {
			continue
		}
		E(true, fmt.Sprintf("meta.textfill %s %d %d %d", c15Texts[n%len(c15Texts)].name, n, r.Intn(256), 1+r.Intn(255)), "textfill", "len>20000")
		E(true, fmt.Sprintf("meta.seqfill %d %d %d", n, r.Intn(256), 1+r.Intn(255)), "seqfill", "len>20000")
	}
	// --- small numeric domains, exhaustively
	for c := 0; c < 256; c++ {
		E(true, fmt.Sprintf("meta.channel %d", c), "channel")
		E(true, fmt.Sprintf("meta.port %d", c), "port")
	}
	for n := 0; n < 65536; n++ {
		E(true, fmt.Sprintf("meta.seqno %d", n), "seqno")
	}
	grid := []int{0, 1, 23, 59, 127, 128, 255}
	for _, a := range grid {
		for _, b := range grid {
			for _, c := range grid {
				for _, d := range grid {
					E(true, fmt.Sprintf("meta.smpte %d %d %d %d %d", a, b, c, d, grid[(a+b+c+d)%len(grid)]), "smpte")
				}
			}
		}
	}
	ns := 2000
	if thorough {
		ns = 200000
	}
	for i := 0; i < ns; i++ {
		E(true, fmt.Sprintf("meta.smpte %d %d %d %d %d", r.Intn(256), r.Intn(256), r.Intn(256), r.Intn(256), r.Intn(256)), "smpte")
	}
	// --- time signature: every denominator byte, boundary numerators and clock fields; meter: everything
	pow2 := func(d int) bool { return d != 0 && d&(d-1) == 0 }
	tsTag := func(d, c, q int) (bool, []string) {
		tags := []string{"timesig"}
		if !pow2(d) {
			return false, append(tags, "denom-not-power-of-two")
		}
		if c == 0 || q == 0 {
			tags = append(tags, "clock-zero")
		}
		return true, tags
	}
	clocks := []int{0, 1, 8, 24, 255}
	for d := 0; d < 256; d++ {
		for _, n := range []int{0, 1, 4, 12, 255} {
			for _, c := range clocks {
				for _, q := range clocks {
					if !thorough && !pow2(d) && (c+q+n+d)%5 != 0 {
						continue
					}
					nt, tags := tsTag(d, c, q)
					E(nt, fmt.Sprintf("meta.timesig %d %d %d %d", n, d, c, q), tags...)
				}
			}
		}
	}
	nts := 4000
	if thorough {
		nts = 300000
	}
	for i := 0; i < nts; i++ {
		d := r.Intn(256)
		if r.Chance(2, 3) {
			d = 1 << r.Intn(8)
		}
		c, q := r.Intn(256), r.Intn(256)
		nt, tags := tsTag(d, c, q)
		E(nt, fmt.Sprintf("meta.timesig %d %d %d %d", r.Intn(256), d, c, q), tags...)
	}
	for n := 0; n < 256; n++ {
		for d := 0; d < 256; d++ {
			if !thorough && !pow2(d) && d > 3 && (n+d)%8 != 0 {
				continue
			}
			tag := "meter"
			if !pow2(d) {
				tag = "meter-denom-not-power-of-two"
			}
			E(pow2(d), fmt.Sprintf("meta.meter %d %d", n, d), tag)
		}
	}
	// --- key signatures: all tuples (the key argument is free), counts beyond 7 as correspondence only
	for _, k := range []int{0, 1, 2, 3, 4, 5, 6, 7, 8, 9, 10, 11, 255} {
		for maj := 0; maj < 2; maj++ {
			for fl := 0; fl < 2; fl++ {
				for n := 0; n < 256; n++ {
					if n > 7 && k != 0 && k != 255 {
						continue
					}
					tag := "key"
					if n > 7 {
						tag = "key-count>7"
					}
					E(n <= 7, fmt.Sprintf("meta.key %d %d %d %d", k, maj, n, fl), tag)
				}
			}
		}
	}
	for _, nk := range c15NamedKeys {
		E(true, "meta.named "+nk.name, "named")
	}
	// --- tempo: every boundary of the 24-bit field, half-way points, the ends of the range, log-uniform sweep
	T := func(bpm float64, tag string) {
		E(true, fmt.Sprintf("meta.tempo %016X", math.Float64bits(bpm)), "tempo", tag)
	}
	around := func(x float64, tag string) {
		T(x, tag)
		T(math.Nextafter(x, 0), tag)
		T(math.Nextafter(x, math.Inf(1)), tag)
	}
	us := []uint32{1, 2, 3, 4, 5, 126, 127, 128, 129, 254, 255, 256, 257, 258, 32767, 32768, 65534, 65535, 65536, 65537,
		65538, 500000, 8388607, 8388608, 16711679, 16711680, 16711681, 16777213, 16777214, 16777215}
	nu := 1500
	if thorough {
		nu = 150000
	}
	for i := 0; i < nu; i++ {
		switch r.Intn(3) {
		case 0:
			us = append(us, uint32(r.Range(1, 0xFFFFFF)))
		case 1: // byte boundaries x*256^k - 1, +0, +1
			v := r.Range(1, 255) << (8 * uint(r.Range(1, 2)))
			us = append(us, uint32(v+r.Range(-1, 1)))
		default:
			us = append(us, uint32(math.Exp(c15Float01(r)*math.Log(0xFFFFFF))))
		}
	}
	for _, u := range us {
		if u < 1 || u > 0xFFFFFF {
			continue
		}
		around(60000000/float64(u), "tempo-exact-field")
		if r.Chance(1, 2) || u < 300 || u > 16777000 {
			around(60000000/(float64(u)+0.5), "tempo-half-way")
			around(60000000/(float64(u)-0.5), "tempo-half-way")
		}
	}
	for _, b := range []float64{3.58, 3.5763, 3.57627889, 3.5762788, 3.6, 4, 60, 120, 120.5, 59999999, 6e7, 4e7, 4.0000001e7, 3.9999999e7, 2.4e7, 2.5e7} {
		around(b, "tempo-range-end")
	}
	nsweep := 4000
	if thorough {
		nsweep = 400000
	}
	lo, hi := math.Log(3.58), math.Log(6e7)
	for i := 0; i < nsweep; i++ {
		T(math.Exp(lo+(hi-lo)*(float64(i)+c15Float01(r))/float64(nsweep)), "tempo-sweep")
	}
	// outside the property's range (slower than the field can hold / faster than 1 µs): correspondence of the
	// clamp constants and of the 4-byte case only
	for _, b := range []float64{3.57, 3.5, 3, 2, 1, 0.5, 0.2235174, 0.2235175, 0.22, 0.1, 0.02, 0.014, 1.2e8, 1.1999e8, 1.3e8, 1e9} {
		E(false, fmt.Sprintf("meta.tempo %016X", math.Float64bits(b)), "tempo-outside-range")
	}
	// --- undefined meta + every accessor on arbitrary / damaged messages (correspondence only)
	nraw := 6000
	if thorough {
		nraw = 400000
	}
	typeBytes := []int{0x00, 0x01, 0x02, 0x03, 0x04, 0x05, 0x06, 0x07, 0x08, 0x09, 0x20, 0x21, 0x2F, 0x51, 0x54, 0x58, 0x59, 0x7F, 0x0A, 0x22, 0x60, 0x80, 0xFF}
	for i := 0; i < nraw; i++ {
		var m []byte
		switch r.Intn(6) {
		case 0: // constructor output, damaged
			m = c15RandomCtor(r)
			switch r.Intn(5) {
			case 0:
				if len(m) > 0 {
					m = m[:r.Intn(len(m))]
				}
			case 1:
				m = append(m, r.Bytes(r.Range(1, 3))...)
			case 2:
				if len(m) > 2 {
					m[2] = byte(r.Pick(0, 1, 2, 3, 4, 5, 0x7F, 0x80, 0x81, 0xFF))
				}
			case 3:
				if len(m) > 1 {
					m[1] = byte(r.Pick(typeBytes...))
				}
			default:
				if len(m) > 0 {
					m[r.Intn(len(m))] = r.Byte()
				}
			}
		case 1: // FF type + arbitrary tail
			m = append([]byte{0xFF, byte(r.Pick(typeBytes...))}, c15GenBytes(r, r.Range(0, 9))...)
		case 2: // FF type + declared length + payload of the wrong or right size
			n := r.Range(0, 8)
			ln := n + r.Range(-1, 1)
			if ln < 0 {
				ln = 0
			}
			m = append([]byte{0xFF, byte(r.Pick(typeBytes...))}, specVLQ(uint32(ln))...)
			m = append(m, r.Bytes(n)...)
		case 3: // non-canonical / long length fields
			m = []byte{0xFF, byte(r.Pick(typeBytes...))}
			for j := r.Range(0, 6); j > 0; j-- {
				m = append(m, byte(0x80|r.Intn(3)))
			}
			m = append(m, byte(r.Intn(6)))
			m = append(m, r.Bytes(r.Range(0, 6))...)
		case 4: // not a meta message at all
			m = append([]byte{byte(r.Pick(0x00, 0x7F, 0x80, 0x90, 0xB0, 0xC0, 0xE0, 0xF0, 0xF1, 0xF7, 0xF8, 0xFE))}, r.Bytes(r.Range(0, 7))...)
			if r.Chance(1, 10) {
				m = nil
			}
		default:
			E(false, fmt.Sprintf("meta.undef %d %s", r.Pick(typeBytes...), hx(c15GenBytes(r, c15GenLen(r)%400))), "undef")
			continue
		}
		E(false, "meta.get "+hx(m), "raw")
	}
}

func c15Float01(r *Rng) float64 { return float64(r.U64()>>11) / (1 << 53) }

func c15RandomCtor(r *Rng) []byte {
	var m smf.Message
	switch r.Intn(10) {
	case 0:
		m = c15Texts[r.Intn(len(c15Texts))].mk(string(c15GenBytes(r, r.Range(0, 200))))
	case 1:
		m = smf.MetaSequencerData(c15GenBytes(r, r.Range(0, 200)))
	case 2:
		m = smf.MetaChannel(r.Byte())
	case 3:
		m = smf.MetaPort(r.Byte())
	case 4:
		m = smf.MetaSequenceNo(uint16(r.U64()))
	case 5:
		m = smf.MetaSMPTE(r.Byte(), r.Byte(), r.Byte(), r.Byte(), r.Byte())
	case 6:
		m = smf.MetaTimeSig(r.Byte(), r.Byte(), r.Byte(), r.Byte())
	case 7:
		m = smf.MetaKey(r.Byte(), r.Bool(), uint8(r.Intn(9)), r.Bool())
	case 8:
		m = smf.MetaTempo(float64(r.Range(4, 1000)))
	default:
		m = smf.EOT
	}
	return append([]byte(nil), m...)
}

// ---------- run ----------

func c15Ints(toks []string) ([]int, bool) {
	out := make([]int, len(toks))
	for i, t := range toks {
		v, err := strconv.Atoi(t)
		if err != nil {
			return nil, false
		}
		out[i] = v
	}
	return out, true
}

func runC15(c Case, m *Model) (v Verdict) {
	v = runC15Op(c, m)
	if msg := retainCheck(); msg != "" {
		v.Oracle = append(v.Oracle, msg)
	}
	return
}

func runC15Op(c Case, m *Model) (v Verdict) {
	toks := strings.Fields(c.Op)
	if len(toks) == 0 {
		v.Mismatch = append(v.Mismatch, "empty op")
		return
	}
	oracle := func(format string, a ...interface{}) { v.Oracle = append(v.Oracle, short(fmt.Sprintf(format, a...))) }
	mism := func(format string, a ...interface{}) { v.Mismatch = append(v.Mismatch, short(fmt.Sprintf(format, a...))) }
	// wellFormed: FF / type / length / payload with the type byte of SMF 1.0 and the expected payload size
	wellFormed := func(msg []byte, typ byte, size int) {
		if len(msg) < 70000 {
			retain("a meta constructor", msg)
		}
		if len(msg) < 5000 {
			var np string
			if p := try(func() { np = smfNilSubsets(smf.Message(msg)) }); p != "" {
				np = "an accessor called with nil out parameters panics: " + p
			}
			if np != "" {
				oracle("%s (message % X)", np, c15Head(msg, 24))
			}
		}
		t, d, ok := specParseMeta(msg)
		if !ok || t != typ || len(d) != size {
			oracle("constructor output is not a well-formed FF %02X <len=%d> event: % X", typ, size, c15Head(msg, 24))
		}
	}
	// tie: constructor bytes and matching accessor result, model vs implementation
	tie := func(ans string, implM, implGet string) {
		f := fields(ans)
		if f["m"] != implM {
			mism("constructor bytes differ: model %s impl %s", f["m"], implM)
		}
		if g, has := f["get"]; has && g != implGet {
			mism("accessor result differs: model %s impl %s", g, implGet)
		}
		if ans == "bad-op" || ans == "model-died" {
			mism("model answered %s", ans)
		}
	}
	arg := toks[1:]
	switch toks[0] {
	case "meta.text", "meta.textfill":
		var t *c15Text
		for i := range c15Texts {
			if len(arg) > 0 && c15Texts[i].name == arg[0] {
				t = &c15Texts[i]
			}
		}
		if t == nil {
			mism("bad op")
			return
		}
		var d []byte
		dig := toks[0] == "meta.textfill"
		if dig {
			p, ok := c15Ints(arg[1:])
			if !ok || len(p) != 3 {
				mism("bad op")
				return
			}
			d = c15Fill(p[0], p[1], p[2])
		} else {
			d = unhx(arg[1])
		}
		var msg smf.Message
		var got string
		var ok bool
		if p := try(func() { msg = t.mk(string(d)); ok = t.get(msg, &got) }); p != "" {
			oracle("panic: %s", p)
			return
		}
		wellFormed(msg, t.typ, len(d))
		if len(d) < 70000 {
			pre := strings.Repeat("x", len(d)+3)
			var ok2 bool
			if p := try(func() { ok2 = t.get(msg, &pre) }); p != "" || !ok2 || pre != string(d) {
				oracle("Meta<%s>(%d bytes) read into a variable that held a longer text before: panic %q ok=%v, %d bytes", t.name, len(d), p, ok2, len(pre))
			}
		}
		if !ok || got != string(d) {
			oracle("Meta<%s>(%d bytes) read back by its accessor: ok=%v, %d bytes, first difference at %d", t.name, len(d), ok, len(got), c15FirstDiff([]byte(got), d))
		}
		// no other text accessor accepts the message
		for i := range c15Texts {
			var s string
			if c15Texts[i].name != t.name && c15Texts[i].get(msg, &s) {
				oracle("accessor %s accepts a %s message", c15Texts[i].name, t.name)
			}
		}
		g := "no"
		if ok {
			g = hx([]byte(got))
			if dig {
				g = c15Digest([]byte(got))
			}
		}
		if dig {
			tie(m.Ask(c.Op), c15Digest(msg), g)
		} else {
			tie(m.Ask(c.Op), hx(msg), g)
		}
	case "meta.afterfail":
		// history: accessors that fail on a damaged (truncated) long event, then a round trip of a long payload
		var t *c15Text
		for i := range c15Texts {
			if len(arg) > 0 && c15Texts[i].name == arg[0] {
				t = &c15Texts[i]
			}
		}
		p, okp := c15Ints(arg[1:])
		if t == nil || !okp || len(p) != 5 {
			mism("bad op")
			return
		}
		n, declared, present := p[0], p[3], p[4]
		d := c15Fill(n, p[1], p[2])
		junk := c15Fill(present, p[2]+1, p[1]+1)
		for _, typ := range []byte{t.typ, 0x7F} {
			bad := append(append([]byte{0xFF, typ}, specVLQ(uint32(declared))...), junk...)
			if pn := try(func() {
				var s string
				var b []byte
				t.get(smf.Message(bad), &s)
				smf.Message(bad).GetMetaSeqData(&b)
			}); pn != "" {
				oracle("panic on a truncated event: %s", pn)
				return
			}
		}
		var msg, msg2 smf.Message
		var got string
		var got2 []byte
		var ok, ok2 bool
		if pn := try(func() {
			msg = t.mk(string(d))
			ok = t.get(msg, &got)
			msg2 = smf.MetaSequencerData(d)
			ok2 = msg2.GetMetaSeqData(&got2)
		}); pn != "" {
			oracle("panic: %s", pn)
			return
		}
		if !ok || got != string(d) {
			oracle("after accessors failed on a truncated event (declared %d, %d present): Meta<%s>(%d bytes) read back by its accessor: ok=%v, %d bytes, first difference at %d", declared, present, t.name, len(d), ok, len(got), c15FirstDiff([]byte(got), d))
		}
		if n > 0 && (!ok2 || !bytes.Equal(got2, d)) {
			oracle("after accessors failed on a truncated event (declared %d, %d present): MetaSequencerData(%d bytes) read back: ok=%v, %d bytes, first difference at %d", declared, present, len(d), ok2, len(got2), c15FirstDiff(got2, d))
		}
	case "meta.seqdata", "meta.seqfill":
		var d []byte
		dig := toks[0] == "meta.seqfill"
		if dig {
			p, ok := c15Ints(arg)
			if !ok || len(p) != 3 {
				mism("bad op")
				return
			}
			d = c15Fill(p[0], p[1], p[2])
		} else {
			d = unhx(arg[0])
		}
		var msg smf.Message
		var got []byte
		var ok bool
		if p := try(func() { msg = smf.MetaSequencerData(d); ok = msg.GetMetaSeqData(&got) }); p != "" {
			oracle("panic: %s", p)
			return
		}
		wellFormed(msg, 0x7F, len(d))
		if len(d) > 0 && (!ok || !bytes.Equal(got, d)) {
			oracle("MetaSequencerData(%d bytes) read back: ok=%v, %d bytes, first difference at %d", len(d), ok, len(got), c15FirstDiff(got, d))
		}
		// the caller's variable already holds something (longer, equally long, shorter, spare capacity): the result is the payload all the same
		if len(d) > 0 && len(d) < 70000 {
			for _, pre := range [][]byte{bytes.Repeat([]byte{0xEE}, len(d)+5), bytes.Repeat([]byte{0xEE}, len(d)), bytes.Repeat([]byte{0xEE}, len(d)/2), make([]byte, 0, len(d)+9)} {
				out := pre
				var ok2 bool
				if p := try(func() { ok2 = msg.GetMetaSeqData(&out) }); p != "" {
					oracle("panic with a used out variable: %s", p)
					break
				}
				if !ok2 || !bytes.Equal(out, d) {
					oracle("MetaSequencerData(%d bytes) read into a variable that held %d bytes (cap %d) before: ok=%v, %d bytes, first difference at %d", len(d), len(pre), cap(pre), ok2, len(out), c15FirstDiff(out, d))
					break
				}
			}
		}
		g := "no"
		if ok {
			g = hx(got)
			if dig {
				g = c15Digest(got)
			}
		}
		if dig {
			tie(m.Ask(c.Op), c15Digest(msg), g)
		} else {
			tie(m.Ask(c.Op), hx(msg), g)
		}
	case "meta.undef":
		p, ok := c15Ints(arg[:1])
		if !ok {
			mism("bad op")
			return
		}
		d := unhx(arg[1])
		var msg smf.Message
		if p := try(func() { msg = smf.MetaUndefined(byte(p[0]), d) }); p != "" {
			oracle("panic: %s", p)
			return
		}
		wellFormed(msg, byte(p[0]), len(d))
		tie(m.Ask(c.Op), hx(msg), "")
	case "meta.channel", "meta.port", "meta.seqno", "meta.smpte", "meta.timesig", "meta.meter", "meta.key":
		p, ok := c15Ints(arg)
		if !ok {
			mism("bad op")
			return
		}
		var msg smf.Message
		var got, want string
		var typ byte
		var size int
		check := true
		if pn := try(func() {
			var a, b, cc, d, e uint8
			var u16 uint16
			var k smf.Key
			var gok bool
			switch toks[0] {
			case "meta.channel":
				msg = smf.MetaChannel(uint8(p[0]))
				gok = msg.GetMetaChannel(&a)
				got, want, typ, size = fmt.Sprint(a), fmt.Sprint(p[0]), 0x20, 1
			case "meta.port":
				msg = smf.MetaPort(uint8(p[0]))
				gok = msg.GetMetaPort(&a)
				got, want, typ, size = fmt.Sprint(a), fmt.Sprint(p[0]), 0x21, 1
			case "meta.seqno":
				msg = smf.MetaSequenceNo(uint16(p[0]))
				gok = msg.GetMetaSeqNumber(&u16)
				got, want, typ, size = fmt.Sprint(u16), fmt.Sprint(p[0]), 0x00, 2
			case "meta.smpte":
				msg = smf.MetaSMPTE(uint8(p[0]), uint8(p[1]), uint8(p[2]), uint8(p[3]), uint8(p[4]))
				gok = msg.GetMetaSMPTEOffsetMsg(&a, &b, &cc, &d, &e)
				got = fmt.Sprintf("%d,%d,%d,%d,%d", a, b, cc, d, e)
				want, typ, size = fmt.Sprintf("%d,%d,%d,%d,%d", p[0], p[1], p[2], p[3], p[4]), 0x54, 5
			case "meta.timesig":
				msg = smf.MetaTimeSig(uint8(p[0]), uint8(p[1]), uint8(p[2]), uint8(p[3]))
				gok = msg.GetMetaTimeSig(&a, &b, &cc, &d)
				got = fmt.Sprintf("%d,%d,%d,%d", a, b, cc, d)
				z8 := func(x int) int { // zero is documented shorthand for 8
					if x == 0 {
						return 8
					}
					return x
				}
				want, typ, size = fmt.Sprintf("%d,%d,%d,%d", p[0], p[1], z8(p[2]), z8(p[3])), 0x58, 4
				check = c.NonTrivial // denominators that are no power of two are not claimed
				if check && len(msg) == 7 && 1<<msg[4] != p[1] {
					v.Oracle = append(v.Oracle, fmt.Sprintf("time signature denominator %d stored as exponent %d", p[1], msg[4]))
				}
			case "meta.meter":
				msg = smf.MetaMeter(uint8(p[0]), uint8(p[1]))
				gok = msg.GetMetaMeter(&a, &b)
				got = fmt.Sprintf("%d,%d", a, b)
				want, typ, size = fmt.Sprintf("%d,%d", p[0], p[1]), 0x58, 4
				check = c.NonTrivial
			case "meta.key":
				msg = smf.MetaKey(uint8(p[0]), p[1] == 1, uint8(p[2]), p[3] == 1)
				gok = msg.GetMetaKey(&k)
				got = c15ShowKey(k)
				typ, size = 0x59, 2
				check = p[2] <= 7
				if check {
					note := c15Circle[[2]bool{p[1] == 1, p[3] == 1}][p[2]]
					want = fmt.Sprintf("%d,%d,%d,%s", c15PitchClass(note), p[2], p[1], c15b01(p[3] == 1 && p[2] != 0))
				}
			}
			if !gok {
				got = "no"
			}
		}); pn != "" {
			oracle("panic: %s", pn)
			return
		}
		wellFormed(msg, typ, size)
		if check && got != want {
			oracle("%s: accessor returns %s, expected %s (message % X)", c.Op, got, want, []byte(msg))
		}
		ans := m.Ask(c.Op)
		tie(ans, hx(msg), got)
		if toks[0] == "meta.key" && check {
			if sp := fields(ans)["spec"]; sp != strings.Split(want, ",")[0] {
				mism("circle of fifths of the Lean side says tonic %s, the harness table %s", sp, want)
			}
		}
	case "meta.named":
		var nk *c15Named
		for i := range c15NamedKeys {
			if len(arg) == 1 && c15NamedKeys[i].name == arg[0] {
				nk = &c15NamedKeys[i]
			}
		}
		if nk == nil {
			mism("bad op")
			return
		}
		var msg smf.Message
		var k smf.Key
		var ok bool
		if p := try(func() { msg = nk.f(); ok = msg.GetMetaKey(&k) }); p != "" {
			oracle("panic: %s", p)
			return
		}
		wellFormed(msg, 0x59, 2)
		want, _ := c15KeyOfName(nk.name)
		if !ok || k != want {
			oracle("%s() is read back as %s (ok=%v), the key of that name is %s", nk.name, c15ShowKey(k), ok, c15ShowKey(want))
		}
		if ok && k.String() != nk.name {
			oracle("%s() is read back as a key that calls itself %q", nk.name, k.String())
		}
		g := "no"
		if ok {
			g = c15ShowKey(k)
		}
		ans := m.Ask(c.Op)
		tie(ans, hx(msg), g)
		f := fields(ans)
		if ok && f["str"] != c15KeyStr(k) {
			mism("Key.String differs: model %s impl %s", f["str"], c15KeyStr(k))
		}
		if f["spec"] != c15ShowKey(want) {
			mism("key of the name: Lean side %s, harness table %s", f["spec"], c15ShowKey(want))
		}
	case "meta.tempo":
		bits, err := strconv.ParseUint(arg[0], 16, 64)
		if err != nil {
			mism("bad op")
			return
		}
		runC15Tempo(c, m, math.Float64frombits(bits), &v)
	case "meta.get":
		msg := smf.Message(unhx(arg[0]))
		var all string
		if p := try(func() { all = c15All(msg) }); p != "" {
			all = "panic"
			v.Tags = append(v.Tags, "raw-panic")
		}
		if ans := m.Ask(c.Op); ans != all {
			mism("accessors on % X: model %s impl %s", c15Head(msg, 24), ans, all)
		}
		for _, kv := range strings.Fields(all) {
			if i := strings.Index(kv, "="); i > 0 && !strings.HasSuffix(kv, "=no") {
				v.Tags = append(v.Tags, "raw-accepted:"+kv[:i])
			}
		}
	default:
		mism("unknown op")
	}
	return
}

// runC15Tempo: float glue of MetaTempo / GetMetaTempo around the integer field (differential support).
func runC15Tempo(c Case, m *Model, bpm float64, v *Verdict) {
	oracle := func(format string, a ...interface{}) { v.Oracle = append(v.Oracle, short(fmt.Sprintf(format, a...))) }
	mism := func(format string, a ...interface{}) { v.Mismatch = append(v.Mismatch, short(fmt.Sprintf(format, a...))) }
	if !(bpm > 0) || math.IsInf(bpm, 0) {
		mism("bad op")
		return
	}
	exact := new(big.Rat).SetFloat64(bpm) // bpm = p/q exactly
	// q := 60000000 / bpm (exact), r := round half up
	quo := new(big.Rat).Quo(big.NewRat(60000000, 1), exact)
	r := new(big.Int).Div(
		new(big.Int).Add(new(big.Int).Mul(big.NewInt(2), quo.Num()), quo.Denom()),
		new(big.Int).Mul(big.NewInt(2), quo.Denom()))
	if r.BitLen() > 32 {
		mism("bad op")
		return
	}
	inRange := r.Cmp(big.NewInt(1)) >= 0 && r.Cmp(big.NewInt(0xFFFFFF)) <= 0
	var msg smf.Message
	var back float64
	var ok bool
	if p := try(func() { msg = smf.MetaTempo(bpm); ok = msg.GetMetaTempo(&back) }); p != "" {
		oracle("panic: %s", p)
		return
	}
	ans := m.Ask("meta.temporat " + exact.Num().String() + " " + exact.Denom().String())
	f := fields(ans)
	if f["r"] != r.String() {
		mism("rounding of 60000000/bpm: Lean %s, big.Rat %s", f["r"], r)
	}
	closeCall := false
	if inRange {
		typ, d, wf := specParseMeta(msg)
		if !wf || typ != 0x51 || len(d) != 3 {
			oracle("MetaTempo(%v) is not a well-formed FF 51 03 event: % X", bpm, []byte(msg))
			return
		}
		u := int64(d[0])<<16 | int64(d[1])<<8 | int64(d[2])
		// |60000000/bpm - u| <= 1/2 (+ 2^-20 for the float division in the constructor)
		diff := new(big.Rat).Sub(quo, big.NewRat(u, 1))
		diff.Abs(diff)
		if diff.Cmp(new(big.Rat).Add(big.NewRat(1, 2), big.NewRat(1, 1<<20))) > 0 {
			oracle("MetaTempo(%v) stores %d µs per quarter note, 60000000/bpm = %s", bpm, u, quo.FloatString(6))
		}
		closeCall = diff.Cmp(new(big.Rat).Sub(big.NewRat(1, 2), big.NewRat(1, 1<<20))) > 0
		if closeCall {
			v.Tags = append(v.Tags, "tempo-within-2^-20-of-half")
		}
		if !ok || u == 0 {
			oracle("GetMetaTempo rejects MetaTempo(%v) = % X", bpm, []byte(msg))
			return
		}
		// accessor: 60000000/u within one ulp
		want := big.NewRat(60000000, u)
		if math.IsNaN(back) || math.IsInf(back, 0) {
			oracle("GetMetaTempo(MetaTempo(%v)) = %v", bpm, back)
			return
		}
		e := new(big.Rat).Sub(new(big.Rat).SetFloat64(back), want)
		e.Abs(e)
		if e.Cmp(new(big.Rat).Mul(want, big.NewRat(1, 1<<52))) > 0 {
			oracle("GetMetaTempo returns %v for the field %d, 60000000/%d = %s", back, u, u, want.FloatString(9))
		}
		// round trip within the resolution of the field: the two tempi differ by at most half a microsecond per quarter
		rt := new(big.Rat).Sub(new(big.Rat).Quo(big.NewRat(60000000, 1), new(big.Rat).SetFloat64(back)), quo)
		rt.Abs(rt)
		if rt.Cmp(new(big.Rat).Add(big.NewRat(1, 2), big.NewRat(1, 1<<19))) > 0 {
			oracle("MetaTempo(%v) reads back as %v: more than half a microsecond per quarter note apart", bpm, back)
		}
	}
	if f["m"] != hx(msg) {
		if closeCall {
			v.Tags = append(v.Tags, "tempo-float-rounding-differs")
		} else {
			mism("constructor bytes differ: model %s impl %s (r=%s)", f["m"], hx(msg), r)
		}
	} else {
		g := "no"
		if ok {
			g = c15TempoField(back)
		}
		if f["get"] != g {
			mism("tempo field differs: model %s impl %s", f["get"], g)
		}
	}
}

func c15Head(b []byte, n int) []byte {
	if len(b) > n {
		return b[:n]
	}
	return b
}

func c15FirstDiff(a, b []byte) int {
	for i := 0; i < len(a) && i < len(b); i++ {
		if a[i] != b[i] {
			return i
		}
	}
	if len(a) != len(b) {
		if len(a) < len(b) {
			return len(a)
		}
		return len(b)
	}
	return -1
}

// ---------- facts ----------

func c15Facts(w io.Writer) {
	fmt.Fprintln(w, "/-- C15: `int(smf.Message{0xFF, b, 0}.Type())` for b = 0..255 (the `metaMessages` table as compiled) -/")
	fmt.Fprint(w, "def c15MetaTypes : List Int := [")
	for b := 0; b < 256; b++ {
		if b > 0 {
			fmt.Fprint(w, ", ")
		}
		fmt.Fprintf(w, "(%d)", int(smf.Message{0xFF, byte(b), 0}.Type()))
	}
	fmt.Fprintln(w, "]")
	max := -1000
	for b := 0; b < 255; b++ {
		for _, l := range []int{1, 2, 3} {
			msg := make(smf.Message, l)
			msg[0] = byte(b)
			if t := int(msg.Type()); t > max {
				max = t
			}
		}
	}
	if t := int(smf.Message{}.Type()); t > max {
		max = t
	}
	if t := int(smf.Message{0xFF}.Type()); t > max {
		max = t
	}
	fmt.Fprintln(w, "/-- C15: largest type number of a message that does not start with `FF t` (all below the first meta type 70) -/")
	fmt.Fprintf(w, "def c15NonMetaTypeMax : Int := (%d)\n", max)
	fmt.Fprintln(w, "/-- C15: numeric values of the exported meta type constants -/")
	fmt.Fprint(w, "def c15TypeConsts : List (String × Int) := [")
	consts := []struct {
		n string
		v int
	}{{"MetaChannelMsg", int(smf.MetaChannelMsg)}, {"MetaCopyrightMsg", int(smf.MetaCopyrightMsg)}, {"MetaCuepointMsg", int(smf.MetaCuepointMsg)},
		{"MetaDeviceMsg", int(smf.MetaDeviceMsg)}, {"MetaEndOfTrackMsg", int(smf.MetaEndOfTrackMsg)}, {"MetaInstrumentMsg", int(smf.MetaInstrumentMsg)},
		{"MetaKeySigMsg", int(smf.MetaKeySigMsg)}, {"MetaLyricMsg", int(smf.MetaLyricMsg)}, {"MetaTextMsg", int(smf.MetaTextMsg)},
		{"MetaMarkerMsg", int(smf.MetaMarkerMsg)}, {"MetaPortMsg", int(smf.MetaPortMsg)}, {"MetaSeqNumberMsg", int(smf.MetaSeqNumberMsg)},
		{"MetaSeqDataMsg", int(smf.MetaSeqDataMsg)}, {"MetaTempoMsg", int(smf.MetaTempoMsg)}, {"MetaTimeSigMsg", int(smf.MetaTimeSigMsg)},
		{"MetaTrackNameMsg", int(smf.MetaTrackNameMsg)}, {"MetaSMPTEOffsetMsg", int(smf.MetaSMPTEOffsetMsg)},
		{"MetaUndefinedMsg", int(smf.MetaUndefinedMsg)}, {"MetaProgramNameMsg", int(smf.MetaProgramNameMsg)}}
	for i, c := range consts {
		if i > 0 {
			fmt.Fprint(w, ", ")
		}
		fmt.Fprintf(w, "(%q, (%d))", c.n, c.v)
	}
	fmt.Fprintln(w, "]")
	fmt.Fprintln(w, "/-- C15: the 26 named key constructors: name, bytes of the message, `Key.String()` of what `GetMetaKey` reads back -/")
	fmt.Fprint(w, "def c15NamedKeys : List (String × List Nat × String) := [")
	for i, nk := range c15NamedKeys {
		if i > 0 {
			fmt.Fprint(w, ",\n  ")
		}
		var msg smf.Message
		str := "?"
		try(func() {
			msg = nk.f()
			var k smf.Key
			if msg.GetMetaKey(&k) {
				str = k.String()
			}
		})
		bs := make([]string, len(msg))
		for j, b := range msg {
			bs[j] = strconv.Itoa(int(b))
		}
		fmt.Fprintf(w, "(%q, [%s], %q)", nk.name, strings.Join(bs, ", "), c15LeanSafe(str))
	}
	fmt.Fprintln(w, "]")
}

// c15LeanSafe keeps a string printable inside a Lean string literal.
func c15LeanSafe(s string) string {
	var sb strings.Builder
	for _, r := range s {
		if r >= 0x20 && r < 0x7F && r != '"' && r != '\\' {
			sb.WriteRune(r)
		} else {
			sb.WriteByte('?')
		}
	}
	return sb.String()
}

func init() {
	factWriters = append(factWriters, c15Facts)
	register(&Prop{
		ID: "C15",
		Rule: "every meta constructor applied to generated arguments and read back by its accessor: texts (9 kinds) and sequencer data at " +
			"lengths 0,1,127,128,129,16383,16384,20000 + random lengths/contents + length sweeps with a deterministic fill; all 256 channels/ports, " +
			"all 65536 sequence numbers, SMPTE grids, all 256 denominator bytes x boundary numerators/clock fields, all (key arg, mode, count 0..255, flat) " +
			"tuples, all 26 named constructors, tempo sweep 3.58..6e7 BPM with every byte boundary and half-way point of the 24-bit field; plus every accessor on damaged / " +
			"arbitrary messages (correspondence only). non-trivial = arguments inside the property's domain (non-empty sequencer data, power-of-two " +
			"denominator, count <= 7, tempo whose field is 1..0xFFFFFF); distinct by op text",
		Gen: c15Gen,
		Run: runC15,
	})
}
