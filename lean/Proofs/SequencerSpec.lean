import MidiModel.Sequencer
/-!
# C20 — what the property text says, as definitions that are *not* the model of the code

Unbounded arithmetic, no sorting, no deltas: bar lengths `num·32/den` thirty-second notes, bars laid end
to end, every event at its bar start plus its position, a note-off after the duration, a time-signature
event wherever the signature differs from the one before (4/4 before the first bar).
`timeline` turns an exported track (deltas) into absolute ticks; it is how the theorems observe a track.
-/
namespace Midi.Sequencer
open Midi Midi.Smf

/-! ## Observation of an exported track -/

/-- absolute tick and message of every event of a track (`acc` = tick before the first event) -/
def timeline : Nat → Track → List (Nat × Msg)
  | _, [] => []
  | acc, e :: r => (acc + e.delta, e.msg) :: timeline (acc + e.delta) r

/-- the messages the property speaks about -/
def isMeter (x : Nat × Msg) : Bool :=
  match x.2 with
  | a :: b :: _ => a == 0xFF && b == 0x58
  | _ => false

/-- channel messages (and the sysex messages an `Event` may also carry): first byte is not `0xFF` -/
def isEvent (x : Nat × Msg) : Bool :=
  match x.2 with
  | a :: _ => isChanStatus a || a == 0xF0 || a == 0xF7
  | _ => false

def isEOT (x : Nat × Msg) : Bool := x.2 == EOT

/-! ## Layout -/

/-- length of a bar in thirty-second notes -/
def len32 (b : Bar) : Nat := b.num * 32 / b.den

/-- every bar with the tick it starts at: each starts where the previous one ends -/
def laid (t : Nat) : Nat → List Bar → List (Nat × Bar)
  | _, [] => []
  | st, b :: r => (st, b) :: laid t (st + len32 b * t) r

/-- the tick at which the last bar ends -/
def endOf (t : Nat) : Nat → List Bar → Nat
  | st, [] => st
  | st, b :: r => endOf t (st + len32 b * t) r

/-- ticks of a thirty-second note for a resolution divisible by 8 (0 = the default 960) -/
def tq (s : Song) : Nat := (if s.ticks = 0 then 960 else s.ticks) / 8

def songEnd (s : Song) : Nat := endOf (tq s) 0 s.bars

/-! ## Events -/

/-- what one event contributes: itself at bar start + position, and for a note (note-on with a
    velocity, duration > 0) the note-off after the duration -/
def evSpec (t st : Nat) (e : Event) : List TEv :=
  ⟨st + e.pos * t, 0, e.msg, e.trackNo⟩ ::
    (match noteStart e.msg with
     | some (ch, key) => if e.dur = 0 then [] else [⟨st + (e.pos + e.dur) * t, 0, noteOffMsg ch key, e.trackNo⟩]
     | none => [])

def specEvents (t : Nat) (placed : List (Nat × Bar)) : List TEv :=
  placed.flatMap (fun sb => sb.2.events.flatMap (evSpec t sb.1))

/-- (tick, message) -/
def tm (e : TEv) : Nat × Msg := (e.abs, e.msg)

/-- (tick, track number, message): a `TrackEvent` without the scratch field `Delta` -/
def key (e : TEv) : Nat × Nat × Msg := (e.abs, e.trackNo, e.msg)

/-! ## Time signatures -/

/-- `FF 58 04 nn dd 08 08` with `dd = log2 den` -/
def meterBytes (num den : Nat) : Msg :=
  [0xFF, 0x58, 4, num,
   (if den = 1 then 0 else if den = 2 then 1 else if den = 4 then 2 else if den = 8 then 3
    else if den = 16 then 4 else 5), 8, 8]

/-- a time-signature event at the start of every bar whose signature differs from the previous one -/
def sigChanges : Nat × Nat → List (Nat × Bar) → List (Nat × Msg)
  | _, [] => []
  | prev, (st, b) :: r =>
    if (b.num, b.den) = prev then sigChanges prev r
    else (st, meterBytes b.num b.den) :: sigChanges (b.num, b.den) r

/-! ## Domain -/

/-- numerators 1..24 over 1, 2, 4, 8, 16, 32, the bar not longer than 255 thirty-seconds -/
def SigOK (b : Bar) : Prop :=
  1 ≤ b.num ∧ b.num ≤ 24 ∧
  (b.den = 1 ∨ b.den = 2 ∨ b.den = 4 ∨ b.den = 8 ∨ b.den = 16 ∨ b.den = 32) ∧ b.num * 32 / b.den ≤ 255

/-- channel message (or sysex): the first byte is a channel status, `F0` or `F7` -/
def MsgOK (m : Msg) : Prop := ∃ s r, m = s :: r ∧ (isChanStatus s = true ∨ s = 0xF0 ∨ s = 0xF7)

/-- in-bar position, `uint8` duration, channel message -/
def EventOK (b : Bar) (e : Event) : Prop := e.pos < len32 b ∧ e.dur < 256 ∧ MsgOK e.msg

/-- every note ends within the song -/
def NotesEnd (t total : Nat) (placed : List (Nat × Bar)) : Prop :=
  ∀ sb ∈ placed, ∀ e ∈ sb.2.events, (noteStart e.msg).isSome = true → sb.1 + (e.pos + e.dur) * t ≤ total

structure Dom (s : Song) : Prop where
  res : s.ticks < 65536 ∧ s.ticks % 8 = 0
  sigs : ∀ b ∈ s.bars, SigOK b
  evs : ∀ b ∈ s.bars, ∀ e ∈ b.events, EventOK b e
  notes : NotesEnd (tq s) (songEnd s) (laid (tq s) 0 s.bars)
  /-- the song is shorter than 2^32 ticks (deltas are `uint32`) -/
  fits : songEnd s < 4294967296

/-- the track numbers that carry an event, ascending, without duplicates -/
def usedTracks (s : Song) : List Nat := trackNos (specEvents (tq s) (laid (tq s) 0 s.bars))

/-- the time-signature events the property prescribes -/
def specSigs (s : Song) : List (Nat × Msg) := sigChanges (4, 4) (laid (tq s) 0 s.bars)

/-- the events and note-offs the property prescribes, (tick, message), all tracks -/
def specAll (s : Song) : List (Nat × Msg) := (specEvents (tq s) (laid (tq s) 0 s.bars)).map tm

/-- … and those of track number `n` -/
def specOn (s : Song) (n : Nat) : List (Nat × Msg) :=
  ((specEvents (tq s) (laid (tq s) 0 s.bars)).filter (fun e => e.trackNo = n)).map tm

/-- what is assumed of `sort.Sort`: a permutation in non-decreasing tick order -/
def SortSpec (srt : List TEv → List TEv) : Prop :=
  ∀ l, (srt l).Perm l ∧ (srt l).Pairwise (fun a b => a.abs ≤ b.abs)

theorem tickSort_spec : SortSpec tickSort := by
  intro l
  refine ⟨List.mergeSort_perm _ _, ?_⟩
  have := List.pairwise_mergeSort (le := fun (a b : TEv) => decide (a.abs ≤ b.abs))
    (by intro a b c h1 h2; simp only [decide_eq_true_eq] at *; omega)
    (by intro a b; simp only [Bool.or_eq_true, decide_eq_true_eq]; omega) l
  simpa [tickSort] using this

end Midi.Sequencer
