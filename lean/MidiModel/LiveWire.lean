import MidiModel.Live
/-!
# The MIDI 1.0 wire as a sender sees it (specification side of C04 / C06)

This file does **not** model code of the library. It says what is put on a MIDI cable and what a
listener must receive. A sender emits a sequence of `Item`s:

* a channel voice message (status `0x80..0xEF`, one or two data bytes; the status byte may be
  omitted = *running status*, legal only directly after a channel message with the same status
  with nothing but real-time bytes in between),
* a system common message (`F1 d`, `F2 d d`, `F3 d`, `F6`),
* a system exclusive message `F0 data… F7`,
* a single real-time byte (`0xF8..0xFF`) between messages,
* a clock tick: the transport hands over what it has so far and the next bytes arrive `Δ` later
  (a new `Send` / `EachMessage` call). A tick is not a byte; "how the stream is cut into chunks"
  is the position of the ticks.

Real-time bytes and ticks may also sit in every gap *inside* a message: each data byte (and the
closing `F7`) carries the `Gap` that precedes it.

`wireToks` is the token stream a receiver sees, `wire` its bytes; `expected` the messages a listener
must be handed, in order of completion (the real-time bytes of the gaps are complete before the
message that surrounds them), each with the clock value at which its last byte arrived (sysex: its
first byte).
-/
namespace Midi.LiveWire
open Midi.Live

/-- what may sit in a gap: real-time bytes (`Tok.byte b`, `0xF8 ≤ b`) and clock ticks -/
abbrev Gap := List Tok

/-- data bytes of a message, each with the gap that precedes it -/
abbrev Body := List (Gap × Nat)

inductive Item
  | rt (b : Nat)
  | tick (d : Int)
  | chan (status : Nat) (elide : Bool) (body : Body)
  | sysc (status : Nat) (body : Body)
  | sysex (body : Body) (last : Gap)       -- `F0`, body, gap, `F7`
deriving Repr, DecidableEq

/-! ## what is on the cable -/

def bodyToks : Body → List Tok
  | [] => []
  | (g, d) :: r => g ++ .byte d :: bodyToks r

def Item.toks : Item → List Tok
  | .rt b => [.byte b]
  | .tick d => [.tick d]
  | .chan st e body => (if e then [] else [.byte st]) ++ bodyToks body
  | .sysc st body => .byte st :: bodyToks body
  | .sysex body last => .byte 0xF0 :: (bodyToks body ++ (last ++ [.byte 0xF7]))

def wireToks : List Item → List Tok
  | [] => []
  | it :: r => it.toks ++ wireToks r

/-- the bytes of a token stream (ticks removed) -/
def bytesOf : List Tok → Bytes
  | [] => []
  | .byte b :: r => b :: bytesOf r
  | .tick _ :: r => bytesOf r

/-- the clock after a token stream (sum of its ticks) -/
def tickSum : List Tok → Int
  | [] => 0
  | .byte _ :: r => tickSum r
  | .tick d :: r => d + tickSum r

/-- the same bytes delivered in one go at time 0 -/
def untick (toks : List Tok) : List Tok := (bytesOf toks).map .byte

/-- the bytes on the cable -/
def wire (items : List Item) : Bytes := bytesOf (wireToks items)

/-! ## what the listener must receive -/

abbrev Stamped := Bytes × Int

/-- the real-time bytes of a gap, each stamped with the clock at its arrival (`t` = clock at the start) -/
def gapMsgs (t : Int) : Gap → List Stamped
  | [] => []
  | .byte b :: g => ([b], t) :: gapMsgs t g
  | .tick d :: g => gapMsgs (t + d) g

def bodyMsgs (t : Int) : Body → List Stamped
  | [] => []
  | (g, _) :: r => gapMsgs t g ++ bodyMsgs (t + tickSum g) r

def bodyTime : Body → Int
  | [] => 0
  | (g, _) :: r => tickSum g + bodyTime r

def bodyData (b : Body) : Bytes := b.map (·.2)

/-- time that passes while the item is on the wire -/
def Item.time : Item → Int
  | .rt _ => 0
  | .tick d => d
  | .chan _ _ body => bodyTime body
  | .sysc _ body => bodyTime body
  | .sysex body last => bodyTime body + tickSum last

/-- the messages completed by an item that starts at clock `t`, in order of completion -/
def Item.msgs (t : Int) : Item → List Stamped
  | .rt b => [([b], t)]
  | .tick _ => []
  | .chan st _ body => bodyMsgs t body ++ [(st :: bodyData body, t + bodyTime body)]
  | .sysc st body => bodyMsgs t body ++ [(st :: bodyData body, t + bodyTime body)]
  | .sysex body last =>
    bodyMsgs t body ++ (gapMsgs (t + bodyTime body) last ++ [(0xF0 :: (bodyData body ++ [0xF7]), t)])

/-- the message an item stands for (`none`: a tick is not a message) -/
def Item.message : Item → Option Bytes
  | .rt b => some [b]
  | .tick _ => none
  | .chan st _ body => some (st :: bodyData body)
  | .sysc st body => some (st :: bodyData body)
  | .sysex body _ => some (0xF0 :: (bodyData body ++ [0xF7]))

/-- the real-time bytes that sit inside an item (in its gaps), stamped; `t` = clock at the start of the item -/
def Item.inner (t : Int) : Item → List Stamped
  | .rt _ => []
  | .tick _ => []
  | .chan _ _ body => bodyMsgs t body
  | .sysc _ body => bodyMsgs t body
  | .sysex body last => bodyMsgs t body ++ gapMsgs (t + bodyTime body) last

def expectedFrom (t : Int) : List Item → List Stamped
  | [] => []
  | it :: r => it.msgs t ++ expectedFrom (t + it.time) r

def expected (items : List Item) : List Stamped := expectedFrom 0 items

/-- how the result is seen through `Live.listen` (`some` = the listener was called without a panic) -/
def delivered (l : List Stamped) : List (Option Bytes × Int) := l.map (fun m => (some m.1, m.2))

/-! ## legality -/

def gapOk : Gap → Bool
  | [] => true
  | .byte b :: g => decide (0xF8 ≤ b) && gapOk g
  | .tick _ :: g => gapOk g

def bodyOk : Body → Bool
  | [] => true
  | (g, d) :: r => gapOk g && decide (d < 0x80) && bodyOk r

/-- number of data bytes of a channel voice message -/
def chanLen (st : Nat) : Nat := if st / 16 = 0xC ∨ st / 16 = 0xD then 1 else 2

/-- number of data bytes of a system common message (`none`: not a system common status a sender may use) -/
def syscLen (st : Nat) : Option Nat :=
  if st = 0xF1 ∨ st = 0xF3 then some 1 else if st = 0xF2 then some 2 else if st = 0xF6 then some 0 else none

/-- the running status a receiver holds after the item (`0` = none) -/
def Item.runAfter (run : Nat) : Item → Nat
  | .rt _ => run
  | .tick _ => run
  | .chan st _ _ => st
  | .sysc _ _ => 0
  | .sysex _ _ => 0

/-- legality of one item when the running status is `run`; `bufSize` = the listener's sysex buffer -/
def Item.ok (bufSize run : Nat) : Item → Bool
  | .rt b => decide (0xF8 ≤ b)
  | .tick _ => true
  | .chan st e body =>
    decide (0x80 ≤ st) && decide (st ≤ 0xEF) && (!e || decide (run = st)) &&
      decide (body.length = chanLen st) && bodyOk body
  | .sysc st body => decide (syscLen st = some body.length) && bodyOk body
  | .sysex body last => bodyOk body && gapOk last && decide (body.length + 2 ≤ bufSize)

/-- legality of an item sequence that starts with running status `run` -/
def wfFrom (bufSize : Nat) : Nat → List Item → Bool
  | _, [] => true
  | run, it :: r => it.ok bufSize run && wfFrom bufSize (it.runAfter run) r

/-- legal wire sequence for a receiver that has just been started (no running status) -/
def WF (bufSize : Nat) (items : List Item) : Prop := wfFrom bufSize 0 items = true

instance (bufSize : Nat) (items : List Item) : Decidable (WF bufSize items) := by unfold WF; infer_instance

/-- the first item is a message that carries its own status byte -/
def startsExplicit : List Item → Bool
  | .chan _ e _ :: _ => !e
  | .sysc _ _ :: _ => true
  | .sysex _ _ :: _ => true
  | _ => false

/-- all deltas are non-negative (a clock does not run backwards) -/
def gapNonneg : Gap → Bool
  | [] => true
  | .byte _ :: g => gapNonneg g
  | .tick d :: g => decide (0 ≤ d) && gapNonneg g

/-! ## line protocol

`wire.expect buf=<n> t0=<clock> items=<item>,<item>,…` answers legality, the bytes on the cable, the
`EachMessage` calls that `wireToks` stands for and `expectedFrom t0`.
item syntax: `rF8` real-time byte, `t5` tick, `c90x:<body>` / `c90e:<body>` channel message with / without
its status byte, `sF2:<body>` system common, `x:<body>:<gap>` sysex; body = `<gap>.<data>/<gap>.<data>…`,
gap = `F8+t3+…` (may be empty). -/

def parseGapTok (s : String) : Option Tok :=
  match s.toList with
  | 't' :: r => (intOfString (String.ofList r)).map Tok.tick
  | cs => match unhexChars cs with
    | some [b] => some (Tok.byte b)
    | _ => none

def parseGap (s : String) : Option Gap :=
  if s = "" then some [] else (s.splitOn "+").mapM parseGapTok

def parseBody (s : String) : Option Body :=
  if s = "" then some [] else (s.splitOn "/").mapM fun e =>
    match e.splitOn "." with
    | [g, d] =>
      match parseGap g, unhex d with
      | some g, some [b] => some (g, b)
      | _, _ => none
    | _ => none

def parseItem (s : String) : Option Item :=
  match s.splitOn ":" with
  | [h] =>
    match h.toList with
    | 'r' :: r => match unhexChars r with
      | some [b] => some (Item.rt b)
      | _ => none
    | 't' :: r => (intOfString (String.ofList r)).map Item.tick
    | _ => none
  | [h, b] =>
    match h.toList, parseBody b with
    | ['c', x, y, f], some body =>
      match unhexChars [x, y] with
      | some [st] => if f = 'e' then some (Item.chan st true body) else if f = 'x' then some (Item.chan st false body) else none
      | _ => none
    | ['s', x, y], some body =>
      match unhexChars [x, y] with
      | some [st] => some (Item.sysc st body)
      | _ => none
    | _, _ => none
  | [h, b, l] =>
    match h, parseBody b, parseGap l with
    | "x", some body, some last => some (Item.sysex body last)
    | _, _, _ => none
  | _ => none

/-- the `EachMessage(bytes, Δ)` calls a token stream stands for (bytes before the first tick: `Δ = 0`) -/
def chunksOf (toks : List Tok) : List (Int × Bytes) :=
  let rec go : List Tok → (Int × Bytes) → List (Int × Bytes) → List (Int × Bytes)
    | [], cur, acc => (cur :: acc).reverse
    | .byte b :: r, cur, acc => go r (cur.1, cur.2 ++ [b]) acc
    | .tick d :: r, cur, acc => go r (d, []) (cur :: acc)
  go toks (0, []) []

def showChunks (l : List (Int × Bytes)) : String :=
  if l.isEmpty then "-" else joinWith "," (l.map fun c => s!"{c.1}:{hex c.2}")

--@driver wire. LiveWire.handle
def handle (op : String) (args : List String) : String :=
  match op with
  | "wire.expect" =>
    match natField "buf" args, (field "t0" args).bind intOfString, field "items" args with
    | some buf, some t0, some is =>
      match (if is = "-" then some [] else (is.splitOn ",").mapM parseItem) with
      | some items =>
        let c : Cfg := ⟨true, buf, true, true⟩
        let b (x : Bool) : Nat := if x then 1 else 0
        s!"wf={b (wfFrom c.bufSize 0 items)} explicit={b (startsExplicit items)} wire={hex (wire items)} " ++
        s!"chunks={showChunks (chunksOf (wireToks items))} exp={showFrames (expectedFrom t0 items)}"
      | none => "bad-op"
    | _, _, _ => "bad-op"
  | _ => "bad-op"

end Midi.LiveWire
