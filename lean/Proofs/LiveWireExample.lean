import MidiModel.LiveWire
/-! A concrete wire sequence used by the non-vacuity examples of `Props/C04.lean` and `Props/C06_Resync.lean`. -/
namespace Midi.LiveWire
open Midi.Live

def exCfg : Cfg := ⟨true, 5, true, true⟩

def exItems : List Item :=
  [ .chan 0x90 false [([], 0x3C), ([.byte 0xF8, .tick 3], 0x40)],
    .chan 0x90 true [([.tick 2], 0x3E), ([], 0)],
    .rt 0xFE,
    .sysex [([], 1), ([.tick 1], 2), ([.byte 0xFA], 3)] [.tick 4],
    .sysc 0xF2 [([], 5), ([], 6)],
    .chan 0xC1 false [([], 7)],
    .tick 10,
    .chan 0xC1 true [([], 8)] ]

/-- garbage before a well-formed sequence: the tail of a note on whose status byte was missed, an undefined
    status `F4` with data, a sysex that is never closed, cut into chunks -/
def exGarbage : List Tok :=
  [.tick 2, .byte 0x40, .byte 0x7F, .tick 1, .byte 0xF4, .byte 0x01, .byte 0xF0, .tick 4, .byte 0x11, .byte 0x22]

end Midi.LiveWire
