import Proofs.Meta
import MidiModel.Generated.Facts
/-!
# C15 — meta-event constructors and accessors are mutually inverse

Model: `MidiModel/Meta.lean` (constructors `meta*` = `smf.Meta*`, accessors `getMeta*` = `Message.GetMeta*`
with all out-parameters requested, `none` = the accessor returned `false`). `Meta.Spec` holds what the
theorems compare with and is not derived from the code: the event grammar `FF type length data`, the circle
of fifths spelled from music theory, rounding of a rational. Lengths are bounded by `2^32` only because
`_MetaMessage` converts `len(data)` to `uint32`; there is no other size bound.

Floats do not occur in Lean: the tempo theorems speak about the integer field (microseconds per quarter
note) — the constructor from the point where `uint32(math.Round(60000000/bpm))` is an integer, or for a
rational `bpm = p/q` with exact rounding, the accessor up to the integer it divides 60000000 by. The float
glue (`MetaTempo(bpm float64)`, `GetMetaTempo(*float64)`) is compared with these by the harness
(differential support, see `lib/props/C15.json`).

`Facts.c15*` are regenerated from the working tree on every run (`harness/c15.go`, `tools/extract/keys.go`);
the theorems over them are `decide`d over the complete tables.
-/
namespace Midi.C15
open Midi Midi.Meta

/-! ## Well-formedness: every constructor emits `FF type length data` -/

/-- The generic constructor emits exactly one SMF 1.0 meta event with the given type byte and payload,
    whatever the payload length (the length field is a VLQ of 1..5 bytes). -/
theorem wellformed (t : Nat) (d : Bytes) (h : d.length < 4294967296) :
    Spec.parse (metaMessage t d) = some (t, d) :=
  Spec.parse_metaMessage t d h

example : (List.replicate 20000 0x80).length < 4294967296 := by rw [List.length_replicate]; omega

/-- Every constructor is the generic one applied to the SMF 1.0 type byte of its event and a payload of the
    size SMF 1.0 prescribes (texts 01–09, channel 20, port 21, tempo 51 with 3 bytes, SMPTE 54 with 5,
    time signature 58 with 4, key 59 with 2, sequencer data 7F, sequence number 00 with 2). -/
theorem constructors_wellformed :
    TextKind.all.map (fun k => (k.name, k.byte)) =
      [("lyric", 5), ("copyright", 2), ("cuepoint", 7), ("device", 9), ("instrument", 4), ("marker", 6),
       ("program", 8), ("text", 1), ("trackname", 3)] ∧
    (∀ k s, metaText k s = metaMessage k.byte s) ∧
    (∀ d, metaSequencerData d = metaMessage 0x7F d) ∧
    (∀ c, metaChannel c = metaMessage 0x20 [c]) ∧
    (∀ p, metaPort p = metaMessage 0x21 [p]) ∧
    (∀ n, metaSequenceNo n = metaMessage 0x00 [n / 256 % 256, n % 256]) ∧
    (∀ a b c d e, metaSMPTE a b c d e = metaMessage 0x54 [a, b, c, d, e]) ∧
    (∀ n d c q, ∃ x y z, metaTimeSig n d c q = metaMessage 0x58 [n, x, y, z]) ∧
    (∀ k maj n fl, ∃ x y, metaKey k maj n fl = metaMessage 0x59 [x, y]) ∧
    (∀ u, 1 ≤ u → u ≤ 0xFFFFFF → metaTempoMicros u = metaMessage 0x51 [u / 65536, u / 256 % 256, u % 256]) := by
  refine ⟨by decide, fun _ _ => rfl, fun _ => rfl, fun _ => rfl, fun _ => rfl, fun _ => rfl,
    fun _ _ _ _ _ => rfl, fun _ _ _ _ => ⟨_, _, _, rfl⟩, fun _ _ _ _ => ⟨_, _, rfl⟩, ?_⟩
  intro u h1 h2
  rw [metaTempoMicros_bytes u h1 h2]
  simp [metaMessage, enc_small]

/-! ## Texts and sequencer data: every length -/

/-- Each of the nine text constructors is inverted by its accessor for every text of every length
    (`< 2^32`, the range of the `uint32` length conversion). -/
theorem text_roundtrip (k : TextKind) (s : Bytes) (h : s.length < 4294967296) :
    getMetaText k (metaText k s) = some s :=
  getMetaText_metaText k s h

/-- … and by no other text accessor. -/
theorem text_exclusive (k k' : TextKind) (s : Bytes) (hk : k' ≠ k) :
    getMetaText k' (metaText k s) = none :=
  getMetaText_other k k' s hk

example : getMetaText .lyric (metaText .lyric (List.replicate 300 0xFF)) = some (List.replicate 300 0xFF) :=
  text_roundtrip _ _ (by rw [List.length_replicate]; omega)

/-- Sequencer-specific data of every non-empty payload of any length comes back unchanged — in particular
    with 128 bytes and more, where the length field has two or more bytes (DESIGN §7-14). -/
theorem seqdata_roundtrip (d : Bytes) (hne : d ≠ []) (h : d.length < 4294967296) :
    getMetaSeqData (metaSequencerData d) = some d :=
  getMetaSeqData_metaSequencerData d hne h

example : getMetaSeqData (metaSequencerData (List.replicate 16384 0x81)) = some (List.replicate 16384 0x81) :=
  seqdata_roundtrip _ (by intro h; have := congrArg List.length h; rw [List.length_replicate] at this; exact absurd this (by decide))
    (by rw [List.length_replicate]; omega)

/-- why the payload has to be non-empty: `FF 7F 00` is shorter than the accessor's minimum of four bytes -/
theorem seqdata_empty_rejected : getMetaSeqData (metaSequencerData []) = none := by decide

/-! ## Numeric events -/

theorem channel_roundtrip (c : Nat) : getMetaChannel (metaChannel c) = some c :=
  getMetaChannel_metaChannel c

theorem port_roundtrip (p : Nat) : getMetaPort (metaPort p) = some p :=
  getMetaPort_metaPort p

/-- all 65536 sequence numbers -/
theorem seqno_roundtrip (n : Nat) (h : n < 65536) : getMetaSeqNumber (metaSequenceNo n) = some n :=
  getMetaSeqNumber_metaSequenceNo n h

example : (65535 : Nat) < 65536 := by decide

theorem smpte_roundtrip (hr mn se fr ff : Nat) :
    getMetaSMPTE (metaSMPTE hr mn se fr ff) = some (hr, mn, se, fr, ff) :=
  getMetaSMPTE_metaSMPTE hr mn se fr ff

/-- Time signature with denominator `2^e`, `e = 0..7` (1, 2, 4, …, 128): numerator and denominator come
    back, the stored denominator is the exponent, and a clock field comes back unchanged unless it is zero,
    which is the documented shorthand for 8. -/
theorem timesig_roundtrip (n e c q : Nat) (he : e ≤ 7) :
    getMetaTimeSig (metaTimeSig n (2 ^ e) c q) =
      some (n, 2 ^ e, if c = 0 then 8 else c, if q = 0 then 8 else q) ∧
    metaTimeSig n (2 ^ e) c q = metaMessage 0x58 [n, e, if c = 0 then 8 else c, if q = 0 then 8 else q] := by
  refine ⟨getMetaTimeSig_metaTimeSig n e c q he, ?_⟩
  have := denom_pow2 ⟨e, by omega⟩
  simp only at this
  simp [metaTimeSig, this.1]

example : (7 : Nat) ≤ 7 ∧ (2 : Nat) ^ 7 = 128 := by decide

/-- for non-zero clock fields this is the identity -/
theorem timesig_roundtrip_nonzero (n e c q : Nat) (he : e ≤ 7) (hc : c ≠ 0) (hq : q ≠ 0) :
    getMetaTimeSig (metaTimeSig n (2 ^ e) c q) = some (n, 2 ^ e, c, q) := by
  rw [getMetaTimeSig_metaTimeSig n e c q he]; simp [hc, hq]

theorem meter_roundtrip (n e : Nat) (he : e ≤ 7) :
    getMetaMeter (metaMeter n (2 ^ e)) = some (n, 2 ^ e) :=
  getMetaMeter_metaMeter n e he

/-! ## Key signatures -/

/-- the circle of fifths of `Meta.Spec` in numbers (pitch class of the tonic by number of accidentals) -/
theorem circle_of_fifths :
    (List.range 8).map (Spec.tonic true false) = [0, 7, 2, 9, 4, 11, 6, 1].map some ∧     -- C G D A E B F♯ C♯
    (List.range 8).map (Spec.tonic true true) = [0, 5, 10, 3, 8, 1, 6, 11].map some ∧     -- C F B♭ E♭ A♭ D♭ G♭ C♭
    (List.range 8).map (Spec.tonic false false) = [9, 4, 11, 6, 1, 8, 3, 10].map some ∧   -- a e b f♯ c♯ g♯ d♯ a♯
    (List.range 8).map (Spec.tonic false true) = [9, 2, 7, 0, 5, 10, 3, 8].map some := by -- a d g c f b♭ e♭ a♭
  decide

/-- For every count of 0..7 accidentals, flats or sharps, major or minor (and whatever is passed as `key`,
    which the constructor ignores) the accessor returns the tonic the circle of fifths gives, the count, the
    mode, and the flat flag (no accidentals = not flat). -/
theorem keysig_roundtrip (k n : Nat) (isMajor isFlat : Bool) (hn : n ≤ 7) :
    ∃ pc, Spec.tonic isMajor isFlat n = some pc ∧
      getMetaKeySig (metaKey k isMajor n isFlat) = some ⟨pc, n, isMajor, isFlat && n != 0⟩ := by
  obtain ⟨hs, h⟩ := keysig_table ⟨n, by omega⟩ isMajor isFlat
  simp only at hs h
  obtain ⟨pc, hpc⟩ := Option.isSome_iff_exists.mp hs
  rw [hpc] at h
  exact ⟨pc, hpc, by rw [metaKey_ignores_key k 0]; exact h.symm⟩

example : ∃ pc, Spec.tonic false true 6 = some pc ∧
    getMetaKeySig (metaKey 0 false 6 true) = some ⟨pc, 6, false, true⟩ := keysig_roundtrip 0 6 false true (by omega)

/-- The 26 named constructors, on the bytes the compiled library produced in this run: each name denotes a
    key of the circle of fifths (`Spec.keyOfName`), the accessor reads exactly that key from the
    constructor's bytes, the model's constructor of that name yields the same bytes, and `Key.String()` —
    of the implementation's read-back and of the model — is the name. -/
theorem named_keys :
    Facts.c15NamedKeys.length = 26 ∧ (Facts.c15NamedKeys.map (·.1)).Nodup ∧
    ∀ e ∈ Facts.c15NamedKeys,
      (Spec.keyOfName e.1).isSome = true ∧
      getMetaKeySig e.2.1 = Spec.keyOfName e.1 ∧
      namedKey e.1 = some e.2.1 ∧
      e.2.2 = e.1 ∧
      (getMetaKeySig e.2.1).map keyString = some e.1 := by
  decide

/-- `smf/key.go` as parsed in this run declares exactly these constructors — same names, same order, same
    literal count / mode / flat arguments as the model's table (the first argument of `key(…)` is dropped by
    `MetaKey` and therefore not compared) — and the `keyStrings[Key{…}] = "Name"` statements register exactly the
    model's table for `Key.String()`. -/
theorem key_declarations :
    Facts.c15KeyDecls.map (fun e => (e.1, e.2.2)) = namedKeys.map (fun e => (e.1, e.2.2)) ∧
    Facts.c15KeyStringDecls = namedKeys ∧
    Facts.c15KeyDecls.map (·.1) = Facts.c15NamedKeys.map (·.1) := by
  decide

/-! ## Tempo: the 24-bit microseconds-per-quarter field -/

/-- For every `u` with `1 ≤ u ≤ 0xFFFFFF` the constructor (given the rounded microsecond value) stores
    exactly `u`, big-endian in three bytes, and the accessor reads `u` back — the value whose quotient
    `60000000 / u` it returns as BPM (`u ≠ 0`, so that quotient is defined). -/
theorem tempo_field_roundtrip (u : Nat) (h1 : 1 ≤ u) (h2 : u ≤ 0xFFFFFF) :
    metaTempoMicros u = [0xFF, 0x51, 0x03, u / 65536, u / 256 % 256, u % 256] ∧
    getMetaTempo (metaTempoMicros u) = some u ∧ u ≠ 0 :=
  ⟨metaTempoMicros_bytes u h1 h2, getMetaTempo_metaTempoMicros u h1 h2, by omega⟩

example : (1 : Nat) ≤ 0xFFFFFF ∧ (1 : Nat) ≤ 1 := by decide

/-- For every rational tempo `bpm = p/q` whose exact rounding `round(60000000/bpm)` is `u` in the field's
    range, the stored field is `u`, it reads back as `u`, i.e. decodes to `60000000/u` BPM, and that is the
    given tempo to within the resolution of the field: `|60000000/bpm − u| ≤ 1/2` microsecond per quarter. -/
theorem tempo_rational (p q u : Nat) (hp : 0 < p) (hr : roundDiv (60000000 * q) p = u)
    (h1 : 1 ≤ u) (h2 : u ≤ 0xFFFFFF) :
    metaTempoRat p q = [0xFF, 0x51, 0x03, u / 65536, u / 256 % 256, u % 256] ∧
    getMetaTempo (metaTempoRat p q) = some u ∧
    2 * (u * p) ≤ 2 * (60000000 * q) + p ∧ 2 * (60000000 * q) < 2 * (u * p) + p := by
  have hn := roundDiv_nearest (60000000 * q) p hp
  rw [hr] at hn
  unfold metaTempoRat
  rw [hr]
  exact ⟨metaTempoMicros_bytes u h1 h2, getMetaTempo_metaTempoMicros u h1 h2, hn.1, hn.2⟩

/-- Every tempo from 3.58 to 60 000 000 BPM satisfies the hypothesis of `tempo_rational`. -/
theorem tempo_range (p q : Nat) (hq : 0 < q) (hlo : 358 * q ≤ 100 * p) (hhi : p ≤ 60000000 * q) :
    1 ≤ roundDiv (60000000 * q) p ∧ roundDiv (60000000 * q) p ≤ 0xFFFFFF :=
  roundDiv_range p q hq hlo hhi

/-- 120 BPM = 500 000 µs; 3.58 BPM and 60 000 000 BPM are the ends -/
example : roundDiv (60000000 * 1) 120 = 500000 ∧ roundDiv (60000000 * 100) 358 = 16759777 ∧
    roundDiv (60000000 * 1) 60000000 = 1 := by decide

/-! ## The type tables the accessors dispatch on, as compiled in this run -/

/-- `smf.Message{0xFF, b, 0}.Type()` for all 256 `b`, the values of the exported type constants, and the
    fact that no message without the `FF` prefix has a meta type, are what the model assumes. -/
theorem type_tables :
    Facts.c15MetaTypes = (List.range 256).map (fun b => (metaTypeOf b : Int)) ∧
    Facts.c15TypeConsts = typeConsts.map (fun e => (e.1, (e.2 : Int))) ∧
    Facts.c15NonMetaTypeMax < 70 := by
  decide +kernel

end Midi.C15
