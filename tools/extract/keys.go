package main

import (
	"fmt"
	"go/ast"
	"go/parser"
	"go/token"
	"path/filepath"
	"strconv"
	"strings"
)

// C15: what smf/key.go declares, read with go/parser only.
//
//   c15KeyDecls       every exported, receiver-less function of key.go that returns Message, in source order,
//                     with the four literal arguments of its `return key(k, n, isMajor, isFlat)`;
//                     a function of any other shape is listed with the arguments (999, 999, false, false)
//   c15KeyStringDecls every `keyStrings[Key{k, n, isMajor, isFlat}] = "Name"` statement of the init functions
//
// The theorems of Props/C15.lean require both lists to be the table of the Lean model and the names to be
// exactly the constructors the harness called when it dumped `c15NamedKeys`.
func init() {
	extractors = append(extractors, extractKeys)
}

func c15Lit(e ast.Expr) (string, bool) {
	switch x := e.(type) {
	case *ast.BasicLit:
		if x.Kind == token.INT {
			if v, err := strconv.ParseInt(x.Value, 0, 64); err == nil && v >= 0 {
				return strconv.FormatInt(v, 10), true
			}
		}
	case *ast.Ident:
		if x.Name == "true" || x.Name == "false" {
			return x.Name, true
		}
	}
	return "", false
}

// c15Four renders four (int, int, bool, bool) literal expressions; ok = all four have that shape.
func c15Four(args []ast.Expr) (string, bool) {
	if len(args) != 4 {
		return "", false
	}
	var out []string
	for i, a := range args {
		s, ok := c15Lit(a)
		if !ok || (i < 2) == (s == "true" || s == "false") {
			return "", false
		}
		out = append(out, s)
	}
	return strings.Join(out, ", "), true
}

func extractKeys(root string) (string, error) {
	fset := token.NewFileSet()
	f, err := parser.ParseFile(fset, filepath.Join(root, "smf", "key.go"), nil, 0)
	if err != nil {
		return "", err
	}
	var decls, strs []string
	for _, d := range f.Decls {
		fd, ok := d.(*ast.FuncDecl)
		if !ok || fd.Recv != nil || fd.Body == nil {
			continue
		}
		if fd.Name.Name == "init" {
			ast.Inspect(fd.Body, func(n ast.Node) bool {
				as, ok := n.(*ast.AssignStmt)
				if !ok || len(as.Lhs) != 1 || len(as.Rhs) != 1 {
					return true
				}
				ix, ok := as.Lhs[0].(*ast.IndexExpr)
				if !ok {
					return true
				}
				if id, ok := ix.X.(*ast.Ident); !ok || id.Name != "keyStrings" {
					return true
				}
				name := "?"
				if bl, ok := as.Rhs[0].(*ast.BasicLit); ok && bl.Kind == token.STRING {
					if s, err := strconv.Unquote(bl.Value); err == nil {
						name = s
					}
				}
				four := "999, 999, false, false"
				if cl, ok := ix.Index.(*ast.CompositeLit); ok {
					if id, ok := cl.Type.(*ast.Ident); ok && id.Name == "Key" {
						if s, ok := c15Four(cl.Elts); ok {
							four = s
						}
					}
				}
				strs = append(strs, fmt.Sprintf("(%s, %s)", c15Quote(name), four))
				return true
			})
			continue
		}
		if !fd.Name.IsExported() || fd.Type.Results == nil || len(fd.Type.Results.List) != 1 {
			continue
		}
		if id, ok := fd.Type.Results.List[0].Type.(*ast.Ident); !ok || id.Name != "Message" {
			continue
		}
		four := "999, 999, false, false"
		if fd.Type.Params.NumFields() == 0 && len(fd.Body.List) == 1 {
			if rs, ok := fd.Body.List[0].(*ast.ReturnStmt); ok && len(rs.Results) == 1 {
				if call, ok := rs.Results[0].(*ast.CallExpr); ok {
					if id, ok := call.Fun.(*ast.Ident); ok && id.Name == "key" {
						if s, ok := c15Four(call.Args); ok {
							four = s
						}
					}
				}
			}
		}
		decls = append(decls, fmt.Sprintf("(%s, %s)", c15Quote(fd.Name.Name), four))
	}
	var sb strings.Builder
	sb.WriteString("/-- C15 (go/parser): exported `func X() Message { return key(k, n, isMajor, isFlat) }` of smf/key.go, source order -/\n")
	sb.WriteString("def c15KeyDecls : List (String × Nat × Nat × Bool × Bool) := [" + strings.Join(decls, ",\n  ") + "]\n")
	sb.WriteString("/-- C15 (go/parser): `keyStrings[Key{k, n, isMajor, isFlat}] = \"X\"` statements of smf/key.go, source order -/\n")
	sb.WriteString("def c15KeyStringDecls : List (String × Nat × Nat × Bool × Bool) := [" + strings.Join(strs, ",\n  ") + "]\n")
	return sb.String(), nil
}

func c15Quote(s string) string {
	var sb strings.Builder
	sb.WriteByte('"')
	for _, r := range s {
		if r >= 0x20 && r < 0x7F && r != '"' && r != '\\' {
			sb.WriteRune(r)
		} else {
			sb.WriteByte('?')
		}
	}
	sb.WriteByte('"')
	return sb.String()
}
