import Proofs.LiveWireReach
import Proofs.LiveWireWeave
import Proofs.LiveWireExample
/-!
# C04 — live MIDI byte streams are decoded into exactly the messages sent

Implementation side (frozen model `MidiModel/Live.lean`): `feed` = `drivers.Reader.EachMessage` over a token
stream of bytes and clock ticks, `listen c toks` = what the listener of `midi.ListenTo` on a `testdrv`
loopback receives (`(some message, time stamp)`; `none` would be a panic of the callback).

Specification side (`MidiModel/LiveWire.lean`, not a model of any code): a sender puts `Item`s on the wire —
channel voice messages with or without their status byte (`elide`), system common messages, sysex,
real-time bytes, clock ticks — and real-time bytes and ticks may sit in every gap inside a message
(`Gap`/`Body`). `wireToks items` is what the receiver sees (`wire items` its bytes), `expected items` what a
listener has to be handed: every message complete and with its status byte, the real-time bytes in order of
arrival before the message they interrupt, each stamped with the clock at which its last byte arrived
(sysex: its first byte). `WF bufSize items`: data bytes `< 0x80`, channel status `0x80..0xEF`, system common
`F1 d | F2 d d | F3 d | F6`, the status byte omitted only directly after a channel message with the same
status with nothing but real-time bytes and ticks in between, gaps contain only bytes `≥ 0xF8` and ticks,
sysex of total length `≤ bufSize`.

All placements of ticks = all ways of cutting the byte stream into `Send` / `EachMessage` calls with arbitrary
deltas (the theorems do not even need the deltas to be non-negative, except `timestamp_of_sysex_between`).
`AllOn c`: `UseSysEx`, `UseActiveSense`, `UseTimeCode` on, any `SysExBufferSize`.
-/
namespace Midi.C04
open Midi Midi.Live Midi.LiveWire

/-- For data bytes `< 0x80` the `midi.Message` that `ListenTo` builds from the fixed three-byte frame of the
    reader is the message itself: status byte first, its one or two data bytes, no padding zeros. -/
theorem retype_frame (st : Nat) (body : Body) (h1 : 0x80 ≤ st) (h2 : st ≤ 0xEF)
    (hlen : body.length = chanLen st) (hb : bodyOk body = true) :
    retype (pad3 (st :: bodyData body)) = some (some (st :: bodyData body)) :=
  retype_frame_chan st body h1 h2 hlen hb

/-- the same for system common messages (`F1 d`, `F2 lsb msb`, `F3 d`, `F6`) -/
theorem retype_frame_syscommon (st : Nat) (body : Body) (hl : syscLen st = some body.length)
    (hb : bodyOk body = true) :
    retype (pad3 (st :: bodyData body)) = some (some (st :: bodyData body)) :=
  retype_frame_sysc st body hl hb

/-- **Every legal wire sequence, with every legal running-status elision, every placement of real-time bytes
    (also inside messages and inside sysex) and every placement of ticks (every chunking, any deltas), is
    decoded into exactly the messages sent**: complete, status byte restored, each exactly once, in order of
    completion, never a panic, with the time stamps of `expected`. -/
theorem decode_wire (c : Cfg) (hc : AllOn c) (items : List Item) (h : WF c.bufSize items) :
    listen c (wireToks items) = delivered (expected items) :=
  listen_from_clean c hc items init 0 0 clean_init h

/-- The contents and the order of what is delivered do not depend on where the ticks are — for EVERY token
    stream (well-formed or not) and every configuration: the same bytes handed over in one call at time 0
    give the same messages. -/
theorem decode_chunking (c : Cfg) (toks : List Tok) :
    (listen c toks).map (·.1) = (listen c (untick toks)).map (·.1) := by
  have h : (feed c init (untick toks)).2 = (feed c init toks).2.map zeroTs :=
    congrArg Prod.snd (feed_er c toks init)
  unfold listen
  rw [listenFrames_contents c (feed c init toks).2, ← h]

/-- any two ways of cutting the same byte stream into chunks (with whatever deltas) deliver the same contents in
    the same order -/
theorem decode_chunking_same_bytes (c : Cfg) (a b : List Tok) (h : bytesOf a = bytesOf b) :
    (listen c a).map (·.1) = (listen c b).map (·.1) := by
  rw [decode_chunking c a, decode_chunking c b]
  unfold untick
  rw [h]

/-- … byte by byte: what the listener is handed when a byte arrives (after any prefix `pre`) has the same contents
    as what it is handed at that byte when the whole prefix came in one call — so the byte at which a message is
    delivered does not depend on the chunking either. -/
theorem decode_chunking_per_byte (c : Cfg) (pre : List Tok) (b : Nat) :
    ∃ new new', listen c (pre ++ [Tok.byte b]) = listen c pre ++ new ∧
      listen c (untick pre ++ [Tok.byte b]) = listen c (untick pre) ++ new' ∧
      new.map (·.1) = new'.map (·.1) := by
  refine ⟨listenFrames c (step c (feed c init pre).1 b).2,
    listenFrames c (step c (feed c init (untick pre)).1 b).2, ?_, ?_, ?_⟩
  · unfold listen
    rw [feed_append, listenFrames_append, feed_cons, feed_nil]
    simp [stepTok]
  · unfold listen
    rw [feed_append, listenFrames_append, feed_cons, feed_nil]
    simp [stepTok]
  · have h : (feed c init (untick pre)).1 = er (feed c init pre).1 := congrArg Prod.fst (feed_er c pre init)
    rw [h, step_er, listenFrames_contents c (step c (feed c init pre).1 b).2]

/-- `decode_wire` for token streams given only by their bytes: whatever the chunking of the bytes of a legal
    wire sequence, the listener receives the messages of `expected`, in that order. -/
theorem decode_wire_any_chunking (c : Cfg) (hc : AllOn c) (items : List Item) (h : WF c.bufSize items)
    (toks : List Tok) (hb : bytesOf toks = wire items) :
    (listen c toks).map (·.1) = (expected items).map (fun m => some m.1) := by
  rw [decode_chunking_same_bytes c toks (wireToks items) hb, decode_wire c hc items h]
  simp [delivered]

/-- **All partitions, time stamps included.** Whatever token stream `toks` carries the bytes of a legal wire
    sequence — however these bytes are cut into `EachMessage` calls and whatever the deltas — `toks` is itself
    the token stream of a legal wire sequence `items'` (the chunk borders lie in its gaps and between its items),
    so `decode_wire` and the time stamp theorems apply to it as it stands; and `items'` carries the same
    messages in the same order as `items`. -/
theorem decode_wire_every_chunking (c : Cfg) (hc : AllOn c) (items : List Item) (h : WF c.bufSize items)
    (toks : List Tok) (hb : bytesOf toks = wire items) :
    ∃ items', wireToks items' = toks ∧ WF c.bufSize items' ∧ listen c toks = delivered (expected items') ∧
      (expected items').map (·.1) = (expected items).map (·.1) := by
  obtain ⟨items', e, hw⟩ := weave_items c.bufSize items 0 toks h hb
  refine ⟨items', e, hw, ?_, ?_⟩
  · rw [← e]; exact decode_wire c hc items' hw
  · have h1 := decode_wire_any_chunking c hc items h toks hb
    rw [← e, decode_wire c hc items' hw] at h1
    have h2 := congrArg (List.map (fun o : Option Bytes => o.getD [])) h1
    simpa [delivered, List.map_map, Function.comp_def] using h2

/-- Per-message lemma: the decoder is between messages (`Clean`: mode clean, running status `run`, first data
    byte not pending) with clock `t`; any legal item — a message with or without status byte, a real-time
    byte, a tick — with real-time bytes and ticks in its gaps yields exactly its messages and leaves the decoder
    between messages with the running status MIDI 1.0 prescribes. -/
theorem message_from_clean (c : Cfg) (hc : AllOn c) (s : St) (run : Nat) (t : Int) (it : Item)
    (hs : Clean s run t) (hok : it.ok c.bufSize run = true) :
    listenFrames c (feed c s it.toks).2 = delivered (it.msgs t) ∧
      Clean (feed c s it.toks).1 (it.runAfter run) (t + it.time) := by
  obtain ⟨s', e, cl⟩ := feed_item c hc.1 s run t it hs hok
  rw [e]
  exact ⟨listen_item c hc run t it hok, cl⟩

/-- Per-message lemma from ANY decoder state (mid-message, mid-sysex, after an undefined status, …): a message
    that carries its own status byte is decoded exactly, whatever came before. -/
theorem message_explicit_any_state (c : Cfg) (hc : AllOn c) (s : St) (run : Nat) (it : Item)
    (hex : startsExplicit [it] = true) (hok : it.ok c.bufSize run = true) :
    listenFrames c (feed c s it.toks).2 = delivered (it.msgs s.ts) ∧
      Clean (feed c s it.toks).1 (it.runAfter run) (s.ts + it.time) := by
  obtain ⟨s', e, cl⟩ := feed_item_explicit c hc.1 s run it hex hok
  rw [e]
  exact ⟨listen_item c hc run s.ts it hok, cl⟩

/-- Per-message lemma after ANY token stream `g` (arbitrary bytes, arbitrary chunking) that leaves the decoder in
    mode clean: the next item — also a message WITHOUT status byte, judged against the running status the
    decoder holds — is decoded exactly, at the clock `tickSum g`, and the decoder is between messages again. -/
theorem message_after_any_stream (c : Cfg) (hc : AllOn c) (g : List Tok) (it : Item)
    (hm : (feed c init g).1.mode = .clean) (hok : it.ok c.bufSize (feed c init g).1.status = true) :
    listen c (g ++ it.toks) = listen c g ++ delivered (it.msgs (tickSum g)) ∧
      Clean (feed c init (g ++ it.toks)).1 (it.runAfter (feed c init g).1.status) (tickSum g + it.time) := by
  have hcl := reachable_clean c g hm
  obtain ⟨e, cl⟩ := message_from_clean c hc _ _ _ it hcl hok
  unfold listen
  rw [feed_append, listenFrames_append, e]
  exact ⟨rfl, cl⟩

/-- **Time stamp = moment of completion.** In a legal sequence `pre ++ it :: post` the message `m` of a channel /
    system common / real-time item `it` is delivered after everything `pre` delivers and after the real-time
    bytes that sit inside it, exactly once at that place, stamped with the sum of all ticks before its last byte
    (= the accumulated deltas of the `EachMessage` call that contains the last byte). -/
theorem timestamp_of_completion (c : Cfg) (hc : AllOn c) (pre post : List Item) (it : Item) (m : Bytes)
    (h : WF c.bufSize (pre ++ it :: post)) (hm : it.message = some m) (hns : ∀ b l, it ≠ .sysex b l) :
    listen c (wireToks (pre ++ it :: post)) =
      listen c (wireToks pre) ++ delivered (it.inner (tickSum (wireToks pre))) ++
        (some m, tickSum (wireToks pre ++ it.toks.dropLast)) ::
          delivered (expectedFrom (tickSum (wireToks (pre ++ [it]))) post) := by
  have hwf : wfFrom c.bufSize 0 pre = true ∧ it.ok c.bufSize (runAfterAll 0 pre) = true := by
    have := h
    unfold WF at this
    rw [wfFrom_append] at this
    simp only [wfFrom, Bool.and_eq_true] at this
    exact ⟨this.1, this.2.1⟩
  obtain ⟨i, b, e⟩ := toks_end_byte it _ _ hwf.2 (by rw [hm]; rfl)
  rw [decode_wire c hc _ h, decode_wire c hc pre hwf.1]
  unfold expected
  rw [expectedFrom_append, expectedFrom, msgs_split it _ m hm, wireToks_append, tickSum_append, tickSum_append]
  have e3 : wireToks [it] = it.toks := by simp [wireToks]
  rw [e3, e, tickSum_dropLast_byte, ← e, ← item_time]
  rw [stampAt_nonsysex it _ hns]
  simp [delivered]

/-- The same for EVERY token stream, well-formed or not, and every configuration: whatever the listener is handed
    when a byte `b ≠ F7` arrives (nothing, or the message that `b` completes) comes after everything delivered
    before and is stamped with the sum of all ticks before `b` (= the accumulated deltas of the `EachMessage` call
    that contains `b`). (`F7` closes a sysex, which carries the clock of its `F0`: `timestamp_of_sysex`.) -/
theorem timestamp_any_stream (c : Cfg) (pre : List Tok) (b : Nat) (hb : b ≠ 0xF7) :
    ∃ new, listen c (pre ++ [Tok.byte b]) = listen c pre ++ new ∧ ∀ m ∈ new, m.2 = tickSum pre := by
  refine ⟨listenFrames c (step c (feed c init pre).1 b).2, ?_, ?_⟩
  · unfold listen
    rw [feed_append, listenFrames_append, feed_cons, feed_nil]
    simp [stepTok]
  · have h := step_stamp c (feed c init pre).1 b hb
    rw [feed_ts] at h
    have e : init.ts + tickSum pre = tickSum pre := by simp [init]
    rw [e] at h
    exact listenFrames_stamp c _ _ h

/-- **A sysex carries the clock of its first byte**: it is delivered when its `F7` arrives (after the real-time
    bytes inside it), stamped with the sum of the ticks before its `F0`. -/
theorem timestamp_of_sysex (c : Cfg) (hc : AllOn c) (pre post : List Item) (body : Body) (last : Gap)
    (h : WF c.bufSize (pre ++ .sysex body last :: post)) :
    listen c (wireToks (pre ++ .sysex body last :: post)) =
      listen c (wireToks pre) ++ delivered ((Item.sysex body last).inner (tickSum (wireToks pre))) ++
        (some (0xF0 :: (bodyData body ++ [0xF7])), tickSum (wireToks pre)) ::
          delivered (expectedFrom (tickSum (wireToks (pre ++ [.sysex body last]))) post) := by
  have hwf : wfFrom c.bufSize 0 pre = true := by
    have := h
    unfold WF at this
    rw [wfFrom_append] at this
    simp only [Bool.and_eq_true] at this
    exact this.1
  rw [decode_wire c hc _ h, decode_wire c hc pre hwf]
  unfold expected
  rw [expectedFrom_append, expectedFrom, msgs_split _ _ _ rfl, wireToks_append, tickSum_append]
  have e3 : wireToks [Item.sysex body last] = (Item.sysex body last).toks := by simp [wireToks]
  rw [e3, ← item_time]
  simp [delivered, Item.stampAt]

/-- … and with non-negative deltas that stamp lies between the arrival of the first and of the last byte of the
    sysex (clock before its `F0` ≤ stamp ≤ clock at its `F7`). -/
theorem timestamp_of_sysex_between (pre : List Item) (body : Body) (last : Gap)
    (hnn : gapNonneg ((Item.sysex body last).toks) = true) :
    tickSum (wireToks pre ++ [Tok.byte 0xF0].dropLast) ≤ tickSum (wireToks pre) ∧
    tickSum (wireToks pre) ≤ tickSum (wireToks pre ++ ((Item.sysex body last).toks).dropLast) := by
  have nn : ∀ g : Gap, gapNonneg g = true → 0 ≤ tickSum g := by
    intro g
    induction g with
    | nil => intro _; simp [tickSum]
    | cons x g ih =>
      cases x with
      | byte b => intro h; simpa [tickSum] using ih (by simpa [gapNonneg] using h)
      | tick d =>
        intro h
        simp only [gapNonneg, Bool.and_eq_true, decide_eq_true_eq] at h
        have := ih h.2
        simp only [tickSum]
        omega
  have e : (Item.sysex body last).toks = (Tok.byte 0xF0 :: (bodyToks body ++ last)) ++ [Tok.byte 0xF7] := by
    simp [Item.toks]
  refine ⟨by simp, ?_⟩
  rw [tickSum_append, e, tickSum_dropLast_byte, ← e]
  have := nn _ hnn
  omega

/-! ## the hypotheses are inhabited: a concrete wire sequence

buffer of 5 bytes; note on `90 3C 40` with a timing clock `F8` and a chunk border (3 ms) before its last byte;
a second note under running status (`3E 00`) with a chunk border (2 ms) before its first data byte; a
real-time `FE` between messages; a sysex `F0 01 02 03 F7` that exactly fills the buffer, cut inside (1 ms) and
before its `F7` (4 ms), with an `FA` inside; a song position pointer `F2 05 06`; a program change; and again
running status after a tick. -/

example : AllOn exCfg := ⟨rfl, rfl, rfl⟩
example : WF exCfg.bufSize exItems := by decide
example : wire exItems =
    [0x90, 0x3C, 0xF8, 0x40, 0x3E, 0, 0xFE, 0xF0, 1, 2, 0xFA, 3, 0xF7, 0xF2, 5, 6, 0xC1, 7, 8] := by decide
example : expected exItems =
    [([0xF8], 0), ([0x90, 0x3C, 0x40], 3), ([0x90, 0x3E, 0], 5), ([0xFE], 5), ([0xFA], 6),
     ([0xF0, 1, 2, 3, 0xF7], 5), ([0xF2, 5, 6], 10), ([0xC1, 7], 10), ([0xC1, 8], 20)] := by decide
/-- `decode_wire` on it -/
example : listen exCfg (wireToks exItems) = delivered (expected exItems) := decode_wire exCfg ⟨rfl, rfl, rfl⟩ exItems (by decide)
/-- the same bytes, one byte per call: `decode_wire_any_chunking` / `decode_chunking_same_bytes` apply -/
example : bytesOf (((wire exItems).map fun b => [Tok.tick 1, Tok.byte b]).flatten) = wire exItems := by decide
/-- `message_from_clean`: the running-status note from the state after the first note -/
example : Clean (feed exCfg init (wireToks (exItems.take 1))).1 0x90 3 ∧
    (Item.chan 0x90 true [([.tick 2], 0x3E), ([], 0)]).ok exCfg.bufSize 0x90 = true := by
  refine ⟨⟨by decide, by decide, by decide, fun _ => by decide, fun _ => by decide⟩, by decide⟩
/-- `message_explicit_any_state`: a state in the middle of a sysex (garbage before) and a note on -/
example : (feed exCfg init [.byte 0xF0, .byte 1]).1.mode = .sysex ∧
    startsExplicit [Item.chan 0x90 false [([], 0x3C), ([.byte 0xF8, .tick 3], 0x40)]] = true := by decide
/-- `message_after_any_stream`: garbage that ends between messages with running status `0x92`, then `3C 40` -/
example : (feed exCfg init [.byte 0x7F, .byte 0x92, .tick 3, .byte 0x01, .byte 0x02]).1.mode = .clean ∧
    (Item.chan 0x92 true [([], 0x3C), ([.byte 0xF8], 0x40)]).ok exCfg.bufSize
      (feed exCfg init [.byte 0x7F, .byte 0x92, .tick 3, .byte 0x01, .byte 0x02]).1.status = true := by decide
/-- `timestamp_of_completion` / `timestamp_of_sysex`: split points in the example -/
example : exItems = exItems.take 1 ++ (Item.chan 0x90 true [([.tick 2], 0x3E), ([], 0)]) :: exItems.drop 2 := by decide
example : exItems = exItems.take 3 ++ (Item.sysex [([], 1), ([.tick 1], 2), ([.byte 0xFA], 3)] [.tick 4]) :: exItems.drop 4 := by decide
example : gapNonneg ((Item.sysex [([], 1), ([.tick 1], 2), ([.byte 0xFA], 3)] [.tick 4]).toks) = true := by decide

end Midi.C04
