import Proofs.StreamFault
import Proofs.SmfSink
/-!
# C10 — I/O failures are reported, never swallowed

Write side: `writeToSink` is `SMF.WriteTo` on a destination that accepts `k` bytes in total and then
fails (short write + error). Read side: `Stream.readFrom` over `srcOps` with `fault := some f`: from
absolute offset `f` on every `Read` fails with a non-EOF error (sticky); `hit` records that a `Read`
has failed that way.
-/
namespace Midi.C10
open Midi Midi.Smf Midi.Stream

/-- If the destination fails at any point before the whole file is accepted, `WriteTo` returns an error. -/
theorem write_fault (rsOn : Bool) (s : File) (w : Bytes) (k : Nat) (hw : writeTo rsOn s = .ok w) (hk : k < w.length) :
    ∃ size acc, writeToSink rsOn s (some k) = some (true, size, acc) := by
  unfold writeTo at hw
  unfold writeToSink
  split at hw
  · cases hw
  · rename_i hz
    simp only [hz, if_false]
    split at hw
    · cases hw
    · rename_i cs hcs
      simp only [WRes.ok.injEq] at hw
      subst hw
      have := (sink_go k cs true [] (by simp)).1 (by simpa using hk)
      generalize writeToSink.go (some k) true [] cs = q at this
      obtain ⟨e, sz, ac⟩ := q
      simp only at this
      subst this
      exact ⟨sz, ac, rfl⟩

/-- `WriteTo` returns nil only if every byte was accepted, and then the reported size is the number of
    bytes written and the destination holds exactly the file. -/
theorem write_ok_size (rsOn : Bool) (s : File) (failAt : Option Nat) (size : Nat) (acc : Bytes)
    (h : writeToSink rsOn s failAt = some (false, size, acc)) :
    writeTo rsOn s = .ok acc ∧ size = acc.length := by
  unfold writeToSink at h
  unfold writeTo
  split at h
  · simp at h
  · rename_i hz
    simp only [hz, if_false]
    split at h
    · cases h
    · rename_i cs hcs
      simp only [Option.some.injEq] at h
      cases failAt with
      | none =>
        have : ∀ (l : List Bytes) (first : Bool) (a : Bytes),
            writeToSink.go none first a l = (false, (a ++ l.flatten).length, a ++ l.flatten) := by
          intro l
          induction l with
          | nil => intro first a; simp [writeToSink.go]
          | cons c r ih => intro first a; simp [writeToSink.go, ih]
        rw [this] at h
        simp only [List.nil_append, Prod.mk.injEq, true_and] at h
        obtain ⟨rfl, rfl⟩ := h
        exact ⟨rfl, rfl⟩
      | some k =>
        by_cases hk : (cs.flatten).length ≤ k
        · have := (sink_go k cs true [] (by simp)).2 (by simpa using hk)
          rw [this] at h
          simp only [List.nil_append, Prod.mk.injEq, true_and] at h
          obtain ⟨rfl, rfl⟩ := h
          exact ⟨rfl, rfl⟩
        · have := (sink_go k cs true [] (by simp)).1 (by simp only [List.nil_append]; omega)
          rw [h] at this
          cases this

/-- what the destination received is always a prefix of the file, never more than it accepted -/
theorem write_accepted_prefix (rsOn : Bool) (s : File) (w : Bytes) (k : Nat) (e : Bool) (size : Nat) (acc : Bytes)
    (hw : writeTo rsOn s = .ok w) (h : writeToSink rsOn s (some k) = some (e, size, acc)) :
    acc.length ≤ k ∧ ∃ t, w = acc ++ t := by
  unfold writeTo at hw
  unfold writeToSink at h
  split at hw
  · cases hw
  · rename_i hz
    simp only [hz, if_false] at h
    split at hw
    · cases hw
    · rename_i cs hcs
      simp only [WRes.ok.injEq] at hw
      subst hw
      rw [hcs] at h
      have h : writeToSink.go (some k) true [] cs = (e, size, acc) := by simpa using h
      have := sink_go_acc k cs true [] (by simp)
      rw [h] at this
      simpa using this

/-- If the source fails with a non-EOF error at any point while the file is read (a `Read` was
    answered with the error), `ReadFrom` returns an error — for every byte string, every
    fragmentation and every fault offset; never a silently shortened file. -/
theorem read_fault (data : Bytes) (cuts : List Nat) (eofWithData : Bool) (f fuel : Nat)
    (hhit : (run srcOps (readFrom fuel) ⟨data, 0, cuts, eofWithData, some f, false⟩).2.hit = true) :
    ∃ e, (run srcOps (readFrom fuel) ⟨data, 0, cuts, eofWithData, some f, false⟩).1 = .ok (.error e) :=
  readFrom_fault f fuel _ ⟨rfl, fun h => by cases h⟩ rfl hhit

/-- the failing source is honest: it fails exactly from offset `f` on, and `hit` is set only by a failing `Read` -/
theorem source_fails_from_offset (f : Nat) (s : Src) (k : Nat) (h : s.fault = some f) (hp : f ≤ s.pos) :
    (s.read k).1 = [] ∧ (s.read k).2.1 = .io ∧ (s.read k).2.2.hit = true := by
  simp [Src.read, h, hp]

/-! Non-vacuity: a fault in the middle of a track is hit and reported; a fault behind everything the
    reader consumes is never touched and the file is read normally. -/
def sampleFile : Bytes :=
  [0x4D, 0x54, 0x68, 0x64, 0, 0, 0, 6, 0, 0, 0, 1, 0, 0x60, 0x4D, 0x54, 0x72, 0x6B, 0, 0, 0, 8, 0, 0x90, 60, 64, 0, 0xFF, 0x2F, 0, 1, 2, 3]

example : (run srcOps (readFrom 40) ⟨sampleFile, 0, [], false, some 25, false⟩).2.hit = true := by decide +kernel
example : (run srcOps (readFrom 40) ⟨sampleFile, 0, [], false, some 31, false⟩).2.hit = false := by decide +kernel

end Midi.C10
