package main

import (
	"bytes"
	"fmt"
	"math/big"
	"strconv"
	"strings"
	"time"

	"gitlab.com/gomidi/midi/v2/drivers"
	"gitlab.com/gomidi/midi/v2/drivers/testdrv"
	"gitlab.com/gomidi/midi/v2/smf"
)

// C13: recording a live stream yields a valid file with faithful timing.
//
// Ops (bpm is the exact rational value of the float64 handed to the library):
//
//	record.live  res=<q> bpm=<bn>/<bd> chunks=<Δms>:<hex>,…   the chunks are sent through a testdrv loopback
//	      (Driver.Sleep(Δ) before each Send) while the REAL Track.RecordFrom records from the in-port; a tee-ing
//	      drivers.In wrapper notes every raw frame and time stamp the driver hands to midi.ListenTo. Then Close(0),
//	      smf.New(), TimeFormat = MetricTicks(q), Add(track), WriteTo; the bytes go to the strict parser
//	      (strict.parse of the model) and to smf.ReadFrom.
//	record.ticks res=<q> bpm=<bn>/<bd> d=<Δms>,…              MetricTicks(q).Ticks(bpm, Δms·time.Millisecond) — the named partial
//	      aspect (float64) — against the exact rational round(q·bpm·Δms/60000).
//
// Oracle (Go, math/big, independent of the model): the track starts with a tempo event at delta 0 whose value is
// within 1 µs of 6e7/bpm; after it come exactly the channel frames the tee saw (status 0x80..0xEF; bytes unchanged:
// status, one data byte for Cx/Dx and two otherwise), in order; each delta is within one tick of q·bpm·Δms/60000 for
// the difference Δms of the DELIVERED stamps of consecutive recorded messages (the first relative to 0); every recorded
// message is a well-formed channel message; WriteTo succeeds; the strict parser accepts the bytes and returns the
// recorded events + end-of-track; smf.ReadFrom returns the same.
// Correspondence: model track `record.frames` (callback folded over the tee'd frames) and `record.live` (from the wire,
// through the model of the live decoder) against the implementation's track: messages exactly, deltas / tempo value
// exactly unless the exact rational value is within float error of a rounding tie (then ±1); file bytes exactly when the
// tracks agree.

type teeIn struct {
	drivers.In
	frames []liveMsg
	conf   drivers.ListenConfig
}

func (t *teeIn) Listen(onMsg func(msg []byte, milliseconds int32), conf drivers.ListenConfig) (func(), error) {
	t.conf = conf
	return t.In.Listen(func(m []byte, ms int32) {
		t.frames = append(t.frames, liveMsg{ms, append([]byte{}, m...)})
		onMsg(m, ms)
	}, conf)
}

var c13Resolutions = []int{24, 25, 48, 96, 100, 120, 192, 240, 384, 480, 960, 1920, 3840, 7680, 15360}

func c13GenRes(r *Rng) int {
	if r.Chance(1, 4) {
		return r.Range(24, 15360)
	}
	return c13Resolutions[r.Intn(len(c13Resolutions))]
}

// tempi 20..400 BPM: whole numbers (incl. both ends), thousandths, arbitrary float64 values
func c13GenBPM(r *Rng) (float64, string) {
	switch r.Intn(6) {
	case 0:
		return float64(r.Pick(20, 20, 400, 400, 60, 120, 100, 300)), "bpm-boundary"
	case 1, 2:
		return float64(r.Range(20, 400)), "bpm-whole"
	case 3:
		return float64(r.Range(20000, 400000)) / 1000, "bpm-thousandths"
	case 4:
		return float64(r.Range(40, 800)) / 2, "bpm-halves"
	default:
		return 20 + 380*float64(r.U64()>>11)/float64(uint64(1)<<53), "bpm-float"
	}
}

func ratOfFloat(f float64) *big.Rat { return new(big.Rat).SetFloat64(f) }

func ratString(x *big.Rat) string { return x.Num().String() + "/" + x.Denom().String() }

// strictBudgetMs: total clock advance that keeps every delta below 2^28 ticks (the strict format's 4-byte VLQ)
func strictBudgetMs(res int, bpm float64) int64 {
	x := new(big.Rat).SetInt64(60000 << 28)
	x.Quo(x, new(big.Rat).Mul(ratOfFloat(bpm), new(big.Rat).SetInt64(int64(res))))
	n := new(big.Int).Quo(x.Num(), x.Denom()).Int64() - 1
	if n > 1<<31-2 {
		n = 1<<31 - 2
	}
	return n
}

func c13Cut(r *Rng, b []byte, budget int64) []liveChunk {
	var cs []liveChunk
	mode := r.Intn(4)
	long := r.Chance(1, 5)
	for i := 0; i < len(b) || len(cs) == 0; {
		n := 1
		switch mode {
		case 0:
			n = len(b)
		case 1:
			n = 1
		case 2:
			n = r.Range(1, 4)
		default:
			n = r.Range(1, 12)
		}
		if n > len(b)-i {
			n = len(b) - i
		}
		d := int64(r.Pick(0, 0, 1, 2, 3, 7, 17, 40, 250, 499, 500, 999, 1000, 1001))
		if long {
			d = int64(r.Pick(0, 1, 59999, 60000, 60001, 123457, 1000000, 2500000, 20000000, r.Intn(1<<22)))
		}
		if d > budget {
			d = budget
		}
		budget -= d
		cs = append(cs, liveChunk{int32(d), b[i : i+n]})
		i += n
		if len(b) == 0 {
			break
		}
	}
	return cs
}

func c13Op(res int, bpm float64, cs []liveChunk) string {
	return fmt.Sprintf("record.live res=%d bpm=%s chunks=%s", res, ratString(ratOfFloat(bpm)), chunksString(cs))
}

func init() {
	register(&Prop{
		ID: "C13",
		Rule: "streams of the C04 domain (channel messages with legal running-status elisions, system common, sysex, real-time at arbitrary " +
			"byte gaps) plus garbage streams over the class alphabet, cut into Send calls (whole, per byte, random) with clock advances " +
			"0..2.5e6 ms under a budget that keeps every delta below 2^28 ticks; tempi 20..400 BPM (boundaries, whole, thousandths, halves, " +
			"arbitrary float64), resolutions 24..15360; recorded through the real Track.RecordFrom on a testdrv loopback. Plus (q, bpm, Δms) " +
			"triples for the float64 tick conversion incl. exact rounding ties. non-trivial = the reference receiver delivers at least one " +
			"channel message and one non-channel message, or two channel messages at different times (record.live); every record.ticks op; " +
			"distinct by op text",
		Gen: func(r *Rng, tier string, emit func(Case)) {
			n, nt := 8000, 2000
			if tier == "thorough" {
				n, nt = 120000, 20000
			}
			for i := 0; i < n; i++ {
				res := c13GenRes(r)
				bpm, btag := c13GenBPM(r)
				tags := []string{btag}
				var b []byte
				if r.Chance(1, 5) {
					b = genGarbage(r, r.Range(1, 40))
					tags = append(tags, "garbage")
				} else {
					w := genWire(r, r.Pick(8, 16, 5), r.Range(1, 14), r.Pick(0, 10, 25, 40))
					for _, wb := range w {
						b = append(b, wb.b)
					}
					tags = append(tags, "wire")
				}
				cs := c13Cut(r, b, strictBudgetMs(res, bpm))
				// what a receiver must deliver without options (independent reference receiver)
				ref := refListen(0, 0, cs)
				nch, nother, spread := 0, 0, false
				var firstTs int32 = -1
				for _, m := range ref {
					if m.b[0] < 0xF0 {
						nch++
						if firstTs >= 0 && m.ts != firstTs {
							spread = true
						}
						if firstTs < 0 {
							firstTs = m.ts
						}
					} else {
						nother++
					}
				}
				if nother > 0 {
					tags = append(tags, "non-channel-delivered")
				}
				if nch == 0 {
					tags = append(tags, "nothing-to-record")
				}
				emit(Case{Op: c13Op(res, bpm, cs), Tags: tags, NonTrivial: (nch >= 1 && nother >= 1) || (nch >= 2 && spread)})
			}
			// the driver's int32 millisecond clock passes 2^31 (24.8 days) during the recording: slow tick rates only, so
			// that the first delta (just below 2^31 ms) still fits the strict format; every later gap is ordinary
			nwrap := 40
			if tier == "thorough" {
				nwrap = 1500
			}
			for i := 0; i < nwrap; i++ {
				res := r.Pick(24, 24, 48, 96)
				bpm := float64(r.Range(20, 7000/res))
				if r.Bool() {
					bpm += float64(r.Intn(1000)) / 1000
					if float64(res)*bpm > 7200 {
						bpm = 20
					}
				}
				w := genWire(r, 8, r.Range(3, 12), r.Pick(0, 10))
				var b []byte
				for _, wb := range w {
					b = append(b, wb.b)
				}
				cs := c13Cut(r, b, 3000000)
				pre := []byte{0x90, 60, 100}
				first := int32(1<<31 - 1 - r.Pick(0, 1, 7, 500, 999, r.Intn(30000)))
				cs = append([]liveChunk{{first, pre}}, cs...)
				emit(Case{Op: c13Op(res, bpm, cs), Tags: []string{"clock-passes-2^31ms"}, NonTrivial: true})
			}
			for i := 0; i < nt; i++ {
				res := c13GenRes(r)
				bpm, btag := c13GenBPM(r)
				budget := strictBudgetMs(res, bpm) * 15 // up to just below 2^32 ticks
				if budget > 1<<31-1 {
					budget = 1<<31 - 1
				}
				var ds []string
				for k := 0; k < 40; k++ {
					var d int64
					switch r.Intn(6) {
					case 0:
						d = int64(r.Pick(0, 1, 2, 3, 499, 500, 501, 999, 1000, 1001, 59999, 60000, 60001))
					case 1:
						d = int64(r.Intn(2000))
					case 2:
						d = int64(r.U64() % uint64(budget+1))
					case 3:
						// an exact rounding tie when bpm is a whole number: q·bpm·Δms = 30000·odd
						if bpm == float64(int64(bpm)) {
							qb := int64(res) * int64(bpm)
							g := gcd64(qb, 60000)
							if (60000/g)%2 == 0 {
								d = (60000 / g / 2) * int64(2*r.Intn(50)+1)
							}
						}
					default:
						d = int64(r.Intn(1 << 20))
					}
					if d > budget {
						d = budget
					}
					ds = append(ds, strconv.FormatInt(d, 10))
				}
				emit(Case{Op: fmt.Sprintf("record.ticks res=%d bpm=%s d=%s", res, ratString(ratOfFloat(bpm)), strings.Join(ds, ",")),
					Tags: []string{"ticks-triples", btag}, NonTrivial: true})
			}
		},
		Run: runC13,
	})
}

func gcd64(a, b int64) int64 {
	for b != 0 {
		a, b = b, a%b
	}
	return a
}

// exactTicks = q·bpm·Δms/60000
func exactTicks(res int, bpm *big.Rat, dms int64) *big.Rat {
	x := new(big.Rat).Mul(bpm, new(big.Rat).SetInt64(int64(res)*1))
	x.Mul(x, new(big.Rat).SetInt64(dms))
	return x.Quo(x, new(big.Rat).SetInt64(60000))
}

var ratHalf = big.NewRat(1, 2)
var ratOne = big.NewRat(1, 1)

// tieClass: 0 = clear, 1 = near a rounding tie (float result may fall on either side), 2 = exact tie computed exactly
// by the float code (whole bpm: every intermediate value is an integer or k+1/2 below 2^53)
func tieClass(x *big.Rat, wholeBpm bool) int {
	fl := new(big.Int).Quo(x.Num(), x.Denom())
	frac := new(big.Rat).Sub(x, new(big.Rat).SetInt(fl))
	dist := new(big.Rat).Sub(frac, ratHalf)
	dist.Abs(dist)
	if dist.Sign() == 0 && wholeBpm {
		return 2
	}
	// tolerance 1e-9 + |x|·2^-48
	tol := new(big.Rat).SetFrac64(1, 1000000000)
	tol.Add(tol, new(big.Rat).Quo(new(big.Rat).Abs(x), new(big.Rat).SetInt64(1<<48)))
	if dist.Cmp(tol) <= 0 {
		return 1
	}
	return 0
}

func roundHalfUp(x *big.Rat) int64 {
	y := new(big.Rat).Add(x, ratHalf)
	return new(big.Int).Quo(y.Num(), y.Denom()).Int64()
}

func withinOne(v int64, x *big.Rat) bool {
	d := new(big.Rat).Sub(new(big.Rat).SetInt64(v), x)
	return d.Abs(d).Cmp(ratOne) <= 0
}

type c13Run struct {
	track   smf.Track
	frames  []liveMsg
	conf    drivers.ListenConfig
	written []byte
	werr    error
	panic   string
	stage   string
}

func c13Record(res int, bpm float64, cs []liveChunk) (out c13Run) {
	out.stage = "record"
	out.panic = try(func() {
		// testdrv's first time stamp is (virtual time slept) - (wall time that passed between New and Listen), truncated
		// to ms: 500 µs of virtual time make it exact as long as that wall time stays below 400 µs. On a loaded machine
		// it may not: such a start is thrown away and repeated (the wall clock is not part of the property).
		var drv *testdrv.Driver
		var in *teeIn
		var o drivers.Out
		var tr smf.Track
		var stop func()
		for attempt := 0; ; attempt++ {
			t0 := time.Now()
			drv = testdrv.New("verif")
			ins, _ := drv.Ins()
			outs, _ := drv.Outs()
			in = &teeIn{In: ins[0]}
			o = outs[0]
			o.Open()
			tr = nil
			var err error
			stop, err = tr.RecordFrom(in, smf.MetricTicks(res), bpm)
			if err != nil {
				panic("RecordFrom: " + err.Error())
			}
			if time.Since(t0) < 400*time.Microsecond || attempt >= 50 {
				break
			}
			stop()
		}
		drv.Sleep(500 * time.Microsecond)
		for _, c := range cs {
			drv.Sleep(time.Duration(c.delta) * time.Millisecond)
			if e := o.Send(c.bytes); e != nil {
				panic("Send: " + e.Error())
			}
		}
		stop()
		out.track = append(smf.Track{}, tr...)
		out.frames = in.frames
		out.conf = in.conf
		out.stage = "write"
		tr.Close(0)
		s := smf.New()
		s.TimeFormat = smf.MetricTicks(res)
		s.Add(tr)
		var w bytes.Buffer
		_, out.werr = s.WriteTo(&w)
		out.written = w.Bytes()
	})
	return
}

func c13ParseModelTrack(s string) (ds []uint64, ms []string, ok bool) {
	if s == "" {
		return nil, nil, false
	}
	if s == "-" {
		return nil, nil, true
	}
	for _, t := range strings.Split(s, ",") {
		p := strings.SplitN(t, ":", 2)
		if len(p) != 2 {
			return nil, nil, false
		}
		d, err := strconv.ParseUint(p[0], 10, 64)
		if err != nil {
			return nil, nil, false
		}
		ds = append(ds, d)
		ms = append(ms, p[1])
	}
	return ds, ms, true
}

// compareTrack: model track text vs implementation track; deltas may differ by one where tie[i] != 0 (i = event index)
func c13CompareTrack(model string, impl smf.Track, tie []int) (diff string, exact bool) {
	ds, ms, ok := c13ParseModelTrack(model)
	if !ok {
		return "model gave no track: " + short(model), false
	}
	if len(ds) != len(impl) {
		return fmt.Sprintf("model track has %d events, implementation %d: model %s impl %s", len(ds), len(impl), short(model), short(showTrack(impl))), false
	}
	exact = true
	for i, e := range impl {
		if i == 0 && tie[0] != 0 {
			// tempo value near a tie of 6e7/bpm: last three bytes may differ by one
			mm := unhx(ms[0])
			if len(mm) == 6 && len(e.Message) == 6 && bytes.Equal(mm[:3], e.Message[:3]) {
				a := int64(mm[3])<<16 | int64(mm[4])<<8 | int64(mm[5])
				b := int64(e.Message[3])<<16 | int64(e.Message[4])<<8 | int64(e.Message[5])
				if a-b <= 1 && b-a <= 1 {
					if a != b {
						exact = false
					}
					continue
				}
			}
		}
		if ms[i] != hx(e.Message) {
			return fmt.Sprintf("event %d: model message %s, implementation %s", i, ms[i], hx(e.Message)), false
		}
		if ds[i] != uint64(e.Delta) {
			df := int64(ds[i]) - int64(e.Delta)
			if i > 0 && tie[i] == 1 && df >= -1 && df <= 1 {
				exact = false
				continue
			}
			return fmt.Sprintf("event %d (%s): model delta %d, implementation %d", i, ms[i], ds[i], e.Delta), false
		}
	}
	return "", exact
}

func runC13(c Case, m *Model) (v Verdict) {
	f := fields(c.Op)
	res, _ := strconv.Atoi(f["res"])
	bpmRat, ok := new(big.Rat).SetString(f["bpm"])
	if !ok || res <= 0 {
		v.Mismatch = append(v.Mismatch, "unparsable op")
		return
	}
	bpm, _ := bpmRat.Float64()
	wholeBpm := bpmRat.IsInt()
	v.Counts = map[string]int{}
	if strings.HasPrefix(c.Op, "record.ticks") {
		runC13Ticks(c, m, &v, res, bpm, bpmRat, wholeBpm, f)
		return
	}
	cs := parseChunks(f["chunks"])
	run := c13Record(res, bpm, cs)
	if run.panic != "" {
		v.Oracle = append(v.Oracle, "panic while recording / writing ("+run.stage+"): "+run.panic+" :: "+short(c.Op))
		return
	}
	tr := run.track
	var fail []string
	bad := func(format string, a ...interface{}) { fail = append(fail, fmt.Sprintf(format, a...)) }

	// ---- oracle 1: the tempo event
	tie := make([]int, len(tr)+1)
	usExact := new(big.Rat).Quo(new(big.Rat).SetInt64(60000000), bpmRat)
	if len(tr) == 0 {
		bad("the recorded track is empty (no tempo event)")
	} else {
		e := tr[0]
		if e.Delta != 0 || len(e.Message) != 6 || e.Message[0] != 0xFF || e.Message[1] != 0x51 || e.Message[2] != 0x03 {
			bad("the first event is %d:%s, not a tempo event at delta 0", e.Delta, hx(e.Message))
		} else {
			u := int64(e.Message[3])<<16 | int64(e.Message[4])<<8 | int64(e.Message[5])
			if !withinOne(u, usExact) {
				bad("tempo event stores %d µs per quarter note, 6e7/bpm = %s", u, usExact.FloatString(3))
			}
			tie[0] = tieClass(usExact, false)
			if tie[0] != 0 {
				v.Tags = append(v.Tags, "tempo-near-tie")
			}
		}
	}
	// ---- oracle 2: exactly the channel messages delivered, unchanged, in order
	type chanMsg struct {
		ts int32
		b  []byte
	}
	var want []chanMsg
	nother := 0
	for _, fr := range run.frames {
		if len(fr.b) > 0 && fr.b[0] >= 0x80 && fr.b[0] <= 0xEF {
			n := chanLen(fr.b[0])
			if len(fr.b) < n {
				bad("the driver delivered the short channel frame %s", hx(fr.b))
				continue
			}
			want = append(want, chanMsg{fr.ts, fr.b[:n]})
		} else {
			nother++
		}
	}
	v.Counts["frames-delivered"] += len(run.frames)
	v.Counts["channel-messages-recorded"] += len(want)
	v.Counts["non-channel-frames-delivered"] += nother
	var body smf.Track
	if len(tr) > 0 {
		body = tr[1:]
	}
	if len(body) != len(want) {
		bad("%d channel messages were delivered but %d events follow the tempo event: track %s", len(want), len(body), short(showTrack(tr)))
	} else {
		var last int32
		for i, e := range body {
			w := want[i]
			if !bytes.Equal(e.Message, w.b) {
				bad("recorded message %d is %s, delivered was %s", i, hx(e.Message), hx(w.b))
				break
			}
			if !wellFormedMsg(e.Message, 0) || e.Message[0] >= 0xF0 {
				bad("recorded message %d (%s) is not a well-formed channel message", i, hx(e.Message))
			}
			// ---- oracle 3: delta within one tick of q·bpm·Δms/60000, Δms between RECORDED messages
			dms := int64(w.ts - last) // int32 difference: exact across the wrap of the millisecond clock at 2^31
			last = w.ts
			if dms < 0 {
				bad("time stamps delivered by the driver go backwards at message %d", i)
				break
			}
			x := exactTicks(res, bpmRat, dms)
			if !withinOne(int64(e.Delta), x) {
				bad("message %d (%s) at %d ms, previous recorded at %d ms: delta %d ticks, but %d·bpm·%d/60000 = %s", i, hx(e.Message), w.ts, int64(w.ts)-dms, e.Delta, res, dms, x.FloatString(3))
				break
			}
			tie[i+1] = tieClass(x, wholeBpm)
			if tie[i+1] == 1 {
				v.Tags = append(v.Tags, "delta-near-tie")
			}
			if e.Delta >= 1<<14 {
				v.Counts["delta>=2^14"]++
			}
			if e.Delta >= 1<<21 {
				v.Counts["delta>=2^21"]++
			}
		}
	}
	// ---- oracle 4: the written file is strictly valid and reads back to the same events
	closed := append(append(smf.Track{}, tr...), smf.Event{Delta: 0, Message: smf.EOT})
	content := fmt.Sprintf("0/m:%d/%s", res, showTrack(closed))
	strictOK := true
	for _, e := range tr {
		if e.Delta >= 1<<28 {
			strictOK = false
		}
	}
	if run.werr != nil {
		bad("WriteTo failed: %v", run.werr)
	} else {
		if strictOK {
			if sa := m.Ask("strict.parse " + hx(run.written)); sa != "s=ok:"+content {
				bad("strict parser on the written file: %s, recorded content %s, bytes %s", short(sa), short(content), short(hx(run.written)))
			}
		} else {
			v.Tags = append(v.Tags, "delta>=2^28(strict check skipped)")
		}
		if rb := readClass(run.written); rb != "ok:"+content {
			bad("smf.ReadFrom on the written file: %s, recorded content %s", short(rb), short(content))
		}
	}
	if len(fail) > 0 {
		for _, s := range fail {
			v.Oracle = append(v.Oracle, s+" :: "+short(c.Op))
		}
		return
	}
	// ---- correspondence: the callback model over the delivered frames
	bpmS := f["bpm"]
	fa := fields(m.Ask(fmt.Sprintf("record.frames res=%d bpm=%s frames=%s", res, bpmS, showLive(run.frames))))
	if fa["panic"] != "0" {
		v.Mismatch = append(v.Mismatch, "model (record.frames) answers "+short(fmt.Sprint(fa))+" :: "+short(c.Op))
		return
	}
	diff, exact := c13CompareTrack(fa["t"], tr, tie)
	if diff != "" {
		v.Mismatch = append(v.Mismatch, "callback model vs Track.RecordFrom: "+diff+" :: "+short(c.Op))
		return
	}
	if exact && fa["w"] != hx(run.written) {
		v.Mismatch = append(v.Mismatch, "file bytes: model "+short(fa["w"])+" impl "+short(hx(run.written))+" :: "+short(c.Op))
	}
	// ---- correspondence: the composed model from the wire (decoder + filter + re-typing + callback).
	// Scoped to C13: it is compared only when the model's decoder delivers the channel messages the tee saw (content and
	// stamps); a difference there is the business of C04/C06/C14 (or the wall clock under the first testdrv stamp).
	la := fields(m.Ask(c.Op))
	if la["panic"] != "0" {
		v.Mismatch = append(v.Mismatch, "model (record.live) answers "+short(fmt.Sprint(la))+" :: "+short(c.Op))
		return
	}
	var mch []string
	for _, mm := range parseLive(la["msgs"]) {
		if len(mm.b) > 0 && mm.b[0] >= 0x80 && mm.b[0] <= 0xEF {
			mch = append(mch, fmt.Sprintf("%d:%s", mm.ts, hx(mm.b)))
		}
	}
	var ich []string
	for _, w := range want {
		ich = append(ich, fmt.Sprintf("%d:%s", w.ts, hx(w.b)))
	}
	if strings.Join(mch, ",") != strings.Join(ich, ",") {
		v.Counts["composed-model-skipped(decoder or first stamp differs)"]++
		return
	}
	v.Counts["composed-model-compared"]++
	if diff, _ := c13CompareTrack(la["t"], tr, tie); diff != "" {
		v.Mismatch = append(v.Mismatch, "composed model (wire → track) vs Track.RecordFrom: "+diff+" :: "+short(c.Op))
	}
	return
}

func runC13Ticks(c Case, m *Model, v *Verdict, res int, bpm float64, bpmRat *big.Rat, wholeBpm bool, f map[string]string) {
	ma := fields(m.Ask(c.Op))
	mt := strings.Split(ma["ticks"], ",")
	ds := strings.Split(f["d"], ",")
	if ma["ticks"] == "" || len(mt) != len(ds) {
		v.Mismatch = append(v.Mismatch, "model answers "+short(fmt.Sprint(ma))+" :: "+short(c.Op))
		return
	}
	for i, s := range ds {
		d, _ := strconv.ParseInt(s, 10, 64)
		var got uint32
		if p := try(func() { got = smf.MetricTicks(res).Ticks(bpm, time.Duration(d)*time.Millisecond) }); p != "" {
			v.Oracle = append(v.Oracle, fmt.Sprintf("MetricTicks(%d).Ticks(%v, %d ms) panics: %s", res, bpm, d, p))
			return
		}
		x := exactTicks(res, bpmRat, d)
		v.Counts["ticks-triples"]++
		if !withinOne(int64(got), x) {
			v.Oracle = append(v.Oracle, fmt.Sprintf("MetricTicks(%d).Ticks(%v, %d ms) = %d, exact value %s", res, bpm, d, got, x.FloatString(4)))
			return
		}
		ref := roundHalfUp(x)
		mv, _ := strconv.ParseInt(mt[i], 10, 64)
		if mv != ref {
			v.Mismatch = append(v.Mismatch, fmt.Sprintf("ticksRef(%d, %s, %d) = %d, round(%s) = %d", res, f["bpm"], d, mv, x.FloatString(4), ref))
			return
		}
		switch tieClass(x, wholeBpm) {
		case 1:
			v.Counts["ticks-near-tie(±1 allowed)"]++
			if int64(got)-ref > 1 || ref-int64(got) > 1 {
				v.Mismatch = append(v.Mismatch, fmt.Sprintf("Ticks(q=%d, bpm=%v, %d ms) = %d, reference %d (near tie)", res, bpm, d, got, ref))
				return
			}
		case 2:
			v.Counts["ticks-exact-tie"]++
			fallthrough
		default:
			if int64(got) != ref {
				v.Mismatch = append(v.Mismatch, fmt.Sprintf("float conversion differs from the rational reference: Ticks(q=%d, bpm=%v, %d ms) = %d, round(%s) = %d",
					res, bpm, d, got, x.FloatString(6), ref))
				return
			}
		}
	}
}
