import MidiModel.Smf
/-!
# Sequencer export (`v2/sequencer`: `bar.go`, `event.go`, `song.go`)

`Song.AddBar`, `Bar.Len`, `Song.SetBarAbsTicks`, `Event.AbsTicks`, `Bar.trackEvents`, `Song.mkBarLine`,
`Song.ToSMF0`, `Song.ToSMF1`, statement by statement.  State is passed explicitly (the `AbsTicks` field
that `SetBarAbsTicks` writes into every bar is the first component of the pairs `place` returns); the
`uint8`/`uint16`/`uint32` conversions carry their `%`; a Go panic (integer division by zero in `Bar.Len`)
is the outcome `none`.

* `int64` sums (`absticks += …`, `start = b.AbsTicks + …`) are modelled without wrap: one bar is at most
  255·8192 ticks, so 2^63 needs more than 4·10^12 bars.
* `Ticks32th()` is `uint32(math.Round(float64(res)/8))` for a 16-bit `res`: a division of an integer below
  2^16 by 8 is exact in `float64` and `math.Round` rounds halves away from zero, i.e. `(res + 4) / 8`.
  No float enters the model; the harness compares `t32` with `Ticks32th()` for all 65536 resolutions.
* `sort.Sort` (not stable) is a parameter `srt` of the export functions: the theorems hold for every
  function that returns a permutation in non-decreasing tick order (`SortSpec`); the driver runs the
  merge sort `tickSort`, and the harness canonicalises events that share a tick before comparing.
* `sort.Sort(s.bars)` in `mkBarLine` orders by `Number`; `AddBar` renumbers 0,1,2,… after every append, so
  the keys are strictly increasing and every correct sort returns the list unchanged (identity here).
-/
namespace Midi.Sequencer
open Midi Midi.Smf

/-- `sequencer.Event` (`TrackNo int` restricted to the non-negative values the input language has;
    `Pos`, `Duration : uint8`) -/
structure Event where
  trackNo : Nat
  pos : Nat
  dur : Nat
  msg : Msg
deriving Repr, DecidableEq, Inhabited

/-- `sequencer.Bar`: `TimeSig = [num, den] : [2]uint8`, `Events` -/
structure Bar where
  num : Nat
  den : Nat
  events : List Event
deriving Repr, DecidableEq, Inhabited

structure Song where
  ticks : Nat                 -- `Ticks : smf.MetricTicks` (uint16)
  title : Bytes
  composer : Bytes
  trackNames : List Bytes
  bars : List Bar
deriving Repr, DecidableEq, Inhabited

/-- `Song.AddBar`: a bar without signature (`[0,0]`) takes the one of the last bar, 4/4 on an empty song -/
def Song.addBar (s : Song) (b : Bar) : Song :=
  let sig : Nat × Nat := match s.bars.getLast? with
    | none => (4, 4)
    | some l => (l.num, l.den)
  let b' : Bar := if b.num = 0 ∧ b.den = 0 then { b with num := sig.1, den := sig.2 } else b
  { s with bars := s.bars ++ [b'] }

/-- `New()`, the exported fields set, then `AddBar` for every bar of `bs` -/
def build (q : Nat) (title composer : Bytes) (names : List Bytes) (bs : List Bar) : Song :=
  bs.foldl Song.addBar ⟨q, title, composer, names, []⟩

/-- `Bar.Len() = uint8(uint16(TimeSig[0]) * 32 / uint16(TimeSig[1]))`; `none` = division by zero -/
def Bar.len (b : Bar) : Option Nat :=
  if b.den % 65536 = 0 then none
  else some ((b.num % 65536 * 32 % 65536 / (b.den % 65536)) % 256)

/-- `MetricTicks.Resolution()` -/
def resolution (q : Nat) : Nat := (if q = 0 then 960 else q) % 65536

/-- `MetricTicks.Ticks32th()` (see the header for the float) -/
def t32 (q : Nat) : Nat := (resolution q + 4) / 8 % 4294967296

/-- `Song.SetBarAbsTicks`: every bar with the `AbsTicks` it gets, and `lastTick` -/
def place (t : Nat) : Nat → List Bar → Option (List (Nat × Bar) × Nat)
  | abs, [] => some ([], abs)
  | abs, b :: r =>
    match b.len with
    | none => none
    | some l =>
      match place t (abs + l * t) r with
      | none => none
      | some (p, last) => some ((abs, b) :: p, last)

/-- `smf.TrackEvent` (the fields the export touches) -/
structure TEv where
  abs : Nat
  delta : Nat
  msg : Msg
  trackNo : Nat
deriving Repr, DecidableEq, Inhabited

/-- `uint32(a - b)` for `a b : int64` -/
def u32sub (a b : Nat) : Nat := (((a : Int) - (b : Int)) % 4294967296).toNat

/-- the loop `evts[i].Delta = uint32(evts[i].AbsTicks - lasttick); lasttick = evts[i].AbsTicks` -/
def setDeltas : Nat → List TEv → List TEv
  | _, [] => []
  | last, e :: r => { e with delta := u32sub e.abs last } :: setDeltas e.abs r

/-- `Event.AbsTicks(b, ticks)`: `(start, end)`, the products in `uint32` -/
def Event.absTicks (e : Event) (st t : Nat) : Nat × Nat :=
  let start := st + t * (e.pos % 4294967296) % 4294967296
  if e.dur = 0 then (start, 0)
  else (start, start + t * (e.dur % 4294967296) % 4294967296)

/-- `Message.GetNoteStart`: a three-byte message with a note-on status and a non-zero velocity;
    yields `(channel, key)` (`b & 0x0F`, `b & 0x7F`) -/
def noteStart (m : Msg) : Option (Nat × Nat) :=
  match m with
  | [s, d1, d2] =>
    if 0x80 ≤ s ∧ s ≤ 0xEF ∧ s / 16 % 16 = 9 ∧ d2 % 128 ≠ 0 then some (s % 16, d1 % 128) else none
  | _ => none

/-- `midi.NoteOff(channel, key)` for `channel < 16`, `key < 128` (what `noteStart` returns) -/
def noteOffMsg (ch key : Nat) : Msg := [0x80 + ch, key, 0]

/-- the events one `sequencer.Event` contributes in `Bar.trackEvents` -/
def evTEvs (t st : Nat) (e : Event) : List TEv :=
  let (start, end_) := e.absTicks st t
  ⟨start, 0, e.msg, e.trackNo⟩ ::
    (match noteStart e.msg with
     | some (ch, key) => if end_ ≠ 0 then [⟨end_, 0, noteOffMsg ch key, e.trackNo⟩] else []
     | none => [])

/-- `Bar.trackEvents(ticks)` of the bar `b` with `AbsTicks = st` -/
def trackEvents (srt : List TEv → List TEv) (t : Nat) (sb : Nat × Bar) : List TEv :=
  setDeltas 0 (srt (sb.2.events.flatMap (evTEvs t sb.1)))

/-- `dec2binDenom` (the loop runs at most 7 times for a `uint8`) -/
def dec2binLoop : Nat → Nat → Nat → Nat
  | 0, _, bin => bin
  | f+1, dec, bin => if dec > 2 then dec2binLoop f (dec / 2) ((bin + 1) % 256) else bin

def dec2bin (dec : Nat) : Nat :=
  if dec ≤ 1 then 0 else (dec2binLoop 8 dec 0 + 1) % 256

/-- `_MetaMessage(typ, data)` -/
def metaMsg (typ : Nat) (data : Bytes) : Msg :=
  [0xFF, typ] ++ Vlq.encode (data.length % 4294967296) ++ data

/-- `smf.MetaMeter(num, den)` = `MetaTimeSig(num, den, 8, 8)` -/
def metaMeter (num den : Nat) : Msg :=
  let den := if den = 0 then 1 else den
  metaMsg 0x58 [num, dec2bin den, 8, 8]

def metaText (s : Bytes) : Msg := metaMsg 0x01 s
def metaCopyright (s : Bytes) : Msg := metaMsg 0x02 s
def metaSeqName (s : Bytes) : Msg := metaMsg 0x03 s

/-- the time-signature loop of `mkBarLine` (`timesig` starts as 4/4) -/
def sigEvts : Nat × Nat → List (Nat × Bar) → List TEv
  | _, [] => []
  | sig, (st, b) :: r =>
    if ¬ (b.num = 0 ∧ b.den = 0) ∧ (b.num, b.den) ≠ sig then
      ⟨st, 0, metaMeter b.num b.den, 0⟩ :: sigEvts (b.num, b.den) r
    else sigEvts sig r

/-- `Song.mkBarLine`: (bars with `AbsTicks`, `lastTick`, time-signature events with deltas) -/
def mkBarLine (t : Nat) (bars : List Bar) : Option (List (Nat × Bar) × Nat × List TEv) :=
  match place t 0 bars with
  | none => none
  | some (placed, last) => some (placed, last, setDeltas 0 (sigEvts (4, 4) placed))

/-- `for i … { t.Add(uint32(evts[i].AbsTicks-lasttick), evts[i].Message); lasttick = evts[i].AbsTicks }` -/
def addAll : Track → Nat → List TEv → Track × Nat
  | t, last, [] => (t, last)
  | t, last, e :: r => addAll (t.add (u32sub e.abs last) [e.msg]) e.abs r

/-- `for _, ev := range barevts { barTrack.Add(ev.Delta, ev.Message); lastMessageAbs = ev.AbsTicks }` -/
def addWithDeltas : Track → Nat → List TEv → Track × Nat
  | t, last, [] => (t, last)
  | t, _, e :: r => addWithDeltas (t.add e.delta [e.msg]) e.abs r

/-- the per-track loop of `ToSMF1` (`if ev.TrackNo == trackno`) -/
def addTrackNo (n : Nat) : Track → Nat → List TEv → Track × Nat
  | t, last, [] => (t, last)
  | t, last, e :: r =>
    if e.trackNo = n then addTrackNo n (t.add (u32sub e.abs last) [e.msg]) e.abs r
    else addTrackNo n t last r

/-- sorted insertion without duplicates: the keys of `settracks` after `sort.Ints` -/
def insertNo (n : Nat) : List Nat → List Nat
  | [] => [n]
  | a :: r => if n < a then n :: a :: r else if n = a then a :: r else a :: insertNo n r

def trackNos (l : List TEv) : List Nat := l.foldr (fun e acc => insertNo e.trackNo acc) []

def emptyFile (q : Nat) : File := ⟨0, .metric q, []⟩

/-- `Song.ToSMF0()`; `none` = panic -/
def toSMF0 (srt : List TEv → List TEv) (s : Song) : Option File :=
  let q := if s.ticks = 0 then 960 else s.ticks
  let t0 := (Track.add [] 0 [metaText s.title]).add 0 [metaCopyright s.composer]
  match mkBarLine (t32 q) s.bars with
  | none => none
  | some (placed, lastTick, barEvts) =>
    let evts := barEvts ++ placed.flatMap (trackEvents srt (t32 q))
    let r := addAll t0 0 (srt evts)
    some ((emptyFile q).addTrack (r.1.close (u32sub lastTick r.2)))

/-- `fmt.Sprintf("track-%v", trackno)` -/
def defaultName (n : Nat) : Bytes := [0x74, 0x72, 0x61, 0x63, 0x6B, 0x2D] ++ (Nat.repr n).toList.map Char.toNat

/-- `name := fmt.Sprintf("track-%v", trackno); if len(s.TrackNames) > trackno { name = s.TrackNames[trackno] }` -/
def trackName (names : List Bytes) (n : Nat) : Bytes :=
  match names[n]? with
  | some nm => nm
  | none => defaultName n

/-- the body of `for _, trackno := range tracks` -/
def eventTrack (names : List Bytes) (lastTick : Nat) (sorted : List TEv) (n : Nat) : Track :=
  let r := addTrackNo n (Track.add [] 0 [metaSeqName (trackName names n)]) 0 sorted
  r.1.close (u32sub lastTick r.2)

/-- `Song.ToSMF1()`; `none` = panic -/
def toSMF1 (srt : List TEv → List TEv) (s : Song) : Option File :=
  let q := if s.ticks = 0 then 960 else s.ticks
  let bt := ((Track.add [] 0 [metaText s.title]).add 0 [metaCopyright s.composer]).add 0
    [metaSeqName [0x62, 0x61, 0x72, 0x73]]
  match mkBarLine (t32 q) s.bars with
  | none => none
  | some (placed, lastTick, barEvts) =>
    let r := addWithDeltas bt 0 barEvts
    let sm := (emptyFile q).addTrack (r.1.close (u32sub lastTick r.2))
    let allevts := placed.flatMap (trackEvents srt (t32 q))
    let tracks := trackNos allevts
    let sorted := srt allevts
    some (tracks.foldl (fun sm n => sm.addTrack (eventTrack s.trackNames lastTick sorted n)) sm)

/-- the sort the driver runs: stable merge sort by tick -/
def tickSort (l : List TEv) : List TEv := l.mergeSort (fun a b => decide (a.abs ≤ b.abs))

/-! ## Line protocol -/

def parseEvent (s : String) : Option Event :=
  match s.splitOn "." with
  | [tr, p, d, m] => do
    let tr ← tr.toNat?
    let p ← p.toNat?
    let d ← d.toNat?
    let m ← unhex m
    if p < 256 ∧ d < 256 then pure ⟨tr, p, d, m⟩ else none
  | _ => none

/-- `num/den:ev;ev;…` (`-` = no events) -/
def parseBar (s : String) : Option Bar :=
  match s.splitOn ":" with
  | [sig, evs] =>
    match sig.splitOn "/" with
    | [n, d] => do
      let n ← n.toNat?
      let d ← d.toNat?
      let es ← if evs = "-" then some [] else (evs.splitOn ";").mapM parseEvent
      if n < 256 ∧ d < 256 then pure ⟨n, d, es⟩ else none
    | _ => none
  | _ => none

def showOpt : Option File → String
  | none => "panic"
  | some f => showFile f

def natList (l : List Nat) : String := joinWith "," (l.map toString)

--@driver seq. Sequencer.handle
def handle (op : String) (args : List String) : String :=
  match op with
  | "seq.export" =>
    let bars := (args.filter (·.startsWith "b=")).mapM (fun a => parseBar (a.drop 2).toString)
    let names := match field "tn" args with
      | none => none
      | some "none" => some []
      | some s => (s.splitOn ",").mapM unhex
    match natField "q" args, (field "ti" args).bind unhex, (field "co" args).bind unhex, names, bars with
    | some q, some ti, some co, some tn, some bs =>
      if q < 65536 then
        let s := build q ti co tn bs
        -- `Bars()[k].AbsTicks` after an export
        let st := match place (t32 (if q = 0 then 960 else q)) 0 s.bars with
          | none => "panic"
          | some (placed, _) => if placed.isEmpty then "-" else natList (placed.map Prod.fst)
        s!"s0={showOpt (toSMF0 tickSort s)} s1={showOpt (toSMF1 tickSort s)} st={st}"
      else "bad-op"
    | _, _, _, _, _ => "bad-op"
  | "seq.lens" =>        -- Bar.Len for one denominator and all 256 numerators
    match args with
    | [d] => match d.toNat? with
      | some d => if d < 256 then
          "lens=" ++ joinWith "," ((List.range 256).map fun n =>
            match Bar.len ⟨n, d, []⟩ with | none => "panic" | some l => toString l)
        else "bad-op"
      | none => "bad-op"
    | _ => "bad-op"
  | "seq.t32s" =>        -- Ticks32th for 1024 consecutive resolutions
    match args with
    | [lo] => match lo.toNat? with
      | some lo => if lo + 1024 ≤ 65536 then "t32=" ++ natList ((List.range 1024).map fun i => t32 (lo + i)) else "bad-op"
      | none => "bad-op"
    | _ => "bad-op"
  | "seq.meter" =>       -- MetaMeter(n, d)
    match args with
    | [n, d] => match n.toNat?, d.toNat? with
      | some n, some d => if n < 256 ∧ d < 256 then "m=" ++ hex (metaMeter n d) else "bad-op"
      | _, _ => "bad-op"
    | _ => "bad-op"
  | _ => "bad-op"

end Midi.Sequencer
