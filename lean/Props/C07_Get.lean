import MidiModel.Msg
import Props.C08_Code
import Props.C07_Code
import Props.C07
import Props.C18_Parse
/-!
# C07, tie to the source: the fourteen accessors of `midi.Message` (`message.go`: `GetNoteOn` … `GetSysEx`) as
translated by `tools/go2lean` on every run are the model's accessors — for every byte string, for every choice of nil
and non-nil out-parameters, and whatever the caller's variables held before: `false` leaves them alone, `true` writes
exactly the non-nil ones, a panic exactly where the model says so.

A pointer out-parameter `p *T` is translated as a flag `p_nil` and the pointee's value on entry; the pointees' final
values follow the function's result (`sel nil old new` = what the caller's variable holds afterwards).
-/
namespace Midi.C07
open Midi Midi.Go Midi.Msg

set_option linter.unusedSimpArgs false
set_option linter.unusedVariables false
set_option maxHeartbeats 1000000

theorem is_msgIs (m : Bytes) (c : Int) : ∃ b, msgIs .midi m c = some b ∧ midi.Message.Is m c = .ok b := by
  obtain ⟨t, h1, h2⟩ := Midi.C08.code_Is m c
  exact ⟨typeIs t c, by simp [msgIs, typeOf, h1], h2⟩

/-- what a caller's variable holds after the call: untouched behind a nil pointer -/
def sel {α : Type} (isNil : Bool) (old new : α) : α := if isNil then old else new

/-- the shape of `GetNoteOn`, `GetNoteOff`, `GetPolyAfterTouch`, `GetControlChange` -/
abbrev Get3 := Bytes → Bool → Nat → Bool → Nat → Bool → Nat → Except String (Bool × Nat × Nat × Nat)
def Spec3 (model : Bytes → Res (Nat × Nat × Nat)) (code : Get3) : Prop :=
  ∀ (m : Bytes) (cn kn vn : Bool) (c0 k0 v0 : Nat),
    match model m with
    | .panic => ∃ e, code m cn c0 kn k0 vn v0 = .error e
    | .no => code m cn c0 kn k0 vn v0 = .ok (false, c0, k0, v0)
    | .yes (c, k, v) => code m cn c0 kn k0 vn v0 = .ok (true, sel cn c0 c, sel kn k0 k, sel vn v0 v)

theorem code_GetNoteOn : Spec3 getNoteOn midi.Message.GetNoteOn := by
  intro m cn kn vn c0 k0 v0
  obtain ⟨b, hb, hI⟩ := is_msgIs m NoteOnMsg
  have hI' : midi.Message.Is m (15 : Int) = .ok b := hI
  unfold getNoteOn get3 midi.Message.GetNoteOn
  rw [hb]
  cases b
  · simp [hI', bind, Except.bind, pure, Except.pure]
  · rcases m with _ | ⟨s, _ | ⟨a, _ | ⟨d, _ | ⟨x, r⟩⟩⟩⟩
    all_goals (cases cn <;> cases kn <;> cases vn <;>
      simp [hI', bind, Except.bind, pure, Except.pure, Go.idx, sel, code_ParseStatus, code_ParseTwoUint7] <;> try omega)

theorem code_GetNoteOff : Spec3 getNoteOff midi.Message.GetNoteOff := by
  intro m cn kn vn c0 k0 v0
  obtain ⟨b, hb, hI⟩ := is_msgIs m NoteOffMsg
  have hI' : midi.Message.Is m (16 : Int) = .ok b := hI
  unfold getNoteOff get3 midi.Message.GetNoteOff
  rw [hb]
  cases b
  · simp [hI', bind, Except.bind, pure, Except.pure]
  · rcases m with _ | ⟨s, _ | ⟨a, _ | ⟨d, _ | ⟨x, r⟩⟩⟩⟩
    all_goals (cases cn <;> cases kn <;> cases vn <;>
      simp [hI', bind, Except.bind, pure, Except.pure, Go.idx, sel, code_ParseStatus, code_ParseTwoUint7] <;> try omega)

theorem code_GetPolyAfterTouch : Spec3 getPolyAfterTouch midi.Message.GetPolyAfterTouch := by
  intro m cn kn vn c0 k0 v0
  obtain ⟨b, hb, hI⟩ := is_msgIs m PolyAfterTouchMsg
  have hI' : midi.Message.Is m (20 : Int) = .ok b := hI
  unfold getPolyAfterTouch get3 midi.Message.GetPolyAfterTouch
  rw [hb]
  cases b
  · simp [hI', bind, Except.bind, pure, Except.pure]
  · rcases m with _ | ⟨s, _ | ⟨a, _ | ⟨d, _ | ⟨x, r⟩⟩⟩⟩
    all_goals (cases cn <;> cases kn <;> cases vn <;>
      simp [hI', bind, Except.bind, pure, Except.pure, Go.idx, sel, code_ParseStatus, code_ParseTwoUint7] <;> try omega)

theorem code_GetControlChange : Spec3 getControlChange midi.Message.GetControlChange := by
  intro m cn kn vn c0 k0 v0
  obtain ⟨b, hb, hI⟩ := is_msgIs m ControlChangeMsg
  have hI' : midi.Message.Is m (17 : Int) = .ok b := hI
  unfold getControlChange get3 midi.Message.GetControlChange
  rw [hb]
  cases b
  · simp [hI', bind, Except.bind, pure, Except.pure]
  · rcases m with _ | ⟨s, _ | ⟨a, _ | ⟨d, _ | ⟨x, r⟩⟩⟩⟩
    all_goals (cases cn <;> cases kn <;> cases vn <;>
      simp [hI', bind, Except.bind, pure, Except.pure, Go.idx, sel, code_ParseStatus, code_ParseTwoUint7] <;> try omega)

/-- the shape of `GetAfterTouch`, `GetProgramChange` -/
abbrev Get2 := Bytes → Bool → Nat → Bool → Nat → Except String (Bool × Nat × Nat)
def Spec2 (model : Bytes → Res (Nat × Nat)) (code : Get2) : Prop :=
  ∀ (m : Bytes) (cn pn : Bool) (c0 p0 : Nat),
    match model m with
    | .panic => ∃ e, code m cn c0 pn p0 = .error e
    | .no => code m cn c0 pn p0 = .ok (false, c0, p0)
    | .yes (c, p) => code m cn c0 pn p0 = .ok (true, sel cn c0 c, sel pn p0 p)

theorem code_GetAfterTouch : Spec2 getAfterTouch midi.Message.GetAfterTouch := by
  intro m cn pn c0 p0
  obtain ⟨b, hb, hI⟩ := is_msgIs m AfterTouchMsg
  have hI' : midi.Message.Is m (19 : Int) = .ok b := hI
  unfold getAfterTouch get2 midi.Message.GetAfterTouch
  rw [hb]
  cases b
  · simp [hI', bind, Except.bind, pure, Except.pure]
  · rcases m with _ | ⟨s, _ | ⟨a, _ | ⟨d, r⟩⟩⟩
    all_goals (cases cn <;> cases pn <;>
      simp [hI', bind, Except.bind, pure, Except.pure, Go.idx, sel, code_ParseStatus, code_ParseUint7] <;> try omega)

theorem code_GetProgramChange : Spec2 getProgramChange midi.Message.GetProgramChange := by
  intro m cn pn c0 p0
  obtain ⟨b, hb, hI⟩ := is_msgIs m ProgramChangeMsg
  have hI' : midi.Message.Is m (21 : Int) = .ok b := hI
  unfold getProgramChange get2 midi.Message.GetProgramChange
  rw [hb]
  cases b
  · simp [hI', bind, Except.bind, pure, Except.pure]
  · rcases m with _ | ⟨s, _ | ⟨a, _ | ⟨d, r⟩⟩⟩
    all_goals (cases cn <;> cases pn <;>
      simp [hI', bind, Except.bind, pure, Except.pure, Go.idx, sel, code_ParseStatus, code_ParseUint7] <;> try omega)

/-! `ParsePitchWheelVals` as a pair of two functions: a projection of the call itself makes the kernel unfold the bit
operations on variables when it checks `simp`'s definitional steps, a pair of opaque applications does not. -/
def pwAbs (b1 b2 : Nat) : Nat := (((b2 &&& 0x7f) <<< 7) % 65536) ||| (b1 &&& 0x7f)
def pwRel (b1 b2 : Nat) : Int :=
  ((if pwAbs b1 b2 < 32768 then (pwAbs b1 b2 : Int) else (pwAbs b1 b2 : Int) - 65536) - 0x2000 + 32768) % 65536 - 32768
theorem pw_pair (b1 b2 : Nat) : parsePitchWheelVals b1 b2 = (pwRel b1 b2, pwAbs b1 b2) := rfl
theorem code_pw (b1 b2 : Nat) : utils.ParsePitchWheelVals b1 b2 = (pwRel b1 b2, pwAbs b1 b2) := by
  rw [code_ParsePitchWheelVals, pw_pair]

/-- evaluation of the translated accessor bodies on a list of known shape, in stages -/
macro "eval_get" h:ident : tactic => `(tactic| (
  simp only [code_pw, pw_pair]
  simp only [$h:ident, bind, Except.bind, pure, Except.pure, Go.idx, throw, throwThe, MonadExceptOf.throw]
  simp only [List.length_cons, List.length_nil]
  try simp only [not_true_eq_false, not_false_eq_true, ↓reduceIte, Nat.zero_add, Nat.reduceAdd, Int.cast_ofNat_Int, ne_eq,
    Std.le_refl, Int.toNat_zero, Nat.zero_lt_succ, getElem?_pos, List.getElem_cons_zero, Bool.false_eq_true,
    Bool.true_eq_false, Int.zero_le_ofNat, Int.toNat_one, Nat.reduceLT, List.getElem_cons_succ, Int.reduceToNat,
    Nat.lt_add_one, List.getElem?_cons_zero, List.getElem?_cons_succ, List.getElem?_nil, code_ParseStatus, sel,
    or_self, or_true, true_or, or_false, false_or, Int.reduceEq, Int.reduceNeg, Int.natCast_add, Int.cast_ofNat_Int,
    Int.reduceAdd, reduceCtorEq, exists_const, Except.ok.injEq, Prod.mk.injEq, and_self, and_true, true_and]))

/-- `GetPitchBend(channel *uint8, relative *int16, absolute *uint16)` -/
theorem code_GetPitchBend (m : Bytes) (cn rn an : Bool) (c0 : Nat) (r0 : Int) (a0 : Nat) :
    match getPitchBend m with
    | .panic => ∃ e, midi.Message.GetPitchBend m cn c0 rn r0 an a0 = .error e
    | .no => midi.Message.GetPitchBend m cn c0 rn r0 an a0 = .ok (false, c0, r0, a0)
    | .yes (c, r, a) => midi.Message.GetPitchBend m cn c0 rn r0 an a0 = .ok (true, sel cn c0 c, sel rn r0 r, sel an a0 a) := by
  obtain ⟨b, hb, hI⟩ := is_msgIs m PitchBendMsg
  have hI' : midi.Message.Is m (18 : Int) = .ok b := hI
  unfold getPitchBend midi.Message.GetPitchBend
  rw [hb]
  cases b
  · simp [hI', bind, Except.bind, pure, Except.pure]
  · rcases m with _ | ⟨s, _ | ⟨a, _ | ⟨d, _ | ⟨x, r⟩⟩⟩⟩
    all_goals (cases cn <;> cases rn <;> cases an <;> eval_get hI' <;> try simp <;> try omega)

/-- the shape of `GetMTC`, `GetSongSelect`, `GetSPP`, `GetChannel` -/
abbrev Get1 := Bytes → Bool → Nat → Except String (Bool × Nat)
def Spec1 (model : Bytes → Res Nat) (code : Get1) : Prop :=
  ∀ (m : Bytes) (xn : Bool) (x0 : Nat),
    match model m with
    | .panic => ∃ e, code m xn x0 = .error e
    | .no => code m xn x0 = .ok (false, x0)
    | .yes x => code m xn x0 = .ok (true, sel xn x0 x)

theorem code_GetMTC : Spec1 getMTC midi.Message.GetMTC := by
  intro m xn x0
  obtain ⟨b, hb, hI⟩ := is_msgIs m MTCMsg
  have hI' : midi.Message.Is m (31 : Int) = .ok b := hI
  unfold getMTC get1 midi.Message.GetMTC
  rw [hb]
  cases b
  · simp [hI', bind, Except.bind, pure, Except.pure]
  · rcases m with _ | ⟨s, _ | ⟨a, _ | ⟨d, r⟩⟩⟩
    all_goals (cases xn <;>
      simp [hI', bind, Except.bind, pure, Except.pure, Go.idx, sel, code_ParseUint7] <;> try omega)

theorem code_GetSongSelect : Spec1 getSongSelect midi.Message.GetSongSelect := by
  intro m xn x0
  obtain ⟨b, hb, hI⟩ := is_msgIs m SongSelectMsg
  have hI' : midi.Message.Is m (32 : Int) = .ok b := hI
  unfold getSongSelect get1 midi.Message.GetSongSelect
  rw [hb]
  cases b
  · simp [hI', bind, Except.bind, pure, Except.pure]
  · rcases m with _ | ⟨s, _ | ⟨a, _ | ⟨d, r⟩⟩⟩
    all_goals (cases xn <;>
      simp [hI', bind, Except.bind, pure, Except.pure, Go.idx, sel, code_ParseUint7] <;> try omega)

theorem code_GetSPP : Spec1 getSPP midi.Message.GetSPP := by
  intro m xn x0
  obtain ⟨b, hb, hI⟩ := is_msgIs m SPPMsg
  have hI' : midi.Message.Is m (33 : Int) = .ok b := hI
  unfold getSPP midi.Message.GetSPP
  rw [hb]
  cases b
  · simp [hI', bind, Except.bind, pure, Except.pure]
  · rcases m with _ | ⟨s, _ | ⟨a, _ | ⟨d, _ | ⟨x, r⟩⟩⟩⟩
    all_goals (cases xn <;> eval_get hI' <;> try simp <;> try omega)

theorem code_GetChannel : Spec1 getChannel midi.Message.GetChannel := by
  intro m xn x0
  obtain ⟨b, hb, hI⟩ := is_msgIs m ChannelMsg
  have hI' : midi.Message.Is m (-3 : Int) = .ok b := hI
  unfold getChannel midi.Message.GetChannel
  rw [hb]
  cases b
  · simp [hI', bind, Except.bind, pure, Except.pure]
  · rcases m with _ | ⟨s, r⟩
    all_goals (cases xn <;>
      simp [hI', bind, Except.bind, pure, Except.pure, Go.idx, sel, code_ParseStatus] <;> try omega)

/-- `GetSysEx(bt *[]byte)`: the payload between F0 and F7 -/
theorem code_GetSysEx (m : Bytes) (bn : Bool) (b0 : Bytes) (hlen : m.length < 4611686018427387904) :
    match getSysEx m with
    | .panic => ∃ e, midi.Message.GetSysEx m bn b0 = .error e
    | .no => midi.Message.GetSysEx m bn b0 = .ok (false, b0)
    | .yes d => if bn then ∃ e, midi.Message.GetSysEx m bn b0 = .error e   -- `*bt = …` through a nil pointer
                else midi.Message.GetSysEx m bn b0 = .ok (true, d) := by
  obtain ⟨b, hb, hI⟩ := is_msgIs m SysExMsg
  have hI' : midi.Message.Is m (-4 : Int) = .ok b := hI
  unfold getSysEx midi.Message.GetSysEx
  by_cases h3 : m.length < 3
  · have : (m.length : Int) < 3 := by omega
    simp [h3, this, bind, Except.bind, pure, Except.pure]
  · have h3i : ¬ (m.length : Int) < 3 := by omega
    simp only [h3, h3i, if_false]
    rw [hb]
    cases b
    · simp [hI', bind, Except.bind, pure, Except.pure]
    · have hw : Go.wrapS 64 ((m.length : Int) - (1 : Int)) = ((m.length - 1 : Nat) : Int) := by
        have := Midi.C18.wrapS64_sub m.length 1 (by omega) hlen
        simpa using this
      have h0 : 0 < m.length := by omega
      have hl : m.length - 1 < m.length := by omega
      have e0 : m[0]? = some m[0] := List.getElem?_eq_getElem h0
      have el : m[m.length - 1]? = some m[m.length - 1] := List.getElem?_eq_getElem hl
      have hs1 : (1 : Int) ≤ ((m.length - 1 : Nat) : Int) := by omega
      have hs2 : 1 ≤ m.length - 1 := by omega
      simp only [hI', hw, e0, el]
      by_cases hf : m[0] = 240 <;> by_cases hl7 : m[m.length - 1] = 247 <;> cases bn <;>
        simp [hf, hl7, hs1, hs2, e0, el, slice, Go.idx, Go.slice, bind, Except.bind, pure, Except.pure, throw, throwThe,
          MonadExceptOf.throw]

/-- `GetNoteStart`: a note-on with velocity 0 is refused — after the channel and key pointers were written
    (`GetNoteOn(channel, key, &vel)` comes first); the velocity pointer is written only on `true` -/
theorem code_GetNoteStart (m : Bytes) (cn kn vn : Bool) (c0 k0 v0 : Nat) :
    match getNoteOn m with
    | .panic => ∃ e, midi.Message.GetNoteStart m cn c0 kn k0 vn v0 = .error e
    | .no => midi.Message.GetNoteStart m cn c0 kn k0 vn v0 = .ok (false, c0, k0, v0)
    | .yes (c, k, v) =>
      midi.Message.GetNoteStart m cn c0 kn k0 vn v0 =
        .ok (if v = 0 then (false, sel cn c0 c, sel kn k0 k, v0) else (true, sel cn c0 c, sel kn k0 k, sel vn v0 v)) := by
  have h := code_GetNoteOn m cn kn false c0 k0 0
  unfold midi.Message.GetNoteStart
  cases hg : getNoteOn m with
  | panic =>
    rw [hg] at h; obtain ⟨e, he⟩ := h
    exact ⟨e, by simp [he, bind, Except.bind]⟩
  | no =>
    rw [hg] at h
    simp [h, bind, Except.bind, pure, Except.pure]
  | yes t =>
    obtain ⟨c, k, v⟩ := t
    rw [hg] at h
    simp only [] at h ⊢
    by_cases hv : v = 0 <;> cases vn <;>
      simp [h, hv, sel, bind, Except.bind, pure, Except.pure, throw, throwThe, MonadExceptOf.throw]

/-- … and in terms of the model's `getNoteStart` -/
theorem code_GetNoteStart_model (m : Bytes) (cn kn vn : Bool) (c0 k0 v0 : Nat) :
    match getNoteStart m with
    | .panic => ∃ e, midi.Message.GetNoteStart m cn c0 kn k0 vn v0 = .error e
    | .no => ∃ c k, midi.Message.GetNoteStart m cn c0 kn k0 vn v0 = .ok (false, c, k, v0)
    | .yes (c, k, v) => midi.Message.GetNoteStart m cn c0 kn k0 vn v0 = .ok (true, sel cn c0 c, sel kn k0 k, sel vn v0 v) := by
  have h := code_GetNoteStart m cn kn vn c0 k0 v0
  unfold getNoteStart
  cases hg : getNoteOn m with
  | panic => rw [hg] at h; exact h
  | no => rw [hg] at h; exact ⟨c0, k0, h⟩
  | yes t =>
    obtain ⟨c, k, v⟩ := t
    rw [hg] at h
    simp only [] at h ⊢
    by_cases hv : v = 0
    · simp only [hv, if_true] at h ⊢; exact ⟨_, _, h⟩
    · simp only [hv, if_false] at h ⊢; exact h

/-- `GetNoteEnd(channel, key *uint8)`: a note-off, or a note-on with velocity 0; `false` writes nothing (the two inner
    accessors fill local variables) -/
theorem code_GetNoteEnd (m : Bytes) (cn kn : Bool) (c0 k0 : Nat) :
    match getNoteEnd m with
    | .panic => ∃ e, midi.Message.GetNoteEnd m cn c0 kn k0 = .error e
    | .no => midi.Message.GetNoteEnd m cn c0 kn k0 = .ok (false, c0, k0)
    | .yes (c, k) => midi.Message.GetNoteEnd m cn c0 kn k0 = .ok (true, sel cn c0 c, sel kn k0 k) := by
  obtain ⟨b1, hb1, hI1⟩ := is_msgIs m NoteOnMsg
  obtain ⟨b2, hb2, hI2⟩ := is_msgIs m NoteOffMsg
  have hI1' : midi.Message.Is m (15 : Int) = .ok b1 := hI1
  have hI2' : midi.Message.Is m (16 : Int) = .ok b2 := hI2
  have h1 := code_GetNoteOn m false false false 0 0 0
  have h2 := code_GetNoteOff m false false false 0 0 0
  unfold getNoteEnd noteEndBody midi.Message.GetNoteEnd
  rw [hb1, hb2]
  cases hg1 : getNoteOn m with
  | panic =>
    rw [hg1] at h1; obtain ⟨e, he⟩ := h1
    cases b1 <;> cases b2 <;> simp [hI1', hI2', he, bind, Except.bind, pure, Except.pure]
  | yes t =>
    obtain ⟨c, k, v⟩ := t
    rw [hg1] at h1
    simp only [sel] at h1
    by_cases hv : v = 0 <;> cases b1 <;> cases b2 <;> cases cn <;> cases kn <;>
      simp [hI1', hI2', h1, hv, sel, bind, Except.bind, pure, Except.pure, throw, throwThe, MonadExceptOf.throw]
  | no =>
    rw [hg1] at h1
    cases hg2 : getNoteOff m with
    | panic =>
      rw [hg2] at h2; obtain ⟨e, he⟩ := h2
      cases b1 <;> cases b2 <;> simp [hI1', hI2', h1, he, bind, Except.bind, pure, Except.pure]
    | no =>
      rw [hg2] at h2
      cases b1 <;> cases b2 <;> simp [hI1', hI2', h1, h2, bind, Except.bind, pure, Except.pure]
    | yes t =>
      obtain ⟨c, k, v⟩ := t
      rw [hg2] at h2
      simp only [sel] at h2
      cases b1 <;> cases b2 <;> cases cn <;> cases kn <;>
        simp [hI1', hI2', h1, h2, sel, bind, Except.bind, pure, Except.pure, throw, throwThe, MonadExceptOf.throw]

/-! ## The property on the translated code itself: constructor, then accessor

`midi.X(args)` followed by `m.GetX(&a, &b, &c)` (any of the pointers nil) — both as translated from the source — returns
`true` and leaves the clamped arguments in exactly the variables behind the non-nil pointers. -/

theorem code_roundtrip_NoteOn (ch k v : Nat) (cn kn vn : Bool) (c0 k0 v0 : Nat) :
    (midi.NoteOn ch k v >>= fun m => midi.Message.GetNoteOn m cn c0 kn k0 vn v0)
      = .ok (true, sel cn c0 (min ch 15), sel kn k0 (min k 127), sel vn v0 (min v 127)) := by
  rw [code_NoteOn]
  have h := code_GetNoteOn (noteOn ch k v) cn kn vn c0 k0 v0
  rw [getNoteOn_noteOn] at h
  exact h

theorem code_roundtrip_NoteOffVelocity (ch k v : Nat) (cn kn vn : Bool) (c0 k0 v0 : Nat) :
    (midi.NoteOffVelocity ch k v >>= fun m => midi.Message.GetNoteOff m cn c0 kn k0 vn v0)
      = .ok (true, sel cn c0 (min ch 15), sel kn k0 (min k 127), sel vn v0 (min v 127)) := by
  rw [code_NoteOffVelocity]
  have h := code_GetNoteOff (noteOffVelocity ch k v) cn kn vn c0 k0 v0
  rw [getNoteOff_noteOffVelocity] at h
  exact h

theorem code_roundtrip_PolyAfterTouch (ch k p : Nat) (cn kn pn : Bool) (c0 k0 p0 : Nat) :
    (midi.PolyAfterTouch ch k p >>= fun m => midi.Message.GetPolyAfterTouch m cn c0 kn k0 pn p0)
      = .ok (true, sel cn c0 (min ch 15), sel kn k0 (min k 127), sel pn p0 (min p 127)) := by
  rw [code_PolyAfterTouch]
  have h := code_GetPolyAfterTouch (polyAfterTouch ch k p) cn kn pn c0 k0 p0
  rw [getPolyAfterTouch_polyAfterTouch] at h
  exact h

theorem code_roundtrip_ControlChange (ch c v : Nat) (cn kn vn : Bool) (c0 k0 v0 : Nat) :
    (midi.ControlChange ch c v >>= fun m => midi.Message.GetControlChange m cn c0 kn k0 vn v0)
      = .ok (true, sel cn c0 (min ch 15), sel kn k0 (min c 127), sel vn v0 (min v 127)) := by
  rw [code_ControlChange]
  have h := code_GetControlChange (controlChange ch c v) cn kn vn c0 k0 v0
  rw [getControlChange_controlChange] at h
  exact h

theorem code_roundtrip_ProgramChange (ch p : Nat) (cn pn : Bool) (c0 p0 : Nat) :
    (midi.ProgramChange ch p >>= fun m => midi.Message.GetProgramChange m cn c0 pn p0)
      = .ok (true, sel cn c0 (min ch 15), sel pn p0 (min p 127)) := by
  rw [code_ProgramChange]
  have h := code_GetProgramChange (programChange ch p) cn pn c0 p0
  rw [getProgramChange_programChange] at h
  exact h

theorem code_roundtrip_AfterTouch (ch p : Nat) (cn pn : Bool) (c0 p0 : Nat) :
    (midi.AfterTouch ch p >>= fun m => midi.Message.GetAfterTouch m cn c0 pn p0)
      = .ok (true, sel cn c0 (min ch 15), sel pn p0 (min p 127)) := by
  rw [code_AfterTouch]
  have h := code_GetAfterTouch (afterTouch ch p) cn pn c0 p0
  rw [getAfterTouch_afterTouch] at h
  exact h

theorem code_roundtrip_Pitchbend (ch : Nat) (v : Int) (cn rn an : Bool) (c0 : Nat) (r0 : Int) (a0 : Nat) :
    (midi.Pitchbend ch v >>= fun m => midi.Message.GetPitchBend m cn c0 rn r0 an a0)
      = .ok (true, sel cn c0 (min ch 15), sel rn r0 (max (-8192) (min v 8191)),
             sel an a0 (max (-8192) (min v 8191) + 8192).toNat) := by
  obtain ⟨bs, hb, hg⟩ := getPitchBend_pitchbend ch v
  rw [code_Pitchbend, hb]
  have h := code_GetPitchBend bs cn rn an c0 r0 a0
  rw [hg] at h
  exact h

theorem code_roundtrip_SPP (p : Nat) (h : p < 16384) (xn : Bool) (x0 : Nat) :
    (midi.SPP p >>= fun m => midi.Message.GetSPP m xn x0) = .ok (true, sel xn x0 p) := by
  rw [code_SPP]
  have h' := code_GetSPP (spp p) xn x0
  rw [getSPP_spp_in_range p h] at h'
  exact h'

theorem code_roundtrip_SongSelect (s : Nat) (xn : Bool) (x0 : Nat) :
    midi.Message.GetSongSelect (midi.SongSelect s) xn x0 = .ok (true, sel xn x0 (s % 128)) := by
  rw [code_SongSelect]
  have h := code_GetSongSelect (songSelect s) xn x0
  rw [getSongSelect_songSelect] at h
  exact h

theorem code_roundtrip_MTC (q : Nat) (hq : q < 256) (xn : Bool) (x0 : Nat) :
    midi.Message.GetMTC (midi.MTC q) xn x0 = .ok (true, sel xn x0 (q % 128)) := by
  rw [code_MTC q hq]
  have h := code_GetMTC (mtc q) xn x0
  rw [getMTC_mtc] at h
  exact h

end Midi.C07
