import Proofs.LiveWireReach
import Proofs.LiveWireExample
/-!
# C06 (resynchronisation clause) — after any garbage prefix the first complete message that starts with a
status byte, and everything after it, is decoded exactly

`g` is ANY token stream (arbitrary bytes, arbitrary chunking): the decoder may be left in the middle of a channel
or system common message, inside a sysex (overflown or not), behind an undefined status byte, with or without
running status. `items` is a legal wire sequence (`LiveWire.WF`, see `Props/C04.lean`) whose first item is a
message that carries its own status byte (channel voice, system common or sysex; real-time bytes and ticks may
sit in all its gaps). Whatever `g` made the listener receive stays as it is, and `items` is delivered exactly
as to a freshly started receiver, the clock being the sum of the ticks of `g`.
-/
namespace Midi.C06
open Midi Midi.Live Midi.LiveWire

/-- from EVERY decoder state (reachable or not, even one whose `panicked` flag is set): a legal sequence that
    starts with an explicit status byte is decoded exactly, stamped from the state's clock -/
theorem resync_any_state (c : Cfg) (hc : AllOn c) (s : St) (items : List Item)
    (hwf : WF c.bufSize items) (hex : startsExplicit items = true) :
    listenFrames c (feed c s (wireToks items)).2 = delivered (expectedFrom s.ts items) :=
  listen_from_any c hc items s 0 hex hwf

/-- **resynchronisation**: garbage prefix `g` (any bytes, any chunking), then a legal sequence starting with a
    status byte -/
theorem resync (c : Cfg) (hc : AllOn c) (g : List Tok) (items : List Item)
    (hwf : WF c.bufSize items) (hex : startsExplicit items = true) :
    listen c (g ++ wireToks items) = listen c g ++ delivered (expectedFrom (tickSum g) items) := by
  unfold listen
  rw [feed_append, listenFrames_append, resync_any_state c hc _ items hwf hex, feed_ts]
  simp [init]

/-- nothing of the garbage leaks into what follows: the messages delivered after the prefix do not depend on the
    prefix at all (only the clock does) -/
theorem resync_independent (c : Cfg) (hc : AllOn c) (g g' : List Tok) (items : List Item)
    (hwf : WF c.bufSize items) (hex : startsExplicit items = true) (ht : tickSum g = tickSum g') :
    (listen c (g ++ wireToks items)).drop (listen c g).length
      = (listen c (g' ++ wireToks items)).drop (listen c g').length := by
  rw [resync c hc g items hwf hex, resync c hc g' items hwf hex, ht]
  simp

/-- if the garbage happens to leave the decoder between messages (mode clean), the continuation may even use the
    running status the decoder holds: legality is judged against that status -/
theorem resync_running (c : Cfg) (hc : AllOn c) (g : List Tok) (items : List Item)
    (hm : (feed c init g).1.mode = .clean)
    (hwf : wfFrom c.bufSize (feed c init g).1.status items = true) :
    listen c (g ++ wireToks items) = listen c g ++ delivered (expectedFrom (tickSum g) items) := by
  unfold listen
  rw [feed_append, listenFrames_append,
    listen_from_clean c hc items _ _ _ (reachable_clean c g hm) hwf]

/-! ## non-vacuity: the example sequence of C04 (running status, real-time inside a message, a sysex that exactly
fills the buffer, cuts inside messages) behind a garbage prefix that leaves the decoder inside an unfinished
sysex -/

example : WF exCfg.bufSize exItems ∧ startsExplicit exItems = true := by decide
example : (feed exCfg init exGarbage).1.mode = .sysex ∧ (feed exCfg init exGarbage).1.sx = [0xF0, 0x11, 0x22] ∧
    tickSum exGarbage = 7 := by decide
example : listen exCfg (exGarbage ++ wireToks exItems) =
    listen exCfg exGarbage ++ delivered (expectedFrom 7 exItems) :=
  resync exCfg ⟨rfl, rfl, rfl⟩ exGarbage exItems (by decide) (by decide)
/-- the garbage itself delivers nothing here, so the listener sees exactly the messages of `exItems`, 7 ms late -/
example : listen exCfg exGarbage = [] := by decide
/-- `resync_running`: garbage ending between messages with running status `0x92`; the sequence starts without status -/
example : (feed exCfg init [.byte 0x7F, .byte 0x92, .tick 3, .byte 0x01, .byte 0x02]).1.mode = .clean ∧
    wfFrom exCfg.bufSize (feed exCfg init [.byte 0x7F, .byte 0x92, .tick 3, .byte 0x01, .byte 0x02]).1.status
      [.chan 0x92 true [([], 0x3C), ([.byte 0xF8], 0x40)], .rt 0xFA, .chan 0x92 true [([.tick 1], 0x3C), ([], 0)]] = true := by
  decide
/-- a state that no byte stream reaches (`panicked`, pending byte in clean mode): `resync_any_state` still applies -/
example : startsExplicit exItems = true ∧
    ({ mode := .clean, status := 0x95, typ := 3, pend := some 9, panicked := true } : St).panicked = true := by decide

end Midi.C06
