import MidiModel.Basic
import MidiModel.Vlq
/-!
# The message layer: `midi.Message` / `smf.Message` (shared model of C07 and C08)

Modelled statement by statement from the working tree:
`v2/type.go` (`Type`, `Type.Is`, `getType`, `getChannelType`, `getRealtimeType`, `getSysCommonType`),
`v2/realtime.go` / `v2/syscommon.go` (the two map tables and the constructors),
`v2/channel.go` + `v2/helpers.go` (channel constructors, clamping, `getCompleteStatus`),
`v2/internal/utils/utils.go` (`ParseStatus`, `ParseUint7`, `ParseTwoUint7`, `ParsePitchWheelVals`,
`MsbLsbSigned`, `MsbLsbUnsigned`, `ClearBitU8`, `clearBitU16`, `ReadVarLengthData`, `ReadNBytes`),
`v2/message.go` (`Type`, `Is`, `IsOneOf`, `IsPlayable`, every `Get*`, the control flow of `String`),
`v2/smf/message.go` + `v2/smf/meta.go` (`IsMeta`, `getType`, `getMetaType`, `IsPlayable`, the accept /
reject / panic behaviour of every `GetMeta*` with non-nil out parameters, the control flow of `String`).

Conventions: a `midi.Type` (Go `int8`) is an `Int` code; bytes are `Nat` (`< 256` stated where needed);
every `uint8` / `uint16` / `int16` conversion is explicit; an index or slice expression is `m[i]?` /
`sliceFrom` and a failed one is the explicit outcome `none` / `Res.panic`, so that "never panics" is a
theorem (Props/C08) and not an artefact of the modelling. The values computed by the *meta* accessors
belong to C15; here only whether they accept, reject or panic (that is what C08 speaks about).
-/
namespace Midi.Msg

/-! ## `Type` enumeration (`v2/type.go:120-254`, `v2/smf/meta.go:14-76`) -/

abbrev UnknownMsg : Int := 0
abbrev RealTimeMsg : Int := -1
abbrev SysCommonMsg : Int := -2
abbrev ChannelMsg : Int := -3
abbrev SysExMsg : Int := -4
/-- unexported `metaMsg` of package midi = exported `smf.MetaMsg` -/
abbrev MetaMsg : Int := -5

abbrev TickMsg : Int := 1
abbrev TimingClockMsg : Int := 2
abbrev StartMsg : Int := 3
abbrev ContinueMsg : Int := 4
abbrev StopMsg : Int := 5
abbrev ActiveSenseMsg : Int := 6
abbrev ResetMsg : Int := 7
abbrev reservedRealTimeMsg14 : Int := 14
abbrev NoteOnMsg : Int := 15
abbrev NoteOffMsg : Int := 16
abbrev ControlChangeMsg : Int := 17
abbrev PitchBendMsg : Int := 18
abbrev AfterTouchMsg : Int := 19
abbrev PolyAfterTouchMsg : Int := 20
abbrev ProgramChangeMsg : Int := 21
abbrev reservedChannelMsg16 : Int := 30
abbrev MTCMsg : Int := 31
abbrev SongSelectMsg : Int := 32
abbrev SPPMsg : Int := 33
abbrev TuneMsg : Int := 34
abbrev reservedSysCommonMsg10 : Int := 40
abbrev firstMetaMsg : Int := 70

abbrev MetaChannelMsg : Int := 70
abbrev MetaCopyrightMsg : Int := 71
abbrev MetaCuepointMsg : Int := 72
abbrev MetaDeviceMsg : Int := 73
abbrev MetaEndOfTrackMsg : Int := 74
abbrev MetaInstrumentMsg : Int := 75
abbrev MetaKeySigMsg : Int := 76
abbrev MetaLyricMsg : Int := 77
abbrev MetaTextMsg : Int := 78
abbrev MetaMarkerMsg : Int := 79
abbrev MetaPortMsg : Int := 80
abbrev MetaSeqNumberMsg : Int := 81
abbrev MetaSeqDataMsg : Int := 82
abbrev MetaTempoMsg : Int := 83
abbrev MetaTimeSigMsg : Int := 84
abbrev MetaTrackNameMsg : Int := 85
abbrev MetaSMPTEOffsetMsg : Int := 86
abbrev MetaUndefinedMsg : Int := 87
abbrev MetaProgramNameMsg : Int := 88

/-- the exported constants in the order in which the harness dumps them (`Facts.typeConstants`) -/
def typeConstants : List Int :=
  [UnknownMsg, RealTimeMsg, SysCommonMsg, ChannelMsg, SysExMsg, MetaMsg,
   TickMsg, TimingClockMsg, StartMsg, ContinueMsg, StopMsg, ActiveSenseMsg, ResetMsg,
   NoteOnMsg, NoteOffMsg, ControlChangeMsg, PitchBendMsg, AfterTouchMsg, PolyAfterTouchMsg, ProgramChangeMsg,
   MTCMsg, SongSelectMsg, SPPMsg, TuneMsg,
   MetaChannelMsg, MetaCopyrightMsg, MetaCuepointMsg, MetaDeviceMsg, MetaEndOfTrackMsg, MetaInstrumentMsg,
   MetaKeySigMsg, MetaLyricMsg, MetaTextMsg, MetaMarkerMsg, MetaPortMsg, MetaSeqNumberMsg, MetaSeqDataMsg,
   MetaTempoMsg, MetaTimeSigMsg, MetaTrackNameMsg, MetaSMPTEOffsetMsg, MetaUndefinedMsg, MetaProgramNameMsg]

/-- `func (t Type) Is(checker Type) bool` (`v2/type.go:11-38`), case by case -/
def typeIs (t checker : Int) : Bool :=
  if t = UnknownMsg then checker = UnknownMsg
  else if t = SysExMsg then checker = SysExMsg
  else if t < UnknownMsg then false
  else if checker = UnknownMsg then false
  else if checker > UnknownMsg then t = checker
  else if checker = RealTimeMsg then t ≤ reservedRealTimeMsg14
  else if checker = SysCommonMsg then t ≥ MTCMsg && t ≤ reservedSysCommonMsg10
  else if checker = ChannelMsg then t ≥ NoteOnMsg && t ≤ reservedChannelMsg16
  else if checker = MetaMsg then t ≥ firstMetaMsg
  else false

/-! ## `utils` bit helpers, with the Go operators -/

/-- `ParseStatus(b)`: `(b & 0xF0) >> 4`, `b & 0x0F` -/
def parseStatus (b : Nat) : Nat × Nat := ((b &&& 0xF0) >>> 4, b &&& 0x0F)

/-- `ParseUint7(b)`: `b & 0x7f` -/
def parseUint7 (b : Nat) : Nat := b &&& 0x7f

/-- `ClearBitU8(n, pos)`: `n & ^(uint8(1) << pos)` -/
def clearBitU8 (n pos : Nat) : Nat := n &&& (((1 <<< pos) % 256) ^^^ 255)

/-- `clearBitU16(n, pos)`: `n & ^(uint16(1) << pos)` -/
def clearBitU16 (n pos : Nat) : Nat := n &&& (((1 <<< pos) % 65536) ^^^ 65535)

/-- `ParsePitchWheelVals(b1, b2)`: `val = uint16(b2 & 0x7f) << 7 | uint16(b1) & 0x7f`,
    `relative = int16(val) - 0x2000` (`val ≤ 16383`, no wrap possible; the conversions are kept) -/
def parsePitchWheelVals (b1 b2 : Nat) : Int × Nat :=
  let val := (((b2 &&& 0x7f) <<< 7) % 65536) ||| (b1 &&& 0x7f)
  let i16 : Int := if val < 32768 then (val : Int) else (val : Int) - 65536
  let rel := (i16 - 0x2000 + 32768) % 65536 - 32768
  (rel, val)

/-- `MsbLsbUnsigned(n uint16)`; `none` = its `panic("n must not overflow 14bits")` -/
def msbLsbUnsigned (n : Nat) : Option Nat :=
  if n > 16383 then none else
  let lsb := (n <<< 8) % 65536
  let lsb := clearBitU16 lsb 15
  let lsb := clearBitU16 lsb 7
  let msb := 0x7f &&& (n >>> 7)
  some (lsb ||| msb)

/-- `MsbLsbSigned(n int16)`: `MsbLsbUnsigned(uint16(n + 8192))` with the `int16` addition wrapping -/
def msbLsbSigned (n : Int) : Option Nat :=
  let s : Int := (n + 8192 + 32768) % 65536 - 32768   -- int16 addition
  msbLsbUnsigned (s % 65536).toNat                    -- uint16(…)

/-! ## Type tables and `getType` (`v2/type.go:259-329`, `realtime.go`, `syscommon.go`) -/

/-- `rtMessages` (a Go map: `none` = key absent) -/
def rtMessages (b : Nat) : Option Int :=
  if b = 0xF8 then some TimingClockMsg
  else if b = 0xF9 then some TickMsg
  else if b = 0xFA then some StartMsg
  else if b = 0xFB then some ContinueMsg
  else if b = 0xFC then some StopMsg
  else if b = 0xFD then some UnknownMsg
  else if b = 0xFE then some ActiveSenseMsg
  else if b = 0xFF then some ResetMsg
  else none

/-- `syscommMessages` -/
def syscommMessages (b : Nat) : Option Int :=
  if b = 0xF1 then some MTCMsg
  else if b = 0xF2 then some SPPMsg
  else if b = 0xF3 then some SongSelectMsg
  else if b = 0xF6 then some TuneMsg
  else none

def getRealtimeType (b : Nat) : Int := match rtMessages b with | some t => t | none => UnknownMsg
def getSysCommonType (b : Nat) : Int := match syscommMessages b with | some t => t | none => UnknownMsg

def getChannelType (canary : Nat) : Int :=
  let tp := (parseStatus canary).1
  if tp = 0xC then ProgramChangeMsg
  else if tp = 0xD then AfterTouchMsg
  else if tp = 0x8 then NoteOffMsg
  else if tp = 0x9 then NoteOnMsg
  else if tp = 0xA then PolyAfterTouchMsg
  else if tp = 0xB then ControlChangeMsg
  else if tp = 0xE then PitchBendMsg
  else UnknownMsg

/-- the `switch` of `getType` on the first byte -/
def typeOfStatus (byte1 : Nat) : Int :=
  if byte1 ≥ 0x80 ∧ byte1 ≤ 0xEF then getChannelType byte1
  else if byte1 = 0xF0 ∨ byte1 = 0xF7 then SysExMsg
  else if byte1 = 0xFF then getRealtimeType byte1
  else if byte1 < 0xF7 then getSysCommonType byte1
  else if byte1 > 0xF7 then getRealtimeType byte1
  else UnknownMsg

/-- `getType(bt)` = `midi.Message.Type()`; `none` = index-out-of-range panic of `bt[0]` -/
def getType (bt : Bytes) : Option Int :=
  if bt.length = 0 then some UnknownMsg
  else match bt[0]? with
    | none => none
    | some byte1 => some (typeOfStatus byte1)

/-- `metaMessages` (`v2/smf/meta.go:135-154`) -/
def metaMessages (b : Nat) : Option Int :=
  if b = 0x2F then some MetaEndOfTrackMsg
  else if b = 0x00 then some MetaSeqNumberMsg
  else if b = 0x01 then some MetaTextMsg
  else if b = 0x02 then some MetaCopyrightMsg
  else if b = 0x03 then some MetaTrackNameMsg
  else if b = 0x04 then some MetaInstrumentMsg
  else if b = 0x05 then some MetaLyricMsg
  else if b = 0x06 then some MetaMarkerMsg
  else if b = 0x07 then some MetaCuepointMsg
  else if b = 0x20 then some MetaChannelMsg
  else if b = 0x09 then some MetaDeviceMsg
  else if b = 0x21 then some MetaPortMsg
  else if b = 0x51 then some MetaTempoMsg
  else if b = 0x58 then some MetaTimeSigMsg
  else if b = 0x59 then some MetaKeySigMsg
  else if b = 0x54 then some MetaSMPTEOffsetMsg
  else if b = 0x7F then some MetaSeqDataMsg
  else if b = 0x08 then some MetaProgramNameMsg
  else none

/-- `getMetaType(b)`: `metaMessages[b]`, the zero value (`UnknownMsg`) for an absent key -/
def getMetaType (b : Nat) : Int := match metaMessages b with | some t => t | none => UnknownMsg

/-- `smf.Message.IsMeta()`; `none` = panic of `m[0]` -/
def smfIsMeta (m : Bytes) : Option Bool :=
  if m.length = 0 then some false
  else match m[0]? with
    | none => none
    | some b => some (b = 0xFF)

/-- `smf.getType(msg)` = `smf.Message.Type()` -/
def smfGetType (msg : Bytes) : Option Int :=
  if msg.length = 0 then some UnknownMsg
  else match smfIsMeta msg with
    | none => none
    | some true =>
      if msg.length = 1 then some UnknownMsg
      else match msg[1]? with
        | none => none
        | some b => some (getMetaType b)
    | some false => getType msg

/-! ## `Is`, `IsOneOf`, `IsPlayable` -/

/-- which of the two message types of the library a byte string is looked at as -/
inductive View where
  | midi | smf
  deriving DecidableEq, Repr

def typeOf (v : View) (m : Bytes) : Option Int :=
  match v with
  | .midi => getType m
  | .smf => smfGetType m

/-- `m.Is(t)`: `m.Type().Is(t)` -/
def msgIs (v : View) (m : Bytes) (t : Int) : Option Bool := (typeOf v m).map (fun ty => typeIs ty t)

/-- `m.IsOneOf(checkers...)`: the loop returns at the first checker that matches -/
def isOneOf (v : View) (m : Bytes) : List Int → Option Bool
  | [] => some false
  | c :: cs => match msgIs v m c with
    | none => none
    | some true => some true
    | some false => isOneOf v m cs

/-- `midi.Message.IsPlayable()` -/
def isPlayable (m : Bytes) : Option Bool :=
  match getType m with
  | none => none
  | some t => if t ≤ UnknownMsg then some false else some (t < firstMetaMsg)

/-- `smf.Message.IsPlayable()` -/
def smfIsPlayable (m : Bytes) : Option Bool :=
  match smfIsMeta m with
  | none => none
  | some true => some false
  | some false => match smfGetType m with
    | none => none
    | some t => if t ≤ UnknownMsg then some false else some true

/-! ## Accessors of `midi.Message` (`smf.Message` forwards to them after a conversion) -/

/-- outcome of a `Get*` call: Go panic, `false`, or `true` with the out parameters -/
inductive Res (α : Type) where
  | panic : Res α
  | no : Res α
  | yes : α → Res α
  deriving DecidableEq, Repr

def Res.accepts {α : Type} : Res α → Bool
  | .yes _ => true
  | _ => false

/-- shape shared by `GetNoteOn`, `GetNoteOff`, `GetPolyAfterTouch`, `GetControlChange` (the four bodies
    differ in the type constant only): `!m.Is(T)` → false; `len(m) != 3` → false; channel from
    `ParseStatus(m[0])`, data from `ParseTwoUint7(m[1], m[2])` -/
def get3 (T : Int) (m : Bytes) : Res (Nat × Nat × Nat) :=
  match msgIs .midi m T with
  | none => .panic
  | some false => .no
  | some true =>
    if m.length ≠ 3 then .no
    else match m[0]?, m[1]?, m[2]? with
      | some s, some a, some b => .yes ((parseStatus s).2, parseUint7 a, parseUint7 b)
      | _, _, _ => .panic

def getNoteOn := get3 NoteOnMsg
def getNoteOff := get3 NoteOffMsg
def getPolyAfterTouch := get3 PolyAfterTouchMsg
def getControlChange := get3 ControlChangeMsg

/-- shape shared by `GetAfterTouch`, `GetProgramChange`: length 2, `ParseUint7(m[1])` -/
def get2 (T : Int) (m : Bytes) : Res (Nat × Nat) :=
  match msgIs .midi m T with
  | none => .panic
  | some false => .no
  | some true =>
    if m.length ≠ 2 then .no
    else match m[0]?, m[1]? with
      | some s, some a => .yes ((parseStatus s).2, parseUint7 a)
      | _, _ => .panic

def getAfterTouch := get2 AfterTouchMsg
def getProgramChange := get2 ProgramChangeMsg

/-- `GetPitchBend`: channel, relative (int16), absolute (uint16) -/
def getPitchBend (m : Bytes) : Res (Nat × Int × Nat) :=
  match msgIs .midi m PitchBendMsg with
  | none => .panic
  | some false => .no
  | some true =>
    if m.length ≠ 3 then .no
    else match m[0]?, m[1]?, m[2]? with
      | some s, some a, some b =>
        let (rel, abs) := parsePitchWheelVals a b
        .yes ((parseStatus s).2, rel, abs)
      | _, _, _ => .panic

/-- shape shared by `GetMTC`, `GetSongSelect`: length 2, `ParseUint7(m[1])` -/
def get1 (T : Int) (m : Bytes) : Res Nat :=
  match msgIs .midi m T with
  | none => .panic
  | some false => .no
  | some true =>
    if m.length ≠ 2 then .no
    else match m[1]? with
      | some a => .yes (parseUint7 a)
      | none => .panic

def getMTC := get1 MTCMsg
def getSongSelect := get1 SongSelectMsg

/-- `GetSPP`: `_, *spp = ParsePitchWheelVals(m[1], m[2])` -/
def getSPP (m : Bytes) : Res Nat :=
  match msgIs .midi m SPPMsg with
  | none => .panic
  | some false => .no
  | some true =>
    if m.length ≠ 3 then .no
    else match m[1]?, m[2]? with
      | some a, some b => .yes (parsePitchWheelVals a b).2
      | _, _ => .panic

/-- Go slice expression `m[lo:hi]`; `none` = slice bounds out of range -/
def slice (m : Bytes) (lo hi : Nat) : Option Bytes :=
  if lo ≤ hi ∧ hi ≤ m.length then some ((m.take hi).drop lo) else none

/-- `GetSysEx`: `len(m) < 3` → false; `!m.Is(SysExMsg)` → false;
    `m[0] == 0xF0 && m[len(m)-1] == 0xF7` → `m[1:len(m)-1]` -/
def getSysEx (m : Bytes) : Res Bytes :=
  if m.length < 3 then .no
  else match msgIs .midi m SysExMsg with
    | none => .panic
    | some false => .no
    | some true =>
      match m[0]?, m[m.length - 1]? with
      | some f, some l =>
        if f = 0xF0 ∧ l = 0xF7 then
          match slice m 1 (m.length - 1) with
          | some d => .yes d
          | none => .panic
        else .no
      | _, _ => .panic

/-! derived views -/

/-- `GetNoteStart`: `!m.GetNoteOn(channel, key, &vel) || vel == 0` → false -/
def getNoteStart (m : Bytes) : Res (Nat × Nat × Nat) :=
  match getNoteOn m with
  | .panic => .panic
  | .no => .no
  | .yes (c, k, v) => if v = 0 then .no else .yes (c, k, v)

/-- the `switch` of `GetNoteEnd`: `case m.GetNoteOn(&ch, &k, &vel): is = vel == 0`,
    `case m.GetNoteOff(&ch, &k, &vel): is = true` -/
def noteEndBody (m : Bytes) : Res (Nat × Nat) :=
  match getNoteOn m with
  | .panic => .panic
  | .yes (c, k, v) => if v = 0 then .yes (c, k) else .no
  | .no => match getNoteOff m with
    | .panic => .panic
    | .yes (c, k, _) => .yes (c, k)
    | .no => .no

/-- `GetNoteEnd`: `!m.Is(NoteOnMsg) && !m.Is(NoteOffMsg)` → false (short-circuit), then the switch -/
def getNoteEnd (m : Bytes) : Res (Nat × Nat) :=
  match msgIs .midi m NoteOnMsg with
  | none => .panic
  | some true => noteEndBody m
  | some false => match msgIs .midi m NoteOffMsg with
    | none => .panic
    | some true => noteEndBody m
    | some false => .no

/-- `GetChannel`: `!m.Is(ChannelMsg)` → false; `len(m) < 1` → false; `ParseStatus(m[0])` -/
def getChannel (m : Bytes) : Res Nat :=
  match msgIs .midi m ChannelMsg with
  | none => .panic
  | some false => .no
  | some true =>
    if m.length < 1 then .no
    else match m[0]? with
      | some s => .yes (parseStatus s).2
      | none => .panic

/-! ## Control flow of `midi.Message.String()`:
`m.Type().String()` is a map lookup with fall-backs (total); then the first accepting accessor in the
order of the `switch` selects the branch. `strBranch` = 1-based index of that case, 0 = `default`. -/

def firstYes : List (Nat × Res Unit) → Res Nat
  | [] => .yes 0
  | (i, r) :: rest => match r with
    | .panic => .panic
    | .yes _ => .yes i
    | .no => firstYes rest

def Res.unit {α : Type} : Res α → Res Unit
  | .panic => .panic
  | .no => .no
  | .yes _ => .yes ()

def strBranch (m : Bytes) : Res Nat :=
  match getType m with
  | none => .panic
  | some _ =>
    firstYes [(1, (getNoteOn m).unit), (2, (getNoteOff m).unit), (3, (getPolyAfterTouch m).unit),
      (4, (getAfterTouch m).unit), (5, (getControlChange m).unit), (6, (getProgramChange m).unit),
      (7, (getPitchBend m).unit), (8, (getMTC m).unit), (9, (getSPP m).unit), (10, (getSongSelect m).unit),
      (11, (getSysEx m).unit)]

/-! ## Meta accessors of `smf.Message`: accept / reject / panic, out parameters non-nil
(as `String()` and the harness call them). -/

/-- Go `m[k:]`; `none` = slice bounds out of range -/
def sliceFrom (m : Bytes) (k : Nat) : Option Bytes := if k ≤ m.length then some (m.drop k) else none

/-- `ReadNBytes(n, rd)` on an in-memory reader holding `avail` bytes: (bytes requested from the
    allocator up front or copied, success). `n ≤ 4096`: `make([]byte, n)` then `io.ReadFull`;
    larger: `io.CopyN` into a growing buffer (never more than what is there). -/
def readNBytes (n : Nat) (avail : Bytes) : Nat × Option Bytes :=
  if n ≤ 4096 then (n, if n ≤ avail.length then some (avail.take n) else none)
  else (min n avail.length, if n ≤ avail.length then some (avail.take n) else none)

/-- `ReadVarLengthData(bytes.NewReader(bs))`: (allocation, data or error) -/
def readVarLengthData (bs : Bytes) : Nat × Option Bytes :=
  match Vlq.read bs with
  | none => (0, none)
  | some (len, rest) => readNBytes len rest

/-- `GetMetaChannel` / `GetMetaPort`: `len(m) != 4` → false; `m[3:][0]` -/
def getMeta1 (T : Int) (m : Bytes) : Res Nat :=
  match msgIs .smf m T with
  | none => .panic
  | some false => .no
  | some true =>
    if m.length ≠ 4 then .no
    else match sliceFrom m 3 with
      | none => .panic
      | some data => match data[0]? with
        | none => .panic
        | some c => .yes c

/-- `GetMetaSeqNumber`: `len(m) != 2 && len(m) < 5` → false; length 2 → 0; else `ParseUint16(m[3], m[4])` -/
def getMetaSeqNumber (m : Bytes) : Res Nat :=
  match msgIs .smf m MetaSeqNumberMsg with
  | none => .panic
  | some false => .no
  | some true =>
    if m.length ≠ 2 ∧ m.length < 5 then .no
    else if m.length = 2 then .yes 0
    else match m[3]?, m[4]? with
      | some a, some b => .yes ((a <<< 8) % 65536 ||| b)
      | _, _ => .panic

/-- `GetMetaSeqData(&bt)`: `len(m) < 4` → false; `ReadVarLengthData(m[2:])`, an error → false -/
def getMetaSeqData (m : Bytes) : Res Bytes :=
  match msgIs .smf m MetaSeqDataMsg with
  | none => .panic
  | some false => .no
  | some true =>
    if m.length < 4 then .no
    else match sliceFrom m 2 with
      | none => .panic
      | some r => match (readVarLengthData r).2 with
        | none => .no
        | some d => .yes d

/-- fixed-length accessors `GetMetaKeySig` (5, 2), `GetMetaSMPTEOffsetMsg` (8, 5), `GetMetaTimeSig` (7, 4):
    `len(m) != total` → false; `data := m[3:]`; `len(data) != dlen` → false; `data[0..dlen-1]` -/
def getMetaFixed (T : Int) (total dlen : Nat) (m : Bytes) : Res Bytes :=
  match msgIs .smf m T with
  | none => .panic
  | some false => .no
  | some true =>
    if m.length ≠ total then .no
    else match sliceFrom m 3 with
      | none => .panic
      | some data =>
        if data.length ≠ dlen then .no
        else if (List.range dlen).all (fun i => data[i]?.isSome) then .yes data else .panic

def getMetaKeySig := getMetaFixed MetaKeySigMsg 5 2
def getMetaSMPTEOffset := getMetaFixed MetaSMPTEOffsetMsg 8 5
def getMetaTimeSig := getMetaFixed MetaTimeSigMsg 7 4

/-- `GetMetaTempo(&bpm)`: `len(m) < 4` → false; `ReadUint24(m[3:])`, an error (fewer than 3 bytes) →
    false. The float division is not modelled; the out value here is the 24-bit integer. -/
def getMetaTempo (m : Bytes) : Res Nat :=
  match msgIs .smf m MetaTempoMsg with
  | none => .panic
  | some false => .no
  | some true =>
    if m.length < 4 then .no
    else match sliceFrom m 3 with
      | none => .panic
      | some r => match (readNBytes 3 r).2 with
        | none => .no
        | some b => match b[0]?, b[1]?, b[2]? with
          | some x, some y, some z => .yes ((x <<< 16) ||| (y <<< 8) ||| z)
          | _, _, _ => .panic

/-- `m.text(&text)`: `ReadText(bytes.NewReader(m[2:]))`, error ignored; result: allocation requested -/
def textAlloc (m : Bytes) : Option Nat :=
  match sliceFrom m 2 with
  | none => none
  | some r => some (readVarLengthData r).1

/-- the nine text accessors: `len(m) < 3` → false; `m.text(text)`; out value: the allocation -/
def getMetaText (T : Int) (m : Bytes) : Res Nat :=
  match msgIs .smf m T with
  | none => .panic
  | some false => .no
  | some true =>
    if m.length < 3 then .no
    else match textAlloc m with
      | none => .panic
      | some a => .yes a

def textTypes : List Int :=
  [MetaLyricMsg, MetaMarkerMsg, MetaCopyrightMsg, MetaTextMsg, MetaCuepointMsg, MetaDeviceMsg,
   MetaInstrumentMsg, MetaProgramNameMsg, MetaTrackNameMsg]

/-- control flow of `smf.Message.String()`: (branch, bytes requested from the allocator by the
    length-prefixed reads on the way). Branches of the meta `switch`: 1 tempo, 2 meter, 3 channel,
    4 port, 5 seq number, 6 smpte, 7 seq data, 8 key, 9 text (default branch, a text type), 0 nothing;
    a non-meta message: 100 + branch of `midi.Message.String()`. -/
def smfStrBranch (m : Bytes) : Res (Nat × Nat) :=
  match smfIsMeta m with
  | none => .panic
  | some false => (match strBranch m with
    | .panic => .panic
    | .no => .no
    | .yes b => .yes (100 + b, 0))
  | some true =>
    match smfGetType m with
    | none => .panic
    | some t =>
      -- `GetMetaSeqData` reads (and allocates) whenever it gets past its guards, accepted or not
      let a7 := if t = MetaSeqDataMsg ∧ m.length ≥ 4 then (readVarLengthData (m.drop 2)).1 else 0
      match firstYes [(1, (getMetaTempo m).unit), (2, (getMetaTimeSig m).unit),
          (3, (getMeta1 MetaChannelMsg m).unit), (4, (getMeta1 MetaPortMsg m).unit),
          (5, (getMetaSeqNumber m).unit), (6, (getMetaSMPTEOffset m).unit),
          (7, (getMetaSeqData m).unit), (8, (getMetaKeySig m).unit)] with
      | .panic => .panic
      | .no => .no
      | .yes 0 =>
        if textTypes.contains t then
          match textAlloc m with
          | none => .panic
          | some a => .yes (9, a)
        else .yes (0, a7)
      | .yes b => .yes (b, a7)

/-! ## Constructors (`v2/channel.go`, `v2/helpers.go`, `v2/syscommon.go`, `v2/realtime.go`) -/

/-- `if x > hi { x = hi }` -/
def clampHi (x hi : Nat) : Nat := if x > hi then hi else x

/-- `(*channelMessage).getCompleteStatus()`: `s := status << 4` (uint8), four `ClearBitU8`, `s | channel` -/
def getCompleteStatus (status channel : Nat) : Nat :=
  let s := (status <<< 4) % 256
  let s := clearBitU8 s 0
  let s := clearBitU8 s 1
  let s := clearBitU8 s 2
  let s := clearBitU8 s 3
  s ||| channel

def channelMessage1 (c status msg : Nat) : Bytes := [getCompleteStatus status c, msg]
def channelMessage2 (c status msg1 msg2 : Nat) : Bytes := [getCompleteStatus status c, msg1, msg2]

def noteOn (channel key velocity : Nat) : Bytes :=
  channelMessage2 (clampHi channel 15) 9 (clampHi key 127) (clampHi velocity 127)
def noteOffVelocity (channel key velocity : Nat) : Bytes :=
  channelMessage2 (clampHi channel 15) 8 (clampHi key 127) (clampHi velocity 127)
def noteOff (channel key : Nat) : Bytes :=
  channelMessage2 (clampHi channel 15) 8 (clampHi key 127) 0
def polyAfterTouch (channel key pressure : Nat) : Bytes :=
  channelMessage2 (clampHi channel 15) 10 (clampHi key 127) (clampHi pressure 127)
def controlChange (channel controller value : Nat) : Bytes :=
  channelMessage2 (clampHi channel 15) 11 (clampHi controller 127) (clampHi value 127)
def programChange (channel program : Nat) : Bytes :=
  channelMessage1 (clampHi channel 15) 12 (clampHi program 127)
def afterTouch (channel pressure : Nat) : Bytes :=
  channelMessage1 (clampHi channel 15) 13 (clampHi pressure 127)

/-- `if value > PitchHighest { value = PitchHighest }; if value < PitchLowest { value = PitchLowest }` -/
def clampPitch (value : Int) : Int :=
  let value := if value > 8191 then 8191 else value
  if value < -8192 then -8192 else value

/-- `Pitchbend(channel, value int16)`: clamp to [-8192, 8191], `r := MsbLsbSigned(value)`,
    `binary.BigEndian.PutUint16(b, r)`, `channelMessage2(channel, 14, b[0], b[1])`; `none` = panic -/
def pitchbend (channel : Nat) (value : Int) : Option Bytes :=
  match msbLsbSigned (clampPitch value) with
  | none => none
  | some r => some (channelMessage2 (clampHi channel 15) 14 ((r >>> 8) % 256) (r % 256))

/-- `SPP(pointer uint16)`: `b[0] = byte(pointer & 0x7F)`, `b[1] = byte((pointer >> 7) & 0x7F)` -/
def spp (pointer : Nat) : Bytes := [0xF2, (pointer &&& 0x7F) % 256, ((pointer >>> 7) &&& 0x7F) % 256]
/-- `SongSelect(song)`: `song & 0x7F` -/
def songSelect (song : Nat) : Bytes := [0xF3, song &&& 0x7F]
/-- `MTC(m)`: `byte(m) & 0x7F` -/
def mtc (m : Nat) : Bytes := [0xF1, (m % 256) &&& 0x7F]
def tune : Bytes := [0xF6]
def timingClock : Bytes := [0xF8]
def tick : Bytes := [0xF9]
def start : Bytes := [0xFA]
def continue_ : Bytes := [0xFB]
def stop : Bytes := [0xFC]
def activesense : Bytes := [0xFE]
def reset : Bytes := [0xFF]

/-! ## Line protocol -/

def resCode {α : Type} : Res α → Int
  | .panic => 2
  | .no => 0
  | .yes _ => 1

def optB : Option Bool → Int
  | none => 2
  | some true => 1
  | some false => 0

def natsI (l : List Nat) : List Int := l.map Int.ofNat

def sig3 (r : Res (Nat × Nat × Nat)) : List Int :=
  match r with
  | .yes (a, b, c) => [1, a, b, c]
  | r => [resCode r]

def sig2 (r : Res (Nat × Nat)) : List Int :=
  match r with
  | .yes (a, b) => [1, a, b]
  | r => [resCode r]

def sig1 (r : Res Nat) : List Int :=
  match r with
  | .yes a => [1, a]
  | r => [resCode r]

def sigBytes (r : Res Bytes) : List Int :=
  match r with
  | .yes d => [(1 : Int), (d.length : Int)] ++ natsI d
  | r => [resCode r]

/-- the categories asked of every message, in this order -/
def categories : List Int := [UnknownMsg, RealTimeMsg, SysCommonMsg, ChannelMsg, SysExMsg, MetaMsg]

/-- everything `midi.Message` answers about `m` -/
def sigMidi (m : Bytes) : List Int :=
  [match getType m with | some t => t | none => 999] ++
  categories.map (fun c => optB (msgIs .midi m c)) ++
  [optB (isPlayable m), optB (isOneOf .midi m [NoteOnMsg, NoteOffMsg]), optB (isOneOf .midi m [SysExMsg, RealTimeMsg, TuneMsg])] ++
  sig3 (getNoteOn m) ++ sig3 (getNoteOff m) ++ sig3 (getPolyAfterTouch m) ++ sig2 (getAfterTouch m) ++
  sig3 (getControlChange m) ++ sig2 (getProgramChange m) ++
  (match getPitchBend m with | .yes (c, r, a) => [1, c, r, a] | r => [resCode r]) ++
  sig1 (getMTC m) ++ sig1 (getSPP m) ++ sig1 (getSongSelect m) ++ sigBytes (getSysEx m) ++
  sig3 (getNoteStart m) ++ sig2 (getNoteEnd m) ++ sig1 (getChannel m) ++
  sig1 (strBranch m)

/-- everything `smf.Message` answers about `m` beyond the forwarded accessors -/
def sigSmf (m : Bytes) : List Int :=
  [match smfGetType m with | some t => t | none => 999, optB (smfIsMeta m)] ++
  categories.map (fun c => optB (msgIs .smf m c)) ++
  [optB (smfIsPlayable m), optB (isOneOf .smf m [MetaTempoMsg, MetaMsg]), optB (isOneOf .smf m [ChannelMsg, MetaTextMsg])] ++
  [resCode (getMetaTempo m), resCode (getMetaTimeSig m)] ++ sig1 (getMeta1 MetaChannelMsg m) ++
  sig1 (getMeta1 MetaPortMsg m) ++ sig1 (getMetaSeqNumber m) ++ [resCode (getMetaSMPTEOffset m)] ++
  [match getMetaSeqData m with | .yes d => 1 + 4 * (d.length : Int) | r => resCode r] ++ [resCode (getMetaKeySig m)] ++
  [MetaLyricMsg, MetaCopyrightMsg, MetaCuepointMsg, MetaDeviceMsg, MetaInstrumentMsg, MetaMarkerMsg,
   MetaProgramNameMsg, MetaTextMsg, MetaTrackNameMsg].map (fun t => resCode (getMetaText t m)) ++
  (match smfStrBranch m with | .yes (b, _) => [1, b] | r => [resCode r])

def sigAll (m : Bytes) : List Int := sigMidi m ++ sigSmf m

/-- FNV-1a (64 bit) over 16-bit little-endian encodings of `v + 32768` -/
def fnvStep (h : UInt64) (b : UInt64) : UInt64 := (h ^^^ b) * 0x100000001b3

def fnvInt (h : UInt64) (v : Int) : UInt64 :=
  let u := ((v + 32768) % 65536).toNat
  fnvStep (fnvStep h (UInt64.ofNat (u % 256))) (UInt64.ofNat (u / 256))

def fnvInts (h : UInt64) (l : List Int) : UInt64 := l.foldl fnvInt h

def fnvInit : UInt64 := 0xcbf29ce484222325

def showInts (l : List Int) : String := ",".intercalate (l.map toString)

/-- a constructor call with its Go arguments -/
inductive Call where
  | noteOn (ch k v : Nat)
  | noteOffVelocity (ch k v : Nat)
  | noteOff (ch k : Nat)
  | polyAfterTouch (ch k p : Nat)
  | controlChange (ch c v : Nat)
  | programChange (ch p : Nat)
  | afterTouch (ch p : Nat)
  | pitchbend (ch : Nat) (v : Int)
  | spp (p : Nat)
  | songSelect (s : Nat)
  | mtc (m : Nat)
  | tune | timingClock | tick | start | continue_ | stop | activesense | reset
  deriving Repr

/-- the bytes of the returned `Message`; `none` = the constructor panics -/
def Call.bytes : Call → Option Bytes
  | .noteOn ch k v => some (Msg.noteOn ch k v)
  | .noteOffVelocity ch k v => some (Msg.noteOffVelocity ch k v)
  | .noteOff ch k => some (Msg.noteOff ch k)
  | .polyAfterTouch ch k p => some (Msg.polyAfterTouch ch k p)
  | .controlChange ch c v => some (Msg.controlChange ch c v)
  | .programChange ch p => some (Msg.programChange ch p)
  | .afterTouch ch p => some (Msg.afterTouch ch p)
  | .pitchbend ch v => Msg.pitchbend ch v
  | .spp p => some (Msg.spp p)
  | .songSelect s => some (Msg.songSelect s)
  | .mtc m => some (Msg.mtc m)
  | .tune => some Msg.tune
  | .timingClock => some Msg.timingClock
  | .tick => some Msg.tick
  | .start => some Msg.start
  | .continue_ => some Msg.continue_
  | .stop => some Msg.stop
  | .activesense => some Msg.activesense
  | .reset => some Msg.reset

/-- the arguments are values of the Go parameter types (`uint8`, `int16`, `uint16`) -/
def Call.Valid : Call → Prop
  | .noteOn ch k v | .noteOffVelocity ch k v | .polyAfterTouch ch k v | .controlChange ch k v =>
    ch < 256 ∧ k < 256 ∧ v < 256
  | .noteOff ch k | .programChange ch k | .afterTouch ch k => ch < 256 ∧ k < 256
  | .pitchbend ch v => ch < 256 ∧ -32768 ≤ v ∧ v ≤ 32767
  | .spp p => p < 65536
  | .songSelect s => s < 256
  | .mtc m => m < 256
  | _ => True

/-- the message type the constructor is documented to build -/
def Call.type : Call → Int
  | .noteOn .. => NoteOnMsg
  | .noteOffVelocity .. => NoteOffMsg
  | .noteOff .. => NoteOffMsg
  | .polyAfterTouch .. => PolyAfterTouchMsg
  | .controlChange .. => ControlChangeMsg
  | .programChange .. => ProgramChangeMsg
  | .afterTouch .. => AfterTouchMsg
  | .pitchbend .. => PitchBendMsg
  | .spp _ => SPPMsg
  | .songSelect _ => SongSelectMsg
  | .mtc _ => MTCMsg
  | .tune => TuneMsg
  | .timingClock => TimingClockMsg
  | .tick => TickMsg
  | .start => StartMsg
  | .continue_ => ContinueMsg
  | .stop => StopMsg
  | .activesense => ActiveSenseMsg
  | .reset => ResetMsg

/-- the type-specific accessors (derived views `GetNoteStart`, `GetNoteEnd`, `GetChannel` aside):
    the type each one is documented for, and whether it accepts `m` -/
def specificAccepts (m : Bytes) : List (Int × Bool) :=
  [(NoteOnMsg, (getNoteOn m).accepts), (NoteOffMsg, (getNoteOff m).accepts),
   (PolyAfterTouchMsg, (getPolyAfterTouch m).accepts), (AfterTouchMsg, (getAfterTouch m).accepts),
   (ControlChangeMsg, (getControlChange m).accepts), (ProgramChangeMsg, (getProgramChange m).accepts),
   (PitchBendMsg, (getPitchBend m).accepts), (MTCMsg, (getMTC m).accepts), (SPPMsg, (getSPP m).accepts),
   (SongSelectMsg, (getSongSelect m).accepts), (SysExMsg, (getSysEx m).accepts)]

/-- the same for `smf.Message`: the forwarded accessors plus the meta accessors (the wrappers
    `GetMetaMeter` = `GetMetaTimeSig` and `GetMetaKey` = `GetMetaKeySig` count once) -/
def smfSpecificAccepts (m : Bytes) : List (Int × Bool) :=
  specificAccepts m ++
  [(MetaTempoMsg, (getMetaTempo m).accepts), (MetaTimeSigMsg, (getMetaTimeSig m).accepts),
   (MetaChannelMsg, (getMeta1 MetaChannelMsg m).accepts), (MetaPortMsg, (getMeta1 MetaPortMsg m).accepts),
   (MetaSeqNumberMsg, (getMetaSeqNumber m).accepts), (MetaSMPTEOffsetMsg, (getMetaSMPTEOffset m).accepts),
   (MetaSeqDataMsg, (getMetaSeqData m).accepts), (MetaKeySigMsg, (getMetaKeySig m).accepts)] ++
  textTypes.map (fun t => (t, (getMetaText t m).accepts))

/-- constructor by name; arguments as the Go caller passes them (uint8 / int16 / uint16 values) -/
def ctor (kind : String) (a b c : Nat) : Option Call :=
  match kind with
  | "noteon" => some (.noteOn a b c)
  | "noteoffvel" => some (.noteOffVelocity a b c)
  | "noteoff" => some (.noteOff a b)
  | "polyat" => some (.polyAfterTouch a b c)
  | "cc" => some (.controlChange a b c)
  | "pc" => some (.programChange a b)
  | "at" => some (.afterTouch a b)
  | "pitchbend" => -- b = the int16 argument as its uint16 bit pattern
    some (.pitchbend a (if b < 32768 then (b : Int) else (b : Int) - 65536))
  | "spp" => some (.spp a)
  | "songselect" => some (.songSelect a)
  | "mtc" => some (.mtc a)
  | "tune" => some .tune
  | "timingclock" => some .timingClock
  | "tick" => some .tick
  | "start" => some .start
  | "continue" => some .continue_
  | "stop" => some .stop
  | "activesense" => some .activesense
  | "reset" => some .reset
  | _ => none

/-- signature of one constructor call: length, bytes, then everything `midi.Message` answers -/
def ctorSig (kind : String) (a b c : Nat) : Option (List Int) :=
  match ctor kind a b c with
  | none => none
  | some call => match call.bytes with
    | none => some [-1]
    | some bs => some ([(bs.length : Int)] ++ natsI bs ++ sigMidi bs)

/-- which argument a block varies over its 256 (or, `pitchbend`/`spp`: low byte) values -/
def ctorBlock (kind : String) (a b : Nat) : Option UInt64 :=
  let pt (x : Nat) : Option (List Int) :=
    match kind with
    | "pitchbend" => ctorSig kind a (b * 256 + x) 0
    | "spp" => ctorSig kind (a * 256 + x) 0 0
    | "songselect" | "mtc" => ctorSig kind x 0 0
    | "pc" | "at" | "noteoff" => ctorSig kind a x 0
    | _ => ctorSig kind a b x
  (List.range 256).foldl (fun acc x => match acc, pt x with
    | some h, some s => some (fnvInts h s)
    | _, _ => none) (some fnvInit)

def parseInts (s : String) : Option (List Int) :=
  if s = "-" then some [] else (s.splitOn ",").mapM intOfString

def wellFormedBytes (l : Bytes) : Bool := l.all (· < 256)

--@driver msg. Msg.handle
/-- line protocol:
`msg.ctor kind a b c` → `sig=…`; `msg.ctorblk kind a b` → `h=…`; `msg.cls HEX` → `sig=…`;
`msg.clsblk HEX` → `h=…` (hash over the 256 one-byte extensions); `msg.clsblk2 HH` → 256 such hashes,
one per second byte; `msg.isrow t` → `row=…`
(`Type(t).Is(c)` for c = -128..127); `msg.oneof v HEX c1,c2,…` → `r=…`; `msg.alloc HEX` → `a=…`. -/
def handle (op : String) (args : List String) : String :=
  match op, args with
  | "msg.ctor", [kind, a, b, c] =>
    (match a.toNat?, b.toNat?, c.toNat? with
     | some a, some b, some c =>
       if a < 65536 ∧ b < 65536 ∧ c < 256 then
         match ctorSig kind a b c with
         | some s => "sig=" ++ showInts s
         | none => "bad-op"
       else "bad-op"
     | _, _, _ => "bad-op")
  | "msg.ctorblk", [kind, a, b] =>
    (match a.toNat?, b.toNat? with
     | some a, some b =>
       if a < 256 ∧ b < 256 then
         match ctorBlock kind a b with
         | some h => s!"h={h.toNat}"
         | none => "bad-op"
       else "bad-op"
     | _, _ => "bad-op")
  | "msg.cls", [h] =>
    (match unhex h with
     | some m => if wellFormedBytes m then "sig=" ++ showInts (sigAll m) else "bad-op"
     | none => "bad-op")
  | "msg.clsblk", [h] =>
    (match unhex h with
     | some m =>
       if wellFormedBytes m then
         let r := (List.range 256).foldl (fun acc x => fnvInts acc (sigAll (m ++ [x]))) fnvInit
         s!"h={r.toNat}"
       else "bad-op"
     | none => "bad-op")
  | "msg.clsblk2", [h] =>
    (match unhex h with
     | some [a] =>
       if a < 256 then
         let hs := (List.range 256).map (fun b =>
           (List.range 256).foldl (fun acc x => fnvInts acc (sigAll [a, b, x])) fnvInit)
         "h=" ++ ",".intercalate (hs.map (fun h => toString h.toNat))
       else "bad-op"
     | _ => "bad-op")
  | "msg.isrow", [t] =>
    (match intOfString t with
     | some t =>
       if -128 ≤ t ∧ t ≤ 127 then
         "row=" ++ String.ofList ((List.range 256).map (fun (i : Nat) => if typeIs t ((i : Int) - 128) then '1' else '0'))
       else "bad-op"
     | none => "bad-op")
  | "msg.oneof", [v, h, cs] =>
    (match unhex h, parseInts cs with
     | some m, some cs =>
       if wellFormedBytes m ∧ cs.all (fun c => -128 ≤ c ∧ c ≤ 127) then
         if v = "midi" then s!"r={optB (isOneOf .midi m cs)}"
         else if v = "smf" then s!"r={optB (isOneOf .smf m cs)}"
         else "bad-op"
       else "bad-op"
     | _, _ => "bad-op")
  | "msg.alloc", [h] =>
    (match unhex h with
     | some m =>
       if wellFormedBytes m then
         match smfStrBranch m with
         | .yes (b, a) => s!"b={b} a={a}"
         | .no => "no"
         | .panic => "panic"
       else "bad-op"
     | none => "bad-op")
  | _, _ => "bad-op"

end Midi.Msg
