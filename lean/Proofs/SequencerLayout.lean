import Proofs.SequencerSpec
/-!
# C20 helper lemmas: bar lengths, bar starts, time-signature line
-/
namespace Midi.Sequencer
open Midi Midi.Smf

/-- inside the domain the `uint16`/`uint8` arithmetic of `Bar.Len` is the plain quotient -/
theorem Bar.len_eq (b : Bar) (h : SigOK b) : b.len = some (len32 b) := by
  obtain ⟨h1, h2, hd, h3⟩ := h
  unfold Bar.len len32
  rcases hd with hd | hd | hd | hd | hd | hd <;> rw [hd] at h3 ⊢ <;>
    (simp only [Nat.reduceMod]; rw [if_neg (by omega)]; congr 1; omega)

theorem len32_pos (b : Bar) (h : SigOK b) : 1 ≤ len32 b ∧ len32 b ≤ 255 := by
  obtain ⟨h1, h2, hd, h3⟩ := h
  unfold len32
  rcases hd with hd | hd | hd | hd | hd | hd <;> rw [hd] at h3 ⊢ <;> omega

/-- `SetBarAbsTicks` lays the bars end to end -/
theorem place_eq (t : Nat) : ∀ (bars : List Bar) (st : Nat), (∀ b ∈ bars, SigOK b) →
    place t st bars = some (laid t st bars, endOf t st bars)
  | [], _, _ => rfl
  | b :: r, st, h => by
    have hb := Bar.len_eq b (h b (by simp))
    have hr := place_eq t r (st + len32 b * t) (fun b hb => h b (by simp [hb]))
    simp only [place, hb, hr, laid, endOf]

theorem laid_map_snd (t : Nat) : ∀ (bars : List Bar) (st : Nat), (laid t st bars).map (·.2) = bars
  | [], _ => rfl
  | b :: r, st => by simp [laid, laid_map_snd t r]

theorem laid_length (t : Nat) (bars : List Bar) (st : Nat) : (laid t st bars).length = bars.length := by
  have := congrArg List.length (laid_map_snd t bars st)
  simpa using this

theorem endOf_ge (t : Nat) : ∀ (bars : List Bar) (st : Nat), st ≤ endOf t st bars
  | [], _ => Nat.le_refl _
  | b :: r, st => by
    have := endOf_ge t r (st + len32 b * t)
    simp only [endOf]; omega

/-- every bar lies between the start of the layout and its end -/
theorem laid_mem (t : Nat) : ∀ (bars : List Bar) (st : Nat) (sb : Nat × Bar), sb ∈ laid t st bars →
    st ≤ sb.1 ∧ sb.1 + len32 sb.2 * t ≤ endOf t st bars ∧ sb.2 ∈ bars
  | [], _, _, h => by simp [laid] at h
  | b :: r, st, sb, h => by
    simp only [laid, List.mem_cons] at h
    rcases h with h | h
    · subst h
      have := endOf_ge t r (st + len32 b * t)
      simp only [endOf]
      exact ⟨Nat.le_refl _, this, by simp⟩
    · have := laid_mem t r _ sb h
      simp only [endOf]
      exact ⟨by omega, this.2.1, by simp [this.2.2]⟩

/-- bar starts never decrease, and increase strictly when bars and thirty-seconds are not empty -/
theorem laid_pairwise (t : Nat) : ∀ (bars : List Bar) (st : Nat),
    (laid t st bars).Pairwise (fun a b => a.1 + len32 a.2 * t ≤ b.1)
  | [], _ => List.Pairwise.nil
  | b :: r, st => by
    simp only [laid]
    refine List.Pairwise.cons ?_ (laid_pairwise t r _)
    intro sb hsb
    exact (laid_mem t r _ sb hsb).1

/-- the list of bar boundaries: starts of all bars, then the end of the last -/
def bounds (t : Nat) : Nat → List Bar → List Nat
  | st, [] => [st]
  | st, b :: r => st :: bounds t (st + len32 b * t) r

theorem bounds_eq (t : Nat) : ∀ (bars : List Bar) (st : Nat),
    (laid t st bars).map (·.1) ++ [endOf t st bars] = bounds t st bars
  | [], _ => rfl
  | b :: r, st => by simp [laid, endOf, bounds, bounds_eq t r]

theorem bounds_succ (t : Nat) : ∀ (bars : List Bar) (st k : Nat) (b : Bar), bars[k]? = some b →
    ∃ s, (bounds t st bars)[k]? = some s ∧ (bounds t st bars)[k+1]? = some (s + len32 b * t)
  | [], _, _, _, h => by simp at h
  | b0 :: r, st, 0, b, h => by
    simp only [List.getElem?_cons_zero, Option.some.injEq] at h
    subst h
    refine ⟨st, by simp [bounds], ?_⟩
    cases r <;> simp [bounds]
  | b0 :: r, st, k+1, b, h => by
    simp only [List.getElem?_cons_succ] at h
    obtain ⟨s, h1, h2⟩ := bounds_succ t r (st + len32 b0 * t) k b h
    exact ⟨s, by simpa [bounds] using h1, by simpa [bounds] using h2⟩

/-! ## Resolution -/

theorem t32_eq (s : Song) (h : s.ticks < 65536 ∧ s.ticks % 8 = 0) :
    t32 (if s.ticks = 0 then 960 else s.ticks) = tq s ∧ 1 ≤ tq s ∧ tq s ≤ 8191 := by
  unfold t32 resolution tq
  by_cases h0 : s.ticks = 0
  · simp [h0]
  · simp only [h0, if_false]
    omega

/-! ## Scratch field `Delta` -/

theorem setDeltas_tm : ∀ (l : List TEv) (last : Nat), (setDeltas last l).map tm = l.map tm
  | [], _ => rfl
  | e :: r, last => by simp [setDeltas, setDeltas_tm r, tm]

theorem setDeltas_key : ∀ (l : List TEv) (last : Nat), (setDeltas last l).map key = l.map key
  | [], _ => rfl
  | e :: r, last => by simp [setDeltas, setDeltas_key r, key]

/-! ## Time-signature line -/

theorem vlq4 : Vlq.encode 4 = [4] := by decide

theorem metaMeter_eq (b : Bar) (h : SigOK b) : metaMeter b.num b.den = meterBytes b.num b.den := by
  obtain ⟨_, _, hd, _⟩ := h
  rcases hd with hd | hd | hd | hd | hd | hd <;> rw [hd] <;>
    simp [metaMeter, metaMsg, meterBytes, vlq4, dec2bin, dec2binLoop]

/-- the loop of `mkBarLine` emits exactly the signature changes -/
theorem sigEvts_tm : ∀ (placed : List (Nat × Bar)) (sig : Nat × Nat), (∀ sb ∈ placed, SigOK sb.2) →
    (sigEvts sig placed).map tm = sigChanges sig placed
  | [], _, _ => rfl
  | (st, b) :: r, sig, h => by
    have hb : SigOK b := h (st, b) (by simp)
    have hr := fun sg => sigEvts_tm r sg (fun sb hsb => h sb (by simp [hsb]))
    have hn : ¬ (b.num = 0 ∧ b.den = 0) := by
      intro hc; have := hb.1; omega
    by_cases hs : (b.num, b.den) = sig
    · simp only [sigEvts, sigChanges, hs, ne_eq, not_true_eq_false, and_false, if_false, if_true]
      exact hr _
    · simp only [sigEvts, sigChanges, hs, hn, ne_eq, not_false_eq_true, and_self, if_true, if_false,
        List.map_cons, hr, tm, metaMeter_eq b hb]

theorem sigEvts_mem : ∀ (placed : List (Nat × Bar)) (sig : Nat × Nat) (e : TEv), e ∈ sigEvts sig placed →
    ∃ sb ∈ placed, e = ⟨sb.1, 0, metaMeter sb.2.num sb.2.den, 0⟩
  | [], _, _, h => by simp [sigEvts] at h
  | (st, b) :: r, sig, e, h => by
    simp only [sigEvts] at h
    split at h
    · simp only [List.mem_cons] at h
      rcases h with h | h
      · exact ⟨(st, b), by simp, h⟩
      · obtain ⟨sb, h1, h2⟩ := sigEvts_mem r _ e h
        exact ⟨sb, by simp [h1], h2⟩
    · obtain ⟨sb, h1, h2⟩ := sigEvts_mem r _ e h
      exact ⟨sb, by simp [h1], h2⟩

/-- time-signature events come in bar order -/
theorem sigEvts_pairwise (R : Nat → Nat → Prop) : ∀ (placed : List (Nat × Bar)) (sig : Nat × Nat),
    placed.Pairwise (fun a b => R a.1 b.1) → (sigEvts sig placed).Pairwise (fun a b => R a.abs b.abs)
  | [], _, _ => List.Pairwise.nil
  | (st, b) :: r, sig, h => by
    rw [List.pairwise_cons] at h
    simp only [sigEvts]
    split
    · refine List.Pairwise.cons ?_ (sigEvts_pairwise R r _ h.2)
      intro e he
      obtain ⟨sb, h1, h2⟩ := sigEvts_mem r _ e he
      subst h2
      exact h.1 sb h1
    · exact sigEvts_pairwise R r _ h.2

end Midi.Sequencer
