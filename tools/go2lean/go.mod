module verifgo2lean

go 1.22.2
