package main

import (
	"fmt"
	"strings"
)

// C06: the live decoder survives arbitrary bytes and resynchronises like a MIDI receiver.
func init() {
	register(&Prop{
		ID: "C06",
		Rule: "all byte streams up to length 5 (quick) / 6 (thorough) over an 18-symbol class alphabet (data low/high, each channel status " +
			"kind, F0..F7 each, real-time), each as one chunk and byte-wise; long random streams in random chunkings; garbage prefixes " +
			"followed by well-formed sequences (resynchronisation). Judged against an independent reference receiver written from the " +
			"MIDI 1.0 receiver rules, for panics and for well-formedness of every delivered message. non-trivial = stream with at least one " +
			"status byte; distinct by op text",
		Gen: func(r *Rng, tier string, emit func(Case)) {
			maxLen, nrand, nresync := 4, 1500, 600
			if tier == "thorough" {
				maxLen, nrand, nresync = 5, 40000, 20000
			}
			// exhaustive over the class alphabet
			var rec func(prefix []byte)
			rec = func(prefix []byte) {
				if len(prefix) > 0 {
					b := append([]byte{}, prefix...)
					nt := false
					for _, x := range b {
						if x >= 0x80 {
							nt = true
						}
					}
					buf := 4
					emit(Case{Op: liveOp(7, buf, []liveChunk{{1, b}}), Tags: []string{"exhaustive"}, NonTrivial: nt})
				}
				if len(prefix) == maxLen {
					return
				}
				for _, a := range classAlphabet {
					rec(append(prefix, a))
				}
			}
			rec(nil)
			genSysexSweep(r, tier, func(buf int, w []wireByte) {
				cs, _ := cutWire(r, w, r.Pick(0, 3, 3))
				emit(Case{Op: liveOp(7, buf, cs), Tags: []string{"sysex-length-sweep"}, NonTrivial: true})
			})
			for _, op := range bigSysexOps(r, tier) {
				emit(Case{Op: op, Tags: []string{"big-sysex"}, NonTrivial: true})
			}
			// sysex episodes: overflowing / fitting / empty sysex, each ended by F7, by another F0 or by a status byte,
			// several in a row (what one episode leaves behind must not leak into the next)
			nep := 300
			if tier == "thorough" {
				nep = 20000
			}
			for i := 0; i < nep; i++ {
				buf := r.Pick(3, 4, 5, 8, 16)
				var b []byte
				for e := r.Range(2, 5); e > 0; e-- {
					b = append(b, 0xF0)
					for k := r.Pick(0, 1, buf-3, buf-2, buf-1, buf, buf+1, buf+5); k > 0; k-- {
						b = append(b, byte(r.Intn(128)))
					}
					switch r.Intn(5) {
					case 0, 1:
						b = append(b, 0xF7)
					case 2: // interrupted by the next F0
					case 3:
						b = append(b, byte(r.Pick(0x90, 0xC0, 0xF1, 0xF2, 0xF6, 0xF4)), byte(r.Intn(128)))
					default:
						b = append(b, rtBytes[r.Intn(len(rtBytes))])
					}
				}
				b = append(b, 0xF7, 0x90, 0x3C, 0x64)
				emit(Case{Op: liveOp(r.Pick(7, 7, 1, 5), buf, randomChunks(r, b)), Tags: []string{"sysex-episodes"}, NonTrivial: true})
			}
			for i := 0; i < nrand; i++ {
				b := genGarbage(r, r.Range(1, 60))
				buf := r.Pick(0, 1, 2, 3, 4, 8, 16)
				emit(Case{Op: liveOp(r.Intn(8), buf, randomChunks(r, b)), Tags: []string{"random"}, NonTrivial: true})
			}
			// well-formed streams (all message kinds, named universal sysex among them) under every option set
			for i := 0; i < nresync; i++ {
				buf := r.Pick(0, 16, 32, 64)
				w := genWire(r, buf, r.Range(1, 8), r.Pick(0, 10))
				var b []byte
				for _, wb := range w {
					b = append(b, wb.b)
				}
				emit(Case{Op: liveOp(i%8, buf, randomChunks(r, b)), Tags: []string{"valid-any-options"}, NonTrivial: true})
			}
			for i := 0; i < nresync; i++ {
				buf := r.Pick(0, 8, 16)
				g := genGarbage(r, r.Range(0, 12))
				w := genWire(r, buf, r.Range(1, 6), r.Pick(0, 10))
				// the well-formed part must start with a non-real-time status byte
				for len(w) > 0 && (w[0].b >= 0xF8) {
					w = w[1:]
				}
				if len(w) == 0 {
					continue
				}
				gcs := randomChunks(r, g)
				wcs, exp := cutWire(r, w, r.Intn(4))
				var gts int32
				for _, c := range gcs {
					gts += c.delta
				}
				for j := range exp {
					exp[j].ts += gts
				}
				lc := liveCase(append(append([]liveChunk{}, gcs...), wcs...), exp, buf, append(make([]wireByte, len(g)), w...))
				emit(Case{Op: lc.Op + fmt.Sprintf(" glen=%d", len(gcs)), Tags: []string{"garbage+valid"}, NonTrivial: true})
			}
		},
		Run: runC06,
	})
}

func runC06(c Case, m *Model) (v Verdict) {
	if strings.HasPrefix(c.Op, "live.big ") {
		runBigSysex(c.Op, &v)
		return
	}
	f := fields(c.Op)
	var cfg, buf int
	fmt.Sscanf(f["cfg"], "%d", &cfg)
	fmt.Sscanf(f["buf"], "%d", &buf)
	cs := parseChunks(f["chunks"])
	msgs, ok := compareWithModel(cfg, buf, cs, m, &v)
	if !ok {
		return
	}
	eff := buf
	if eff == 0 {
		eff = 1024
	}
	// every delivered message is non-empty and well formed
	for _, mm := range msgs {
		if !wellFormedMsg(mm.b, eff) {
			v.Oracle = append(v.Oracle, "delivered message is not well formed: "+hx(mm.b)+" :: "+short(c.Op))
			break
		}
	}
	// behaves as the MIDI 1.0 receiver model
	if ref := refListen(cfg, buf, cs); !sameLive(ref, msgs) {
		msgs2, _ := runListen(cfg, buf, cs)
		if !sameLive(ref, msgs2) {
			v.Oracle = append(v.Oracle, "differs from the reference receiver: got "+short(showLive(msgs))+" expected "+short(showLive(ref))+" :: "+short(c.Op))
		}
	}
	// resynchronisation: garbage ++ valid = (what the garbage alone yields) ++ exactly the valid messages
	if exp := f["exp"]; exp != "" && f["glen"] != "" {
		var glen int
		fmt.Sscanf(f["glen"], "%d", &glen)
		gm, _ := runListen(cfg, buf, cs[:glen])
		want := showLive(append(append([]liveMsg{}, gm...), parseLive(exp)...))
		if showLive(msgs) != want {
			v.Oracle = append(v.Oracle, "after the garbage prefix the valid messages were not decoded exactly: got "+short(showLive(msgs))+" want "+short(want)+" :: "+short(c.Op))
		}
	}
	return
}
