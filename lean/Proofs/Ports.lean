import MidiModel.Ports
/-!
# Helper lemmas for C17: the testdrv machine refines the port contract on protocol-respecting histories
-/
namespace Midi.Ports

theorem St.trace_append (s : St) (a b : List Op) :
    St.trace s (a ++ b) = St.trace s a ++ St.trace (St.final s a) b := by
  induction a generalizing s with
  | nil => rfl
  | cons op r ih => simp [St.trace, St.final, ih]

theorem St.final_append (s : St) (a b : List Op) :
    St.final s (a ++ b) = St.final (St.final s a) b := by
  induction a generalizing s with
  | nil => rfl
  | cons op r ih => simp [St.final, ih]

theorem Spec.final_append (s : Spec) (a b : List Op) :
    Spec.final s (a ++ b) = Spec.final (Spec.final s a) b := by
  induction a generalizing s with
  | nil => rfl
  | cons op r ih => simp [Spec.final, ih]

theorem St.trace_length (s : St) (ops : List Op) : (St.trace s ops).length = ops.length := by
  induction ops generalizing s with
  | nil => rfl
  | cons op r ih => simp [St.trace, ih]

/-- one allowed call: the driver answers as the contract does and stays in the abstraction relation -/
theorem step_refines (s : St) (op : Op) (h : allowed (abs s) op = true) :
    Spec.step (abs s) op = (abs (s.step op).1, (s.step op).2) := by
  obtain ⟨i, o, rd, st, n⟩ := s
  cases op with
  | openIn => cases st <;> simp [Spec.step, St.step, abs]
  | openOut => cases st <;> simp [Spec.step, St.step, abs]
  | closeIn =>
    simp only [allowed, abs] at h
    cases st <;> cases rd <;> simp_all [Spec.step, St.step, abs]
  | closeOut => cases st <;> simp [Spec.step, St.step, abs]
  | listen =>
    simp only [allowed, abs] at h
    cases i <;> cases st <;> cases rd <;> simp_all [Spec.step, St.step, abs]
  | stop k =>
    simp only [allowed, abs, Bool.and_eq_true, decide_eq_true_eq] at h
    obtain ⟨hk, h2⟩ := h
    cases st <;> cases rd <;> simp_all [Spec.step, St.step, abs]
  | send m =>
    cases o <;> cases st <;> cases rd <;> simp [Spec.step, St.step, abs]

theorem exec_refines (s : St) (op : Op) (h : allowed (abs s) op = true) :
    Spec.exec (abs s) op = (abs (s.exec op).1, (s.exec op).2) := by
  simp only [Spec.exec, St.exec, step_refines s op h]
  rfl

/-- the refinement, from any pair of related states -/
theorem trace_refines (s : St) (ops : List Op) (h : protocolOK (abs s) ops = true) :
    St.trace s ops = Spec.trace (abs s) ops ∧ abs (St.final s ops) = Spec.final (abs s) ops := by
  induction ops generalizing s with
  | nil => exact ⟨rfl, rfl⟩
  | cons op r ih =>
    simp only [protocolOK, Bool.and_eq_true] at h
    obtain ⟨h1, h2⟩ := h
    have e := exec_refines s op h1
    rw [e] at h2
    have := ih (s.exec op).1 h2
    simp only [St.trace, Spec.trace, St.final, Spec.final, e]
    exact ⟨by rw [this.1], this.2⟩

/-- `listens` counts the `Listen` calls -/
theorem listens_final (s : St) (ops : List Op) :
    (St.final s ops).listens = s.listens + countListens ops := by
  induction ops generalizing s with
  | nil => rfl
  | cons op r ih =>
    rw [St.final, ih]
    cases op <;> simp [St.exec, St.step, countListens] <;> try omega
    case stop k => split <;> simp
    case send n => repeat' split <;> try simp

theorem lastOutCall_final (s : St) (ops : List Op) :
    (St.final s ops).outOpen = (match lastOutCall ops with | some b => b | none => s.outOpen) := by
  induction ops generalizing s with
  | nil => rfl
  | cons op r ih =>
    simp only [St.final, lastOutCall]
    rw [ih]
    cases hl : lastOutCall r with
    | some b => rfl
    | none =>
      cases op with
      | stop k => simp only [St.exec, St.step]; split <;> rfl
      | send n => simp only [St.exec, St.step]; split; rfl; split; rfl; split <;> rfl
      | _ => rfl

/-- once the `k`-th stop function has run, listener `k` is dead: the flag is set or the reader belongs to
    someone else, and every later `Listen` gets a larger id -/
def Dead (k : Nat) (s : St) : Prop := (s.stopListening = true ∨ s.rd ≠ some k) ∧ k < s.listens

theorem dead_step (k : Nat) (s : St) (op : Op) (h : Dead k s) :
    Dead k (s.exec op).1 ∧ ∀ c ∈ (s.exec op).2.calls, c.1 ≠ k := by
  obtain ⟨i, o, rd, st, n⟩ := s
  obtain ⟨h1, h2⟩ := h
  simp only at h1 h2
  cases op with
  | openIn => exact ⟨⟨h1, h2⟩, by simp [St.exec, St.step]⟩
  | openOut => exact ⟨⟨h1, h2⟩, by simp [St.exec, St.step]⟩
  | closeIn => exact ⟨⟨h1, h2⟩, by simp [St.exec, St.step]⟩
  | closeOut => exact ⟨⟨h1, h2⟩, by simp [St.exec, St.step]⟩
  | listen =>
    refine ⟨⟨Or.inr ?_, ?_⟩, by simp [St.exec, St.step]⟩
    · simp only [St.exec, St.step]; intro e; injection e with e; omega
    · simp only [St.exec, St.step]; omega
  | stop j =>
    simp only [St.exec, St.step]
    split
    · exact ⟨⟨Or.inl rfl, h2⟩, by simp⟩
    · exact ⟨⟨h1, h2⟩, by simp⟩
  | send m =>
    simp only [St.exec, St.step]
    cases o <;> cases st <;> cases rd <;> simp_all [Dead]

theorem dead_trace (k : Nat) (s : St) (ops : List Op) (h : Dead k s) :
    ∀ o ∈ St.trace s ops, ∀ c ∈ o.calls, c.1 ≠ k := by
  induction ops generalizing s with
  | nil => simp [St.trace]
  | cons op r ih =>
    have := dead_step k s op h
    intro o ho
    simp only [St.trace, List.mem_cons] at ho
    rcases ho with rfl | ho
    · exact this.2
    · exact ih _ this.1 o ho

end Midi.Ports
