import Proofs.ReaderTie
/-!
# C04, tie to the source: the Lean translation of `v2/drivers/reader.go` refines the decoder model

`MidiModel/Generated/ReaderGo.lean` is regenerated from the working tree by `tools/go2lean` on every run (statement
by statement: `Reader.eachByte`, `cleanState`, `withinChannelMessage`, `EachMessage`, `setDelta`, `Reset` and the
`utils` leaf functions they call). The theorems below are about THAT text. If `reader.go` changes, the generated
definitions change and these proofs are re-checked against them; when they no longer go through, `./check` says so.

What the translation assumes (trusted): `tools/go2lean` and `MidiModel/GoSem.lean` render the Go subset faithfully
(unsigned = `Nat` with explicit wrap, `int` = 64-bit wrap, slices = lists without capacity/aliasing, a func-typed
field = an event appended to `trace`); `drivers.NewReader` itself (a struct literal with a closure) is rendered by hand
as `Tie.newReader` (zero `Reader`, configuration fields, `Reset()`).
-/
namespace Midi.C04
open Midi Midi.Live Midi.Go Midi.Tie

/-- For every configuration (`SysExBufferSize` is a `uint32`), every sequence of `EachMessage(bytes, Δ)` calls with
    bytes `< 256`: the translated reader does not panic and hands `OnMsg` exactly the frames of the model, in
    order, with the model's time stamp taken modulo 2^32 (the code's `int32` clock). -/
theorem code_reader_refines_model (c : Cfg) (hc : c.buf < 4294967296) (chunks : List (Int × Bytes))
    (hb : ∀ ch ∈ chunks, ∀ b ∈ ch.2, b < 256) :
    ∃ r0 r', newReader c = .ok r0 ∧ goFeed r0 chunks = .ok r' ∧
      evFrames r'.trace = (feed c init (chunkToks chunks)).2.map wrapFrame := by
  obtain ⟨r0, h0, hrel, htr⟩ := newReader_rel c
  obtain ⟨r', h1, _, h3⟩ := goFeed_sim c hc chunks r0 init hrel (init_inv c) hb
  exact ⟨r0, r', h0, h1, by simpa [htr, evFrames] using h3⟩

/-- one byte, from any related pair of states (the simulation step the theorem above iterates) -/
theorem code_eachByte_step (c : Cfg) (hc : c.buf < 4294967296) (r : drivers.Reader) (s : St) (h : Rel c r s)
    (b : Nat) (hb : b < 256) : Sim c r.trace (drivers.Reader.eachByte r b) (step c s b) :=
  eb_sim c hc r s h b hb

/-- non-vacuity: the relation holds between the freshly reset translated reader and the model's initial state -/
example (c : Cfg) : ∃ r0, newReader c = .ok r0 ∧ Rel c r0 init := by
  obtain ⟨r0, h, hr, _⟩ := newReader_rel c; exact ⟨r0, h, hr⟩

end Midi.C04
