import Proofs.LiveWireTime
/-!
# Facts about the wire specification itself (`expected`, `tickSum`, legality of prefixes) and the
assembled decoding theorems from a given decoder state.
-/
namespace Midi.LiveWire
open Midi.Live

theorem tickSum_append (a b : List Tok) : tickSum (a ++ b) = tickSum a + tickSum b := by
  induction a with
  | nil => simp [tickSum]
  | cons x a ih => cases x <;> simp [tickSum, ih, Int.add_assoc]

theorem bytesOf_append (a b : List Tok) : bytesOf (a ++ b) = bytesOf a ++ bytesOf b := by
  induction a with
  | nil => simp [bytesOf]
  | cons x a ih => cases x <;> simp [bytesOf, ih]

theorem tickSum_bodyToks (body : Body) : tickSum (bodyToks body) = bodyTime body := by
  induction body with
  | nil => rfl
  | cons p r ih =>
    obtain ⟨g, d⟩ := p
    simp only [bodyToks, bodyTime, tickSum_append, tickSum, ih]

/-- the time an item takes is the sum of the ticks among its tokens -/
theorem item_time (it : Item) : it.time = tickSum it.toks := by
  cases it with
  | rt b => rfl
  | tick d => simp [Item.time, Item.toks, tickSum]
  | chan st e body => cases e <;> simp [Item.time, Item.toks, tickSum, tickSum_bodyToks]
  | sysc st body => simp [Item.time, Item.toks, tickSum, tickSum_bodyToks]
  | sysex body last => simp [Item.time, Item.toks, tickSum, tickSum_append, tickSum_bodyToks]

theorem wireToks_append (a b : List Item) : wireToks (a ++ b) = wireToks a ++ wireToks b := by
  induction a with
  | nil => rfl
  | cons x a ih => simp [wireToks, ih]

theorem expectedFrom_append (a b : List Item) :
    ∀ t : Int, expectedFrom t (a ++ b) = expectedFrom t a ++ expectedFrom (t + tickSum (wireToks a)) b := by
  induction a with
  | nil => intro t; simp [expectedFrom, wireToks, tickSum]
  | cons x a ih =>
    intro t
    simp only [List.cons_append, expectedFrom, wireToks, ih, tickSum_append, item_time, List.append_assoc,
      Int.add_assoc]

/-- the running status after an item sequence -/
def runAfterAll : Nat → List Item → Nat
  | run, [] => run
  | run, it :: r => runAfterAll (it.runAfter run) r

theorem wfFrom_append (bs : Nat) (a b : List Item) :
    ∀ run : Nat, wfFrom bs run (a ++ b) = (wfFrom bs run a && wfFrom bs (runAfterAll run a) b) := by
  induction a with
  | nil => intro run; simp [wfFrom, runAfterAll]
  | cons x a ih => intro run; simp [wfFrom, runAfterAll, ih, Bool.and_assoc]

/-- every message item ends with a byte -/
theorem toks_end_byte (it : Item) (run bs : Nat) (hok : it.ok bs run = true) (hm : it.message.isSome = true) :
    ∃ i b, it.toks = i ++ [Tok.byte b] := by
  have body_end : ∀ body : Body, body ≠ [] → ∃ i b, bodyToks body = i ++ [Tok.byte b] := by
    intro body
    induction body with
    | nil => intro h; exact absurd rfl h
    | cons p r ih =>
      obtain ⟨g, d⟩ := p
      intro _
      cases r with
      | nil => exact ⟨g, d, by simp [bodyToks]⟩
      | cons q r' =>
        obtain ⟨i, b, e⟩ := ih (by simp)
        exact ⟨g ++ Tok.byte d :: i, b, by simp only [bodyToks] at e ⊢; rw [e]; simp⟩
  cases it with
  | rt b => exact ⟨[], b, rfl⟩
  | tick d => simp [Item.message] at hm
  | chan st e body =>
    simp only [Item.ok, Bool.and_eq_true, decide_eq_true_eq] at hok
    have hne : body ≠ [] := by
      intro h; have hl := hok.1.2; rw [h] at hl; unfold chanLen at hl; split at hl <;> simp at hl
    obtain ⟨i, b, hb⟩ := body_end body hne
    exact ⟨(if e then [] else [Tok.byte st]) ++ i, b, by simp [Item.toks, hb]⟩
  | sysc st body =>
    by_cases hne : body = []
    · exact ⟨[], st, by simp [Item.toks, hne, bodyToks]⟩
    · obtain ⟨i, b, e⟩ := body_end body hne
      exact ⟨Tok.byte st :: i, b, by simp [Item.toks, e]⟩
  | sysex body last => exact ⟨Tok.byte 0xF0 :: (bodyToks body ++ last), 0xF7, by simp [Item.toks]⟩

theorem tickSum_dropLast_byte (i : List Tok) (b : Nat) : tickSum (i ++ [Tok.byte b]).dropLast = tickSum (i ++ [Tok.byte b]) := by
  simp [tickSum_append, tickSum]

/-- the stamp of an item's own message when the item starts at clock `t`: the clock at its last byte; sysex: at
    its first byte -/
def Item.stampAt (t : Int) : Item → Int
  | .sysex _ _ => t
  | it => t + it.time

/-- what an item hands to the listener: first the real-time bytes inside it, then the message itself -/
theorem msgs_split (it : Item) (t : Int) (m : Bytes) (hm : it.message = some m) :
    it.msgs t = it.inner t ++ [(m, it.stampAt t)] := by
  cases it with
  | rt b => simp [Item.message] at hm; subst hm; simp [Item.msgs, Item.inner, Item.stampAt, Item.time]
  | tick d => simp [Item.message] at hm
  | chan st e body => simp [Item.message] at hm; subst hm; simp [Item.msgs, Item.inner, Item.stampAt, Item.time]
  | sysc st body => simp [Item.message] at hm; subst hm; simp [Item.msgs, Item.inner, Item.stampAt, Item.time]
  | sysex body last => simp [Item.message] at hm; subst hm; simp [Item.msgs, Item.inner, Item.stampAt]

theorem stampAt_nonsysex (it : Item) (t : Int) (hns : ∀ b l, it ≠ .sysex b l) : it.stampAt t = t + it.time := by
  cases it with
  | sysex b l => exact absurd rfl (hns b l)
  | _ => rfl

/-! ## assembled: decoding from a given state -/

/-- legal sequence, decoder between messages with the right running status -/
theorem listen_from_clean (c : Cfg) (hc : AllOn c) (items : List Item) (s : St) (run : Nat) (t : Int)
    (hs : Clean s run t) (hwf : wfFrom c.bufSize run items = true) :
    listenFrames c (feed c s (wireToks items)).2 = delivered (expectedFrom t items) := by
  rw [feed_items c hc.1 items s run t hs hwf, listen_items c hc items run t hwf]

/-- legal sequence that starts with an explicit status byte: ANY decoder state -/
theorem listen_from_any (c : Cfg) (hc : AllOn c) (items : List Item) (s : St) (run : Nat)
    (hex : startsExplicit items = true) (hwf : wfFrom c.bufSize run items = true) :
    listenFrames c (feed c s (wireToks items)).2 = delivered (expectedFrom s.ts items) := by
  rw [feed_items_explicit c hc.1 items s run hex hwf, listen_items c hc items run s.ts hwf]

end Midi.LiveWire
