import Proofs.SmfReach
/-!
# C01 — SMF write/read round trip is the identity on file content

Model: `MidiModel/Smf.lean` (`writeTo` = `SMF.WriteTo`, `readFrom` = `smf.ReadFrom` on in-memory bytes,
`reach` = API histories). Domain `Dom` (DESIGN §8): 1..65535 tracks, format 0/1/2, metric division
1..32767 or SMPTE with 1..128 frames (covers 24/25/29/30), every message a well-formed channel,
meta (not end-of-track) or sysex/escape message, deltas over the full uint32 range.
`s.prepared` is the value after the in-place updates `WriteTo` performs (format promotion, closing of
open tracks with delta 0): it is "the file content that was written".
-/
namespace Midi.C01
open Midi Midi.Smf

/-- Writing any value of the domain succeeds and reading the bytes back yields exactly the written
    content: same format, division, number of tracks and per track the same (delta, bytes) sequence
    including the final end-of-track — with running status on (`rsOn = true`) or off. -/
theorem roundtrip (rsOn : Bool) (s : File) (h : Dom s) :
    ∃ w, writeTo rsOn s = .ok w ∧ readFrom w = .ok s.prepared := by
  obtain ⟨cs, hcs, hlen, hprep, hw⟩ := writeTo_dom rsOn s h
  refine ⟨_, hw, ?_⟩
  have hne : cs ≠ [] := by
    intro h0; subst h0; exact h.nonempty (List.eq_nil_of_length_eq_zero (by simpa using hlen.symm))
  have hfmt : s.prepared.format ≤ 2 := by
    have := h.fmt
    simp only [File.prepared]; split <;> omega
  have := readFrom_enc rsOn s.prepared.format s.tf cs [] hfmt h.tf hne (by rw [hlen]; exact h.count) hcs
  simp only [List.append_nil] at this
  rw [← hlen, this, ← hprep]
  simp [File.prepared]

/-- The same for every value reachable by a history of `New*`, `Track.Add` (single and multi-message),
    `Track.Close` (early, late, omitted) and `SMF.Add` calls with well-formed messages. -/
theorem roundtrip_reach (rsOn : Bool) (fmt : Nat) (tf : TimeFormat) (ops : List HOp)
    (hfmt : fmt ≤ 2) (htf : ValidTF tf) (ho : ∀ op ∈ ops, OpOK op)
    (h1 : 1 ≤ countAdds ops) (h2 : countAdds ops < 65536) :
    ∃ w, writeTo rsOn (reach fmt tf ops) = .ok w ∧ readFrom w = .ok (reach fmt tf ops).prepared :=
  roundtrip rsOn _ (reach_dom fmt tf ops hfmt htf ho h1 h2)

/-- what "prepared" changes: nothing but the format promotion and the closing of open tracks -/
theorem prepared_content (s : File) :
    s.prepared.tf = s.tf ∧ s.prepared.tracks.length = s.tracks.length ∧
    (∀ t ∈ s.tracks, t.isClosed = true → t.close 0 = t) ∧
    s.prepared.tracks = s.tracks.map (fun t => t.close 0) := by
  refine ⟨rfl, by simp [File.prepared], ?_, rfl⟩
  intro t _ hc; simp [Track.close, hc]

/-- the per-event core, usable from any reader state: one event written under writer status `rs` is
    decoded under reader status `rr` whenever the two agree (or running status is off) -/
theorem event_roundtrip (rsOn : Bool) (rs rr δ : Nat) (e : Ev) (rest : Bytes)
    (hv : e.Valid) (hδ : δ < 4294967296) (hrr : rsOn = true → rr = rs) :
    readEvent rr (Vlq.encode δ ++ (encBody rsOn rs e).1 ++ rest) = .ok ⟨δ, e.toBytes, statusOr0 e, rest⟩ :=
  readEvent_enc rsOn rs rr δ e rest hv hδ hrr

/-! Non-vacuity: a concrete two-track history with running status, a long delta, a meta and a sysex
    message meets the hypotheses; and the executable model really round-trips it. -/
def sampleOps : List HOp :=
  [.add 0 0 [[0x90, 60, 64], [0x90, 62, 64]], .add 0 4294967295 [[0xC1, 5]], .smfAdd 0,
   .add 1 128 [[0xFF, 0x01, 0x02, 0x41, 0x42], [0xF0, 0x7E, 0xF7]], .close 1 16384, .smfAdd 1]

example : ∀ op ∈ sampleOps, OpOK op := by
  intro op hop
  simp only [sampleOps, List.mem_cons, List.mem_nil_iff, or_false] at hop
  rcases hop with rfl | rfl | rfl | rfl | rfl | rfl
  · refine ⟨by omega, ?_⟩
    intro m hm; simp at hm
    rcases hm with rfl | rfl
    · exact ⟨.chan 0x90 60 (some 64), by simp [Ev.Valid, oneData], trivial, rfl⟩
    · exact ⟨.chan 0x90 62 (some 64), by simp [Ev.Valid, oneData], trivial, rfl⟩
  · refine ⟨by omega, ?_⟩
    intro m hm; simp at hm; subst hm
    exact ⟨.chan 0xC1 5 none, by simp [Ev.Valid, oneData], trivial, rfl⟩
  · trivial
  · refine ⟨by omega, ?_⟩
    intro m hm; simp at hm
    rcases hm with rfl | rfl
    · exact ⟨.metaEv 0x01 [0x41, 0x42], by simp [Ev.Valid], by simp [Ev.notEOT], by simp [Ev.toBytes, Vlq.encode, Vlq.tailLE]⟩
    · exact ⟨.sysex 0xF0 [0x7E, 0xF7], by simp [Ev.Valid], trivial, rfl⟩
  · show (16384 : Nat) < 4294967296; omega
  · trivial

example : countAdds sampleOps = 2 := by decide

example : (match writeTo true (reach 0 (.metric 480) sampleOps) with
    | .ok w => readFrom w == .ok (reach 0 (.metric 480) sampleOps).prepared
    | _ => false) = true := by decide +kernel

end Midi.C01
