import Proofs.ConvertSpec
/-!
# Lemmas about the model of `ConvertToSMF1`: the two loops in closed form
-/
namespace Midi.Convert
open Midi.Smf

/-! ## `GetChannel` against the MIDI definition -/

theorem getChannel_some_iff (m : Msg) (c : Nat) : getChannel m = some c ↔ IsChanMsg m c := by
  constructor
  · intro h
    cases m with
    | nil => simp [getChannel] at h
    | cons b r =>
      simp only [getChannel] at h
      by_cases hb : isChanStatus b = true
      · rw [if_pos hb] at h
        simp only [isChanStatus, Bool.and_eq_true, decide_eq_true_eq] at hb
        exact ⟨b, r, rfl, hb.1, hb.2, by simpa using h.symm⟩
      · rw [if_neg hb] at h; cases h
  · rintro ⟨b, r, rfl, h1, h2, rfl⟩
    have : isChanStatus b = true := by simp [isChanStatus, h1, h2]
    simp [getChannel, this]

theorem getChannel_none_iff (m : Msg) : getChannel m = none ↔ IsNonChan m := by
  constructor
  · intro h c hc
    rw [← getChannel_some_iff, h] at hc; cases hc
  · intro h
    cases hg : getChannel m with
    | none => rfl
    | some c => exact absurd ((getChannel_some_iff m c).1 hg) (h c)

theorem getChannel_lt (m : Msg) (c : Nat) (h : getChannel m = some c) : c < 16 := by
  obtain ⟨b, _, _, _, _, rfl⟩ := (getChannel_some_iff m c).1 h
  omega

theorem getChannel_EOT : getChannel EOT = none := by decide

/-! ## closed tracks -/

theorem isClosed_concat (t : Track) (e : Event) : Track.isClosed (t ++ [e]) = (e.msg == EOT) := by
  simp [Track.isClosed]

theorem add_one (t : Track) (δ : Nat) (m : Msg) (h : t.isClosed = false) :
    t.add δ [m] = t ++ [⟨δ, m⟩] := by
  simp [Track.add, h, addEvents]

/-! ## the first loop -/

/-- absolute ticks of the events of a track, counting from `a` -/
def absList : Nat → Track → List TE
  | _, [] => []
  | a, e :: r => ⟨a + e.delta, e.msg⟩ :: absList (a + e.delta) r

def TE.pair (te : TE) : Nat × Msg := (te.abs, te.msg)

theorem timedFrom_eq (a : Nat) (t : Track) : timedFrom a t = (absList a t).map TE.pair := by
  induction t generalizing a with
  | nil => rfl
  | cons e r ih => simp [timedFrom, absList, ih, TE.pair]

theorem splitLoop_meta (a : Nat) (b : Buckets) (t : Track) :
    (splitLoop a b t).metaEvs = b.metaEvs ++ (absList a t).filter (fun te => getChannel te.msg == none) := by
  induction t generalizing a b with
  | nil => simp [splitLoop, absList]
  | cons e r ih =>
    simp only [splitLoop, absList]
    cases h : getChannel e.msg with
    | none => simp [ih, h]
    | some c => simp [ih, h]

theorem splitLoop_chans (a : Nat) (b : Buckets) (t : Track) (c : Nat) :
    (splitLoop a b t).chans[c]? =
      b.chans[c]?.map (· ++ (absList a t).filter (fun te => getChannel te.msg == some c)) := by
  induction t generalizing a b with
  | nil => simp [splitLoop, absList]
  | cons e r ih =>
    simp only [splitLoop, absList]
    cases h : getChannel e.msg with
    | none =>
      simp only [ih, List.filter_cons, h]
      simp
    | some c' =>
      simp only [ih, List.filter_cons, h, List.getElem?_modify]
      cases b.chans[c]? with
      | none => simp
      | some l =>
        by_cases hc : c' = c
        · subst hc; simp
        · have : (some c' == some c) = false := by simp [hc]
          simp [hc, this]

theorem splitLoop_empty_chans (t : Track) :
    (splitLoop 0 Buckets.empty t).chans =
      (List.range 16).map (fun c => (absList 0 t).filter (fun te => getChannel te.msg == some c)) := by
  apply List.ext_getElem?
  intro c
  rw [splitLoop_chans]
  simp only [Buckets.empty, List.getElem?_replicate, List.getElem?_map]
  by_cases hc : c < 16
  · simp [hc]
  · simp [hc]

/-! ## the re-delta loop -/

/-- closed form of `rebuild` on a track that stays open -/
def deltas : Nat → List TE → Track
  | _, [] => []
  | last, te :: r => ⟨u32sub te.abs last, te.msg⟩ :: deltas te.abs r

def NoEarlyEOT (evs : List TE) : Prop := ∀ te ∈ evs.dropLast, te.msg ≠ EOT

theorem rebuild_eq (t : Track) (last : Nat) (evs : List TE)
    (ht : t.isClosed = false) (h : NoEarlyEOT evs) :
    rebuild t last evs = t ++ deltas last evs := by
  induction evs generalizing t last with
  | nil => simp [rebuild, deltas]
  | cons te r ih =>
    simp only [rebuild, deltas]
    rw [add_one _ _ _ ht]
    cases r with
    | nil => simp [rebuild, deltas]
    | cons te' r' =>
      have hd : (te :: te' :: r').dropLast = te :: (te' :: r').dropLast :=
        List.dropLast_cons_of_ne_nil (by simp)
      have hne : te.msg ≠ EOT := h te (by rw [hd]; simp)
      have hn : NoEarlyEOT (te' :: r') := by
        intro x hx; exact h x (by rw [hd]; exact List.mem_cons_of_mem _ hx)
      rw [ih _ _ (by rw [isClosed_concat]; simpa using hne) hn]
      simp

theorem deltas_msgs (last : Nat) (evs : List TE) :
    (deltas last evs).map (·.msg) = evs.map (·.msg) := by
  induction evs generalizing last with
  | nil => rfl
  | cons te r ih => simp [deltas, ih]

/-- non-decreasing, everything between `lo` and `hi` -/
def Within : Nat → Nat → List TE → Prop
  | _, _, [] => True
  | lo, hi, te :: r => lo ≤ te.abs ∧ te.abs ≤ hi ∧ Within te.abs hi r

theorem Within.mono {lo lo' hi : Nat} {evs : List TE} (h : Within lo hi evs) (hl : lo' ≤ lo) :
    Within lo' hi evs := by
  cases evs with
  | nil => trivial
  | cons te r => exact ⟨Nat.le_trans hl h.1, h.2.1, h.2.2⟩

theorem Within.filter {lo hi : Nat} {evs : List TE} (p : TE → Bool) (h : Within lo hi evs) :
    Within lo hi (evs.filter p) := by
  induction evs generalizing lo with
  | nil => trivial
  | cons te r ih =>
    rw [List.filter_cons]
    split
    · exact ⟨h.1, h.2.1, ih h.2.2⟩
    · exact ih (h.2.2.mono h.1)

theorem totalTicks_cons (e : Event) (r : Track) : totalTicks (e :: r) = e.delta + totalTicks r := by
  simp [totalTicks]

theorem within_absList (a : Nat) (t : Track) : Within a (a + totalTicks t) (absList a t) := by
  induction t generalizing a with
  | nil => trivial
  | cons e r ih =>
    refine ⟨Nat.le_add_right _ _, by show a + e.delta ≤ _; rw [totalTicks_cons]; omega, ?_⟩
    have := ih (a + e.delta)
    rw [totalTicks_cons]
    simpa [Nat.add_assoc] using this

theorem u32sub_of_le (a last : Nat) (h1 : last ≤ a) (h2 : a - last < 4294967296) :
    u32sub a last = a - last := by
  unfold u32sub; omega

theorem timedFrom_deltas (lo hi : Nat) (evs : List TE) (h : Within lo hi evs)
    (hb : hi < lo + 4294967296) :
    timedFrom lo (deltas lo evs) = evs.map TE.pair := by
  induction evs generalizing lo with
  | nil => rfl
  | cons te r ih =>
    obtain ⟨h1, h2, h3⟩ := h
    simp only [deltas, timedFrom, List.map_cons, TE.pair]
    rw [u32sub_of_le _ _ h1 (by omega)]
    have e : lo + (te.abs - lo) = te.abs := by omega
    rw [e, ih te.abs h3 (by omega)]

/-- the same on the events with absolute ticks the model's loops carry -/
def Gaps : Nat → List TE → Prop
  | _, [] => True
  | lo, te :: r => lo ≤ te.abs ∧ te.abs - lo < 4294967296 ∧ Gaps te.abs r

theorem gaps_iff_gapsP (lo : Nat) (evs : List TE) : Gaps lo evs ↔ GapsP lo (evs.map TE.pair) := by
  induction evs generalizing lo with
  | nil => exact Iff.rfl
  | cons te r ih =>
    simp only [Gaps, List.map_cons, GapsP, TE.pair, ih]

theorem gaps_of_within (lo hi : Nat) (evs : List TE) (h : Within lo hi evs) (hb : hi < lo + 4294967296) :
    Gaps lo evs := by
  induction evs generalizing lo with
  | nil => trivial
  | cons te r ih =>
    obtain ⟨h1, h2, h3⟩ := h
    exact ⟨h1, by omega, ih te.abs h3 (by omega)⟩

theorem timedFrom_deltas_gaps (lo : Nat) (evs : List TE) (h : Gaps lo evs) :
    timedFrom lo (deltas lo evs) = evs.map TE.pair := by
  induction evs generalizing lo with
  | nil => rfl
  | cons te r ih =>
    obtain ⟨h1, h2, h3⟩ := h
    simp only [deltas, timedFrom, List.map_cons, TE.pair]
    rw [u32sub_of_le _ _ h1 h2]
    have e : lo + (te.abs - lo) = te.abs := by omega
    rw [e, ih te.abs h3]

/-! ## one result track -/

theorem timedFrom_append (a : Nat) (t u : Track) :
    timedFrom a (t ++ u) = timedFrom a t ++ timedFrom (a + totalTicks t) u := by
  induction t generalizing a with
  | nil => simp [timedFrom, totalTicks]
  | cons e r ih => simp [timedFrom, ih, totalTicks_cons, Nat.add_assoc]

theorem payload_close (t : Track) (δ : Nat) : payload (t.close δ) = payload t := by
  unfold Track.close
  split
  · rfl
  · simp [payload, timed, timedFrom_append, timedFrom, List.filter_append]

/-- the payload of a rebuilt track is the list it was rebuilt from, minus end-of-track -/
theorem payload_mkTrack (evs : List TE) (hg : Gaps 0 evs)
    (hn : NoEarlyEOT evs) :
    payload (mkTrack evs) = (evs.map TE.pair).filter (fun p => p.2 != EOT) := by
  unfold mkTrack
  rw [payload_close, rebuild_eq [] 0 evs rfl hn, List.nil_append]
  simp only [payload, timed]
  rw [timedFrom_deltas_gaps 0 evs hg]

theorem mem_dropLast_filter {α} (p : α → Bool) (l : List α) (x : α)
    (h : x ∈ (l.filter p).dropLast) : x ∈ l.dropLast := by
  rcases List.eq_nil_or_concat l with rfl | ⟨l', z, rfl⟩
  · simp at h
  · rw [List.concat_eq_append] at h ⊢
    rw [List.dropLast_concat]
    rw [List.filter_append] at h
    by_cases hz : p z = true
    · have : List.filter p [z] = [z] := by simp [hz]
      rw [this, List.dropLast_concat] at h
      exact (List.mem_filter.1 h).1
    · have : List.filter p [z] = [] := by simp [hz]
      rw [this, List.append_nil] at h
      exact (List.mem_filter.1 ((List.dropLast_sublist _).subset h)).1

theorem closedOnce_close (t : Track) (δ : Nat) (h : EOTOnlyLast t) : ClosedOnce (t.close δ) := by
  unfold Track.close
  rcases List.eq_nil_or_concat t with rfl | ⟨l, z, rfl⟩
  · exact ⟨[], δ, by simp [Track.isClosed], by simp⟩
  · rw [List.concat_eq_append] at h ⊢
    have hl : ∀ e ∈ l, e.msg ≠ EOT := by
      intro e he; exact h e (by rw [List.dropLast_concat]; exact he)
    rw [isClosed_concat]
    by_cases hz : (z.msg == EOT) = true
    · rw [if_pos hz]
      refine ⟨l, z.delta, ?_, hl⟩
      have : z = ⟨z.delta, EOT⟩ := by
        cases z; simp at hz; simp [hz]
      rw [← this]
    · rw [if_neg hz]
      refine ⟨l ++ [z], δ, rfl, ?_⟩
      intro e he
      rcases List.mem_append.1 he with he | he
      · exact hl e he
      · simp at he; subst he; simpa using hz

theorem eotOnlyLast_deltas (last : Nat) (evs : List TE) (h : NoEarlyEOT evs) :
    EOTOnlyLast (deltas last evs) := by
  intro e he
  have hm : e.msg ∈ ((deltas last evs).map (·.msg)).dropLast := by
    rw [← List.map_dropLast]; exact List.mem_map_of_mem he
  rw [deltas_msgs, ← List.map_dropLast] at hm
  obtain ⟨te, hte, hmsg⟩ := List.mem_map.1 hm
  rw [← hmsg]; exact h te hte

theorem closedOnce_mkTrack (evs : List TE) (hn : NoEarlyEOT evs) : ClosedOnce (mkTrack evs) := by
  unfold mkTrack
  rw [rebuild_eq [] 0 evs rfl hn, List.nil_append]
  exact closedOnce_close _ _ (eotOnlyLast_deltas 0 evs hn)

/-! ## the channel loop -/

theorem chanLoop_eq (dest : File) (ls : List (List TE)) (h : dest.format = 1) :
    chanLoop dest ls =
      { dest with tracks := dest.tracks ++ (ls.filter (fun l => decide (l.length > 0))).map mkTrack } := by
  induction ls generalizing dest with
  | nil => simp [chanLoop]
  | cons l r ih =>
    simp only [chanLoop]
    split
    · rename_i hl
      rw [ih]
      · simp [File.addTrack, h, hl]
      · simp [File.addTrack, h]
    · rename_i hl
      rw [ih _ h]
      simp [hl]

end Midi.Convert
