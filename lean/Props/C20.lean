import Proofs.SequencerProps
/-!
# C20 — sequencer export lays bars end to end and places events on the 32nd-note grid

Model: `MidiModel/Sequencer.lean` (`Song.addBar`, `Bar.len`, `place` = `SetBarAbsTicks`, `toSMF0`, `toSMF1`,
`uint8`/`uint16`/`uint32` conversions explicit, `sort.Sort` a parameter `srt`).
What the text prescribes is defined independently in `Proofs/SequencerSpec.lean` (`len32`, `laid`, `endOf`,
`evSpec`, `sigChanges`, `timeline`); a track is observed through `timeline 0 tr` = (absolute tick, message).

Domain `Dom s` (DESIGN §8): resolution divisible by 8 (0 = 960); every bar `num/den` with `num` 1..24, `den` one
of 1, 2, 4, 8, 16, 32 and at most 255 thirty-seconds; every event inside its bar (`pos < len32`), `uint8` duration,
channel (or sysex) message; every note (note-on with a velocity, duration > 0) ends within the song; the song is
shorter than 2^32 ticks (deltas are `uint32`: a longer song cannot be written with one closing delta).
`SortSpec srt`: `sort.Sort` returns a permutation in non-decreasing tick order — nothing is assumed about the
order of events that share a tick, all statements about such events are multiset (`Perm`) statements.
`ExportsTo srt s tr0 bt g`: both exports succeed, `tr0` = the track of the format-0 file, `bt` = bar track and
`g n` = event track of track number `n` of the format-1 file (ascending track numbers after the bar track).
-/
namespace Midi.C20
open Midi Midi.Smf Midi.Sequencer

/-- No panic on the domain: both exports return a file, in the song's resolution. -/
theorem exports_succeed (s : Song) (srt : List TEv → List TEv) (hd : Dom s) (hs : SortSpec srt) :
    ∃ tr0 bt g, ExportsTo srt s tr0 bt g :=
  exports_ok s srt hd hs

/-- `SetBarAbsTicks`: the first bar starts at 0 and every bar starts where the previous one ends, a bar being
    `num·32/den` thirty-seconds of `t` ticks long — for every sequence of signatures of the domain (the `uint8`
    result of `Bar.Len` is exact there) and every `t`. `placed` = bars with their `AbsTicks`, `last` = `lastTick`. -/
theorem bar_start_succ (t : Nat) (bars : List Bar) (h : ∀ b ∈ bars, SigOK b) :
    ∃ placed last, place t 0 bars = some (placed, last) ∧ placed = laid t 0 bars ∧ last = endOf t 0 bars ∧
      placed.map (·.2) = bars ∧
      (placed.map (·.1) ++ [last])[0]? = some 0 ∧
      ∀ (k : Nat) (b : Bar), bars[k]? = some b →
        ∃ st, (placed.map (·.1) ++ [last])[k]? = some st ∧
          (placed.map (·.1) ++ [last])[k+1]? = some (st + b.num * 32 / b.den * t) := by
  refine ⟨_, _, place_eq t bars 0 h, rfl, rfl, laid_map_snd t bars 0, ?_, ?_⟩
  · rw [bounds_eq]; cases bars <;> simp [bounds]
  · intro k b hk
    rw [bounds_eq]
    exact bounds_succ t bars 0 k b hk

/-- Every event is exported at its bar start plus its position (in thirty-seconds of the resolution): in the
    single track of `ToSMF0` and in the track of its track number of `ToSMF1`. -/
theorem event_tick (s : Song) (srt : List TEv → List TEv) (hd : Dom s) (hs : SortSpec srt)
    (tr0 bt : Track) (g : Nat → Track) (h : ExportsTo srt s tr0 bt g)
    (sb : Nat × Bar) (hsb : sb ∈ laid (tq s) 0 s.bars) (e : Sequencer.Event) (he : e ∈ sb.2.events) :
    (sb.1 + e.pos * tq s, e.msg) ∈ timeline 0 tr0 ∧
    e.trackNo ∈ usedTracks s ∧ (sb.1 + e.pos * tq s, e.msg) ∈ timeline 0 (g e.trackNo) := by
  obtain ⟨h0, _, h1⟩ := exports_exact s srt hd hs tr0 bt g h
  obtain ⟨m1, m2, m3⟩ := spec_mem s sb hsb e he ⟨sb.1 + e.pos * tq s, 0, e.msg, e.trackNo⟩ (by simp [evSpec])
  exact ⟨shape_mem _ _ _ _ h0 _ (List.mem_append.2 (Or.inr m1)), m2, shape_mem _ _ _ _ (h1 _ m2) _ m3⟩

/-- Every note (note-on `9c kk vv` with a velocity, duration > 0) is ended by the note-off `8c kk 00` exactly its
    duration after its start, in both exports. -/
theorem noteoff_tick (s : Song) (srt : List TEv → List TEv) (hd : Dom s) (hs : SortSpec srt)
    (tr0 bt : Track) (g : Nat → Track) (h : ExportsTo srt s tr0 bt g)
    (sb : Nat × Bar) (hsb : sb ∈ laid (tq s) 0 s.bars) (e : Sequencer.Event) (he : e ∈ sb.2.events)
    (ch key vel : Nat) (hm : e.msg = [0x90 + ch, key, vel]) (hch : ch < 16) (hkey : key < 128)
    (hv : 0 < vel) (hv' : vel < 128) (hdur : 0 < e.dur) :
    (sb.1 + (e.pos + e.dur) * tq s, [0x80 + ch, key, 0]) ∈ timeline 0 tr0 ∧
    (sb.1 + (e.pos + e.dur) * tq s, [0x80 + ch, key, 0]) ∈ timeline 0 (g e.trackNo) := by
  obtain ⟨h0, _, h1⟩ := exports_exact s srt hd hs tr0 bt g h
  have hns := noteStart_bytes ch key vel hch hkey hv hv'
  obtain ⟨m1, m2, m3⟩ := spec_mem s sb hsb e he ⟨sb.1 + (e.pos + e.dur) * tq s, 0, noteOffMsg ch key, e.trackNo⟩
    (by simp [evSpec, hm, hns]; omega)
  exact ⟨shape_mem _ _ _ _ h0 _ (List.mem_append.2 (Or.inr m1)), shape_mem _ _ _ _ (h1 _ m2) _ m3⟩

/-- … and nothing else: the channel messages of the `ToSMF0` track are, as a multiset of (tick, message), exactly
    the events and note-offs the text prescribes (`specAll`); those of the `ToSMF1` track of number `n` exactly
    the ones of that track number (`specOn`); the bar track carries none. -/
theorem events_exact (s : Song) (srt : List TEv → List TEv) (hd : Dom s) (hs : SortSpec srt)
    (tr0 bt : Track) (g : Nat → Track) (h : ExportsTo srt s tr0 bt g) :
    ((timeline 0 tr0).filter isEvent).Perm (specAll s) ∧
    (timeline 0 bt).filter isEvent = [] ∧
    ∀ n ∈ usedTracks s, ((timeline 0 (g n)).filter isEvent).Perm (specOn s n) := by
  obtain ⟨h0, hb, h1⟩ := exports_exact s srt hd hs tr0 bt g h
  refine ⟨?_, ?_, ?_⟩
  · have := shape_filter isEvent _ _ _ _ h0 (fun x hx => (hdr0_class s x hx).1) (eot_class _).1
    rw [List.filter_append, filter_none isEvent _ (fun x hx => (specSigs_class s x hx).1),
      filter_all isEvent _ (fun x hx => (specAll_class s hd x hx).1)] at this
    simpa using this
  · have := shape_filter isEvent _ _ _ _ hb (fun x hx => (hdrBars_class s x hx).1) (eot_class _).1
    rw [filter_none isEvent _ (fun x hx => (specSigs_class s x hx).1)] at this
    exact this.eq_nil
  · intro n hn
    have := shape_filter isEvent _ _ _ _ (h1 n hn) (fun x hx => (hdrTrack_class s n x hx).1) (eot_class _).1
    rwa [filter_all isEvent _ (fun x hx => (specAll_class s hd x (specOn_sub s n x hx)).1)] at this

/-- Time-signature events (`FF 58 04 nn log2(dd) 08 08`): the `ToSMF0` track and the bar track of `ToSMF1` carry,
    in this order, exactly one at the start of every bar whose signature differs from the previous bar's (4/4
    before the first bar) — `specSigs s = sigChanges (4,4) (laid …)`; the event tracks carry none. -/
theorem timesig_events (s : Song) (srt : List TEv → List TEv) (hd : Dom s) (hs : SortSpec srt)
    (tr0 bt : Track) (g : Nat → Track) (h : ExportsTo srt s tr0 bt g) :
    (timeline 0 tr0).filter isMeter = specSigs s ∧
    (timeline 0 bt).filter isMeter = specSigs s ∧
    ∀ n ∈ usedTracks s, (timeline 0 (g n)).filter isMeter = [] := by
  obtain ⟨h0, hb, h1⟩ := exports_exact s srt hd hs tr0 bt g h
  refine ⟨?_, ?_, ?_⟩
  · have hp := shape_filter isMeter _ _ _ _ h0 (fun x hx => (hdr0_class s x hx).2.1) (eot_class _).2.1
    rw [List.filter_append, filter_all isMeter _ (fun x hx => (specSigs_class s x hx).2.1),
      filter_none isMeter _ (fun x hx => (specAll_class s hd x hx).2.1), List.append_nil] at hp
    exact perm_strict_eq _ _ hp
      (shape_filter_sorted isMeter _ _ _ _ h0 (fun x hx => (hdr0_class s x hx).2.1) (eot_class _).2.1)
      (specSigs_strict s hd)
  · have hp := shape_filter isMeter _ _ _ _ hb (fun x hx => (hdrBars_class s x hx).2.1) (eot_class _).2.1
    rw [filter_all isMeter _ (fun x hx => (specSigs_class s x hx).2.1)] at hp
    exact perm_strict_eq _ _ hp
      (shape_filter_sorted isMeter _ _ _ _ hb (fun x hx => (hdrBars_class s x hx).2.1) (eot_class _).2.1)
      (specSigs_strict s hd)
  · intro n hn
    have := shape_filter isMeter _ _ _ _ (h1 n hn) (fun x hx => (hdrTrack_class s n x hx).2.1) (eot_class _).2.1
    rw [filter_none isMeter _ (fun x hx => (specAll_class s hd x (specOn_sub s n x hx)).2.1)] at this
    exact this.eq_nil

/-- what `sigChanges` says, bar by bar: no event for a bar that keeps the signature, one at its start otherwise -/
theorem sigChanges_step (prev : Nat × Nat) (st : Nat) (b : Bar) (r : List (Nat × Bar)) :
    sigChanges prev ((st, b) :: r) =
      if (b.num, b.den) = prev then sigChanges prev r
      else (st, [0xFF, 0x58, 4, b.num,
        (if b.den = 1 then 0 else if b.den = 2 then 1 else if b.den = 4 then 2 else if b.den = 8 then 3
         else if b.den = 16 then 4 else 5), 8, 8]) :: sigChanges (b.num, b.den) r := rfl

/-- Every track of both exports is terminated by exactly one end-of-track event, its last event, at the tick
    where the last bar ends. -/
theorem tracks_end_at_last_bar (s : Song) (srt : List TEv → List TEv) (hd : Dom s) (hs : SortSpec srt)
    (tr0 bt : Track) (g : Nat → Track) (h : ExportsTo srt s tr0 bt g) :
    ∀ tr, (tr = tr0 ∨ tr = bt ∨ ∃ n ∈ usedTracks s, tr = g n) →
      (timeline 0 tr).getLast? = some (songEnd s, EOT) ∧ (timeline 0 tr).filter isEOT = [(songEnd s, EOT)] := by
  obtain ⟨h0, hb, h1⟩ := exports_exact s srt hd hs tr0 bt g h
  intro tr htr
  rcases htr with rfl | rfl | ⟨n, hn, rfl⟩
  · refine shape_eot _ _ _ _ h0 (fun x hx => (hdr0_class s x hx).2.2) ?_
    intro x hx
    rcases List.mem_append.1 hx with hx | hx
    · exact (specSigs_class s x hx).2.2
    · exact (specAll_class s hd x hx).2.2
  · exact shape_eot _ _ _ _ hb (fun x hx => (hdrBars_class s x hx).2.2) (fun x hx => (specSigs_class s x hx).2.2)
  · exact shape_eot _ _ _ _ (h1 n hn) (fun x hx => (hdrTrack_class s n x hx).2.2)
      (fun x hx => (specAll_class s hd x (specOn_sub s n x hx)).2.2)

/-- The single-track and the multi-track export contain the same multiset of (tick, channel message) and of
    (tick, time signature). -/
theorem smf0_smf1_same (s : Song) (srt : List TEv → List TEv) (hd : Dom s) (hs : SortSpec srt)
    (tr0 bt : Track) (g : Nat → Track) (h : ExportsTo srt s tr0 bt g) :
    ((timeline 0 tr0).filter isEvent).Perm (((bt :: (usedTracks s).map g).flatMap (timeline 0)).filter isEvent) ∧
    ((timeline 0 tr0).filter isMeter).Perm (((bt :: (usedTracks s).map g).flatMap (timeline 0)).filter isMeter) := by
  obtain ⟨e1, e2, e3⟩ := events_exact s srt hd hs tr0 bt g h
  obtain ⟨m1, m2, m3⟩ := timesig_events s srt hd hs tr0 bt g h
  simp only [List.flatMap_cons, List.filter_append, List.flatMap_map, List.filter_flatMap]
  constructor
  · rw [e2, List.nil_append]
    refine e1.trans ((specOn_partition s).symm.trans ?_)
    exact (flatMap_perm _ _ _ (fun n hn => e3 n hn)).symm
  · rw [m1, m2]
    have : (usedTracks s).flatMap (fun n => (timeline 0 (g n)).filter isMeter) = [] := by
      rw [flatMap_congr' _ (fun _ => []) _ (fun n hn => m3 n hn)]
      simp
    rw [this, List.append_nil]

/-- Songs are built with `AddBar`: a bar given without signature takes the previous one, 4/4 at the beginning;
    whatever sequence of "no signature" and domain signatures is added, all bars of the song have a signature of
    the domain (so `Dom.sigs` is met by every such history) and the events are untouched. -/
theorem addBar_default (q : Nat) (ti co : Bytes) (tn : List Bytes) (bs : List Bar)
    (h : ∀ b ∈ bs, InputSigOK b) :
    (∀ b ∈ (build q ti co tn bs).bars, SigOK b) ∧
    (∀ ev, (build q ti co tn (⟨0, 0, ev⟩ :: bs)).bars.head? =
      (build q ti co tn (⟨4, 4, ev⟩ :: bs)).bars.head?) := by
  refine ⟨foldl_addBar_sigs bs _ (by simp) h, ?_⟩
  intro ev
  simp [build, Song.addBar]

/-! ## Non-vacuity: a concrete song of the domain (two bars of 12/8, one of 3/4, two tracks, a note that ends
    with the song), and the executable model on it. -/

def sample : Song :=
  ⟨480, [0x41], [], [],
   [⟨12, 8, [⟨0, 2, 4, [0x90, 60, 64]⟩, ⟨3, 47, 1, [0xB0, 7, 100]⟩]⟩, ⟨12, 8, []⟩,
    ⟨3, 4, [⟨0, 23, 1, [0x91, 62, 1]⟩]⟩]⟩

private theorem sample_dom : Dom sample := by
  refine ⟨by decide, ?_, ?_, ?_, by decide⟩
  · intro b hb
    simp only [sample, List.mem_cons, List.mem_nil_iff, or_false] at hb
    rcases hb with rfl | rfl | rfl <;> simp [SigOK]
  · intro b hb e he
    simp only [sample, List.mem_cons, List.mem_nil_iff, or_false] at hb
    rcases hb with rfl | rfl | rfl
    · simp only [List.mem_cons, List.mem_nil_iff, or_false] at he
      rcases he with rfl | rfl
      · exact ⟨by decide, by decide, 0x90, [60, 64], rfl, Or.inl rfl⟩
      · exact ⟨by decide, by decide, 0xB0, [7, 100], rfl, Or.inl rfl⟩
    · simp at he
    · simp only [List.mem_cons, List.mem_nil_iff, or_false] at he
      subst he
      exact ⟨by decide, by decide, 0x91, [62, 1], rfl, Or.inl rfl⟩
  · intro sb hsb e he _
    simp only [sample, laid, tq, len32, List.mem_cons, List.mem_nil_iff, or_false] at hsb
    rcases hsb with rfl | rfl | rfl
    · simp only [List.mem_cons, List.mem_nil_iff, or_false] at he
      rcases he with rfl | rfl <;> decide
    · simp at he
    · simp only [List.mem_cons, List.mem_nil_iff, or_false] at he
      subst he
      decide

example : SortSpec tickSort := tickSort_spec

example : songEnd sample = 7200 ∧ (laid (tq sample) 0 sample.bars).map (·.1) = [0, 2880, 5760] := by decide

/-- the theorems at the sample: the note of bar 0 (position 2, duration 4, 60 ticks per thirty-second) sounds from
    tick 120 to tick 360 in both exports, the 3/4 signature is announced at tick 5760, every track ends at 7200 -/
example (tr0 bt : Track) (g : Nat → Track) (h : ExportsTo tickSort sample tr0 bt g) :
    (120, [0x90, 60, 64]) ∈ timeline 0 tr0 ∧ (360, [0x80, 60, 0]) ∈ timeline 0 (g 0) ∧
    (timeline 0 bt).filter isMeter = [(0, [0xFF, 0x58, 4, 12, 3, 8, 8]), (5760, [0xFF, 0x58, 4, 3, 2, 8, 8])] ∧
    (timeline 0 tr0).getLast? = some (7200, [0xFF, 0x2F, 0]) := by
  have hsb : ((0, ⟨12, 8, [⟨0, 2, 4, [0x90, 60, 64]⟩, ⟨3, 47, 1, [0xB0, 7, 100]⟩]⟩) : Nat × Bar) ∈
      laid (tq sample) 0 sample.bars := by simp [sample, laid]
  have h1 := event_tick sample tickSort sample_dom tickSort_spec tr0 bt g h _ hsb ⟨0, 2, 4, [0x90, 60, 64]⟩ (by simp)
  have h2 := noteoff_tick sample tickSort sample_dom tickSort_spec tr0 bt g h _ hsb ⟨0, 2, 4, [0x90, 60, 64]⟩ (by simp)
    0 60 64 rfl (by omega) (by omega) (by omega) (by omega) (by decide)
  have h3 := (timesig_events sample tickSort sample_dom tickSort_spec tr0 bt g h).2.1
  have h4 := (tracks_end_at_last_bar sample tickSort sample_dom tickSort_spec tr0 bt g h tr0 (Or.inl rfl)).1
  refine ⟨by simpa [tq, sample] using h1.1, by simpa [tq, sample] using h2.2, ?_, ?_⟩
  · rw [h3]; decide
  · rw [h4]; decide

end Midi.C20
