package main

import (
	"bufio"
	"bytes"
	"encoding/hex"
	"fmt"
	"io"
	"strconv"
	"strings"

	"gitlab.com/gomidi/midi/v2/drivers/midicat"
)

// C19: the midicat text line protocol is lossless and self-framing.
//
// Ops
//   midicat.stream k=<kind> d=<hex of the stream> f=<piece sizes, a or a*n, or -> e=<0|1>
//       the stream is served by a fragmenting io.Reader (pieces f, a 0 piece = Read returning (0,nil),
//       e=1: the last byte comes together with io.EOF); ReadAndConvert is called until the reader has
//       reported EOF. Observables per call: ok/err class, time stamp, bytes, bytes left in the reader.
//   midicat.enc ts=<int32> m=<hex>     the encoder side: fmt.Fprintf(wr, "%d %X\n", ts, m)
//
// Property oracle (independent of the Lean model, computed from d alone): cut d at '\n'; a line is
// *strictly valid* iff it is -?[0-9]+ ' ' ([0-9A-F]{2})+ with an int32 time stamp. Then
//   A  every record the implementation returns was produced by a call that consumed exactly one whole
//      line, and is that strictly valid line's record (so: a malformed line never yields a record, no
//      record is made up from neighbouring lines, one record per call);
//   B  every strictly valid line is returned (lossless; later records intact after a malformed line);
//   C  no call panics; the last call reports the end of the stream as an error.
// This holds for every source, including readers that return (0,nil) or the last byte together with io.EOF
// (kind suffix "+src"). Garbage streams (kind garbage) are judged by the same oracle: a record may only
// come from exactly one whole line of the grammar (the reader also accepts lower-case hex and a leading '+',
// see strictLine).

type fragReader struct {
	data    []byte
	frags   []int
	eofData bool
	sawEOF  bool
}

func (f *fragReader) Read(p []byte) (int, error) {
	if len(f.data) == 0 {
		f.sawEOF = true // (0, io.EOF): the end of the stream proper
		return 0, io.EOF
	}
	n := len(p)
	if len(f.frags) > 0 {
		if f.frags[0] == 0 {
			f.frags = f.frags[1:]
			return 0, nil
		}
		if f.frags[0] < n {
			n = f.frags[0]
		}
	}
	if len(f.data) < n {
		n = len(f.data)
	}
	copy(p, f.data[:n])
	f.data = f.data[n:]
	if len(f.frags) > 0 {
		f.frags[0] -= n
		if f.frags[0] == 0 {
			f.frags = f.frags[1:]
		}
	}
	if f.eofData && len(f.data) == 0 && n > 0 {
		return n, io.EOF
	}
	return n, nil
}

type c19rec struct {
	ts int32
	bs []byte
}

type c19call struct {
	ok  bool
	ts  int32
	bs  []byte
	rem int
}

func (c c19call) String() string {
	if c.ok {
		return fmt.Sprintf("ok:%d:%s:%d", c.ts, hx(c.bs), c.rem)
	}
	return fmt.Sprintf("err:%d", c.rem)
}

func c19line(ts int32, bs []byte) []byte {
	var b bytes.Buffer
	fmt.Fprintf(&b, "%d %X\n", ts, bs) // the driver's own format (midicatdrv/out.go, Facts.midicatFormats)
	return b.Bytes()
}

func fragsString(fr []int) string {
	if len(fr) == 0 {
		return "-"
	}
	var sb strings.Builder
	for i := 0; i < len(fr); {
		j := i
		for j < len(fr) && fr[j] == fr[i] {
			j++
		}
		if sb.Len() > 0 {
			sb.WriteByte(',')
		}
		if j-i > 1 {
			fmt.Fprintf(&sb, "%d*%d", fr[i], j-i)
		} else {
			fmt.Fprintf(&sb, "%d", fr[i])
		}
		i = j
	}
	return sb.String()
}

func parseFragsOp(s string) []int {
	if s == "-" || s == "" {
		return nil
	}
	var out []int
	for _, it := range strings.Split(s, ",") {
		a, n := it, 1
		if i := strings.IndexByte(it, '*'); i >= 0 {
			a = it[:i]
			n, _ = strconv.Atoi(it[i+1:])
		}
		v, err := strconv.Atoi(a)
		if err != nil {
			panic("bad frags in op")
		}
		for k := 0; k < n; k++ {
			out = append(out, v)
		}
	}
	return out
}

func c19ts(r *Rng) int32 {
	switch r.Intn(10) {
	case 0:
		return int32(r.Pick(0, 1, -1, 9, 10, -9, -10, 99, 100, -99, -100, 2147483647, -2147483648, 2147483646, -2147483647,
			999999999, 1000000000, -999999999, -1000000000, 65535, 65536, 127, 128, 255, 256))
	case 1:
		p := 1
		for i := r.Intn(10); i > 0; i-- {
			p *= 10
		}
		v := p - r.Intn(2)
		if r.Bool() {
			v = -v
		}
		return int32(v)
	case 2, 3, 4:
		return int32(uint32(r.U64()))
	case 5:
		return int32(-r.Intn(100000))
	default:
		return int32(r.Intn(100000))
	}
}

func c19msg(r *Rng, big bool) []byte {
	var n int
	switch x := r.Intn(20); {
	case big && x < 10: // the upper end of the property's range and the sizes around it
		n = r.Pick(2000, 2000, 1999, 1998, 1024, 1000, r.Range(301, 2000))
	case x < 11:
		n = r.Range(1, 3)
	case x < 15:
		n = r.Range(4, 64)
	default:
		n = r.Range(65, 300)
	}
	b := make([]byte, n)
	switch r.Intn(8) {
	case 0: // bytes whose hex or value collides with the framing characters / leading zero nibbles
		for i := range b {
			b[i] = byte(r.Pick(0x0A, 0x20, 0x00, 0x0D, 0x09, 0x0F, 0xA0, 0x02, 0xD0, 0x2D, 0x2B))
		}
	case 1:
		for i := range b {
			b[i] = byte(r.Intn(16)) // leading zero nibble everywhere
		}
	case 2: // a plausible MIDI message
		b[0] = byte(0x80 + r.Intn(0x80))
		for i := 1; i < n; i++ {
			b[i] = byte(r.Intn(128))
		}
	default:
		copy(b, r.Bytes(n))
	}
	return b
}

func c19frags(r *Rng, total int, nonstd *bool) ([]int, bool) {
	switch r.Intn(8) {
	case 0, 1:
		return nil, false
	case 2, 3: // one byte per Read
		fr := make([]int, total)
		for i := range fr {
			fr[i] = 1
		}
		return fr, false
	case 4, 5: // random pieces
		var fr []int
		for left := total; left > 0; {
			k := r.Range(1, 9)
			if r.Chance(1, 6) {
				k = r.Range(1, 700)
			}
			fr = append(fr, k)
			left -= k
		}
		return fr, false
	case 6: // a single cut
		if total < 2 {
			return nil, false
		}
		return []int{r.Range(1, total-1)}, false
	default: // outside the io.Reader good-practice: zero reads and/or EOF together with data
		var fr []int
		long := r.Chance(1, 4) // somewhere the source returns (0, nil) a few hundred times in a row before it goes on
		for left := total; left > 0; {
			k := r.Range(0, 6)
			fr = append(fr, k)
			left -= k
			if long && r.Chance(1, 8) {
				for z := r.Pick(99, 100, 101, 128, 256, 300, 1000); z > 0; z-- {
					fr = append(fr, 0)
				}
				long = r.Chance(1, 3)
			}
		}
		*nonstd = true
		return fr, r.Bool()
	}
}

// c19anyNonHex: every byte that is neither a hex digit (either case) nor the line terminator
var c19anyNonHex = func() []byte {
	var out []byte
	for b := 0; b < 256; b++ {
		c := byte(b)
		if c >= '0' && c <= '9' || c >= 'A' && c <= 'F' || c >= 'a' && c <= 'f' || c == '\n' {
			continue
		}
		out = append(out, c)
	}
	return out
}()

var c19nonhex = []byte{' ', 'g', 'G', 'x', 'X', 'O', 'l', '-', '+', '_', '.', ':', '/', '@', '`', '\t', '\r', 0x0B, 0x0C, 0x00, 0x7F, 0x80, 0xC2, 0xA0, 0xE2, 0xFF, '%', '"'}

func init() {
	register(&Prop{
		ID: "C19",
		Rule: "streams of 0..8 records (time stamps over int32 with boundaries, messages 1..2000 bytes, framing-like contents) in the driver's " +
			"\"%d %X\\n\" format, served by a fragmenting reader (whole, 1 byte per Read, random pieces, single cut; +src: zero reads / EOF with data); " +
			"one line mutated by odd hex length, non-hex character, missing separator or missing terminator; garbage streams over a biased alphabet " +
			"for the modelled Sscanf branches; encoder ops. non-trivial = the stream contains at least one line; distinct by op text",
		Gen: genC19,
		Run: runC19,
	})
	factWriters = append(factWriters, c19Facts)
}

// c19Facts dumps what the compiled fmt package does on the finite tables the proofs lean on:
// %X of every byte and the set of single bytes encoding/hex accepts as hex digits.
func c19Facts(w io.Writer) {
	io.WriteString(w, "/-- `fmt.Sprintf(\"%X\", []byte{b})` for b = 0..255 (C19) -/\ndef midicatHexUp : List (List Nat) := [")
	for b := 0; b < 256; b++ {
		s := fmt.Sprintf("%X", []byte{byte(b)})
		if b > 0 {
			fmt.Fprint(w, ", ")
		}
		fmt.Fprint(w, "[")
		for i := 0; i < len(s); i++ {
			if i > 0 {
				fmt.Fprint(w, ", ")
			}
			fmt.Fprint(w, int(s[i]))
		}
		fmt.Fprint(w, "]")
	}
	fmt.Fprintln(w, "]")
	io.WriteString(w, "/-- for c = 0..255: the nibble value `hex.Decode(out, []byte{c,c})` yields, 16 = not a hex digit (C19) -/\ndef midicatHexVal : List Nat := [")
	for c := 0; c < 256; c++ {
		out := make([]byte, 1)
		n, err := hex.Decode(out, []byte{byte(c), byte(c)})
		v := 16
		if err == nil && n == 1 {
			v = int(out[0] & 15)
		}
		if c > 0 {
			fmt.Fprint(w, ", ")
		}
		fmt.Fprint(w, v)
	}
	fmt.Fprintln(w, "]")
}

func genC19(r *Rng, tier string, emit func(Case)) {
	nValid, nMut, nGarb, nEnc := 700, 3000, 900, 150
	bigEvery := 50 // every bigEvery-th stream may carry a message at the upper end of the range (the model reader is quadratic in the line length)
	if tier == "thorough" {
		nValid, nMut, nGarb, nEnc = 25000, 50000, 40000, 3000
		bigEvery = 40
	}
	mk := func(kind string, data []byte, fr []int, e bool) string {
		eb := 0
		if e {
			eb = 1
		}
		return fmt.Sprintf("midicat.stream k=%s d=%s f=%s e=%d", kind, hx(data), fragsString(fr), eb)
	}
	genRecs := func(i int, min int) []c19rec {
		n := r.Range(min, 8)
		if r.Chance(1, 10) {
			n = r.Range(min, 3)
		}
		recs := make([]c19rec, n)
		for j := range recs {
			recs[j] = c19rec{c19ts(r), c19msg(r, i%bigEvery == 0 && j == 0)}
		}
		return recs
	}
	sizeTag := func(recs []c19rec) string {
		m := 0
		for _, x := range recs {
			if len(x.bs) > m {
				m = len(x.bs)
			}
		}
		switch {
		case m == 0:
			return "maxlen:0"
		case m <= 3:
			return "maxlen:1-3"
		case m <= 64:
			return "maxlen:4-64"
		case m <= 300:
			return "maxlen:65-300"
		default:
			return "maxlen:301-2000"
		}
	}
	fragTag := func(fr []int, total int) string {
		if len(fr) == 0 {
			return "frag:whole"
		}
		if len(fr) == total && fr[0] == 1 && fr[len(fr)-1] == 1 {
			return "frag:1-byte"
		}
		return "frag:pieces"
	}
	// 1. valid streams
	for i := 0; i < nValid; i++ {
		recs := genRecs(i, 0)
		var data []byte
		for _, x := range recs {
			data = append(data, c19line(x.ts, x.bs)...)
		}
		nonstd := false
		fr, e := c19frags(r, len(data), &nonstd)
		kind := "valid"
		if nonstd {
			kind += "+src"
		}
		tags := []string{"kind:" + kind, sizeTag(recs), fragTag(fr, len(data)), fmt.Sprintf("records:%d", len(recs))}
		for _, x := range recs {
			if x.ts < 0 {
				tags = append(tags, "ts:negative")
				break
			}
		}
		for _, x := range recs {
			if x.ts == 2147483647 || x.ts == -2147483648 {
				tags = append(tags, "ts:int32-bound")
				break
			}
		}
		emit(Case{Op: mk(kind, data, fr, e), Tags: tags, NonTrivial: len(recs) > 0})
	}
	// 2. one mutated line
	for i := 0; i < nMut; i++ {
		recs := genRecs(i, 1)
		k := r.Intn(len(recs))
		lines := make([][]byte, len(recs))
		for j, x := range recs {
			lines[j] = c19line(x.ts, x.bs)
		}
		l := lines[k]
		sp := bytes.IndexByte(l, ' ')
		hexLen := len(l) - sp - 2
		kind := ""
		switch i % 4 {
		case 0: // odd hex length: delete or insert one hex digit
			p := sp + 1 + r.Intn(hexLen)
			if r.Bool() {
				l = append(append([]byte{}, l[:p]...), l[p+1:]...)
			} else {
				l = append(append(append([]byte{}, l[:p]...), "0123456789ABCDEF"[r.Intn(16)]), l[p:]...)
			}
			kind = "oddhex"
		case 1: // one hex digit replaced by a non-hex byte
			off := r.Intn(hexLen)
			switch r.Intn(6) {
			case 0:
				off = 0
			case 1:
				off = hexLen - 1
			case 2:
				off = hexLen - 2
			}
			l = append([]byte{}, l...)
			l[sp+1+off] = c19nonhex[r.Intn(len(c19nonhex))]
			if i/4 < 3*len(c19anyNonHex) {
				// the first rounds walk through every non-hex byte value (three positions each)
				l[sp+1+off] = c19anyNonHex[(i/4)%len(c19anyNonHex)]
			} else if r.Bool() {
				l[sp+1+off] = c19anyNonHex[r.Intn(len(c19anyNonHex))]
			}
			if l[sp+1+off] == ' ' {
				kind = "nonhex-blank"
			} else if off >= 2 && off%2 == 0 {
				kind = "nonhex-even"
			} else if off == 0 {
				kind = "nonhex-first"
			} else {
				kind = "nonhex-odd"
			}
		case 2: // separator missing
			l = append(append([]byte{}, l[:sp]...), l[sp+1:]...)
			kind = "nosep"
		case 3: // terminator missing
			if r.Chance(2, 3) {
				k = len(recs) - 1
				l = lines[k]
				kind = "noterm-end"
			} else if k == len(recs)-1 {
				kind = "noterm-end"
			} else {
				kind = "noterm-mid"
			}
			l = append([]byte{}, l[:len(l)-1]...)
		}
		lines[k] = l
		data := bytes.Join(lines, nil)
		nonstd := false
		fr, e := c19frags(r, len(data), &nonstd)
		if nonstd {
			kind += "+src"
		}
		tags := []string{"kind:" + kind, sizeTag(recs), fragTag(fr, len(data)), fmt.Sprintf("mutated-line:%s", map[bool]string{true: "last", false: "inner"}[k == len(recs)-1])}
		emit(Case{Op: mk(kind, data, fr, e), Tags: tags, NonTrivial: true})
	}
	// 3. garbage over a biased alphabet (every modelled Sscanf branch)
	alpha := []byte("0123456789ABCDEFabcdef  \n\n\t\r+-_xg.\x0b\x0c\x00\x7f")
	uni := [][]byte{{0xC2, 0x85}, {0xC2, 0xA0}, {0xE1, 0x9A, 0x80}, {0xE2, 0x80, 0x80}, {0xE2, 0x80, 0x8A}, {0xE2, 0x80, 0x8B}, {0xE2, 0x80, 0xA8},
		{0xE2, 0x80, 0xA9}, {0xE2, 0x80, 0xAF}, {0xE2, 0x81, 0x9F}, {0xE3, 0x80, 0x80}, {0xE2, 0x80}, {0xC2}, {0xE2, 0x80, 0x7F}, {0xE3, 0x80, 0x81}, {0xC2, 0x86}, {0xEF, 0xBB, 0xBF}}
	for i := 0; i < nGarb; i++ {
		var data []byte
		nl := r.Range(1, 5)
		for j := 0; j < nl; j++ {
			switch r.Intn(7) {
			case 0: // a valid line
				data = append(data, c19line(c19ts(r), r.Bytes(1+r.Intn(3)))...)
				continue
			case 1, 2: // <spaces><sign><digits><junk> ' ' <spaces><hex><junk> '\n'
				ws := func() {
					for r.Chance(1, 3) {
						if r.Bool() {
							data = append(data, uni[r.Intn(len(uni))]...)
						} else {
							data = append(data, byte(r.Pick('\t', '\r', 0x0b, 0x0c)))
						}
					}
				}
				ws()
				if r.Chance(1, 2) {
					data = append(data, byte(r.Pick('+', '-', '-', '+', '_')))
				}
				switch r.Intn(5) {
				case 0:
					data = append(data, []byte(r.PickStr("2147483647", "2147483648", "-2147483648", "2147483649", "9223372036854775807", "9223372036854775808",
						"99999999999999999999999", "4294967296", "0000000000000000000000012", "0", "00", ""))...)
				default:
					for n := r.Intn(12); n > 0; n-- {
						data = append(data, byte('0'+r.Intn(10)))
					}
				}
				if r.Chance(1, 4) {
					data = append(data, alpha[r.Intn(len(alpha)-6)+0])
				}
				if r.Chance(9, 10) {
					data = append(data, ' ')
				}
				ws()
				for n := r.Intn(9); n > 0; n-- {
					data = append(data, "0123456789ABCDEFabcdef"[r.Intn(22)])
				}
				if r.Chance(1, 3) {
					if r.Bool() {
						data = append(data, uni[r.Intn(len(uni))]...)
					} else {
						data = append(data, alpha[r.Intn(len(alpha))])
					}
					for n := r.Intn(4); n > 0; n-- {
						data = append(data, "0123456789ABCDEFabcdef"[r.Intn(22)])
					}
				}
				if r.Chance(9, 10) {
					data = append(data, '\n')
				}
			default:
				for n := r.Intn(14); n > 0; n-- {
					switch r.Intn(12) {
					case 0:
						data = append(data, r.Byte())
					case 1:
						data = append(data, uni[r.Intn(len(uni))]...)
					default:
						data = append(data, alpha[r.Intn(len(alpha))])
					}
				}
				if r.Chance(2, 3) {
					data = append(data, '\n')
				}
			}
		}
		nonstd := false
		fr, e := c19frags(r, len(data), &nonstd)
		emit(Case{Op: mk("garbage", data, fr, e), Tags: []string{"kind:garbage"}, NonTrivial: len(data) > 0})
	}
	// 4. encoder
	for i := 0; i < nEnc; i++ {
		m := c19msg(r, i%bigEvery == 0)
		if r.Chance(1, 20) {
			m = nil
		}
		emit(Case{Op: fmt.Sprintf("midicat.enc ts=%d m=%s", c19ts(r), hx(m)), Tags: []string{"kind:enc"}, NonTrivial: true})
	}
}

// PickStr returns one of the strings.
func (r *Rng) PickStr(xs ...string) string { return xs[r.Intn(len(xs))] }

// strictLine: [+-]?[0-9]+ ' ' ([0-9A-Fa-f]{2})+ with an int32 time stamp (line without its '\n');
// canon = the line is in the encoder's form (no '+', no lower-case hex digit).
func strictLine(l []byte) (rec c19rec, ok bool, canon bool) {
	sp := bytes.IndexByte(l, ' ')
	if sp < 1 {
		return
	}
	canon = true
	t := l[:sp]
	d := t
	if d[0] == '-' {
		d = d[1:]
	} else if d[0] == '+' {
		d = d[1:]
		canon = false
	}
	if len(d) == 0 {
		return
	}
	var v int64
	for _, c := range d {
		if c < '0' || c > '9' {
			return
		}
		if v < 1<<40 {
			v = v*10 + int64(c-'0')
		}
	}
	if t[0] == '-' {
		v = -v
	}
	if v < -2147483648 || v > 2147483647 {
		return
	}
	h := l[sp+1:]
	if len(h) == 0 || len(h)%2 != 0 {
		return
	}
	nib := func(c byte) int {
		switch {
		case c >= '0' && c <= '9':
			return int(c - '0')
		case c >= 'A' && c <= 'F':
			return int(c-'A') + 10
		case c >= 'a' && c <= 'f':
			canon = false
			return int(c-'a') + 10
		}
		return -1
	}
	out := make([]byte, len(h)/2)
	for i := range out {
		a, b := nib(h[2*i]), nib(h[2*i+1])
		if a < 0 || b < 0 {
			return
		}
		out[i] = byte(a<<4 | b)
	}
	return c19rec{int32(v), out}, true, true && canon
}

func runC19(c Case, m *Model) (v Verdict) {
	toks := strings.Fields(c.Op)
	f := fields(strings.Join(toks[1:], " "))
	if toks[0] == "midicat.enc" {
		ts, _ := strconv.ParseInt(f["ts"], 10, 32)
		msg := unhx(f["m"])
		impl := hx(c19line(int32(ts), msg))
		mf := fields(m.Ask(c.Op))
		if mf["l"] != impl {
			v.Mismatch = append(v.Mismatch, "encoder: model "+short(mf["l"])+" impl "+short(impl))
		}
		// oracle: the line is `decimal SP upper-hex LF` (computed without fmt's %d / %X)
		want := []byte(strconv.FormatInt(ts, 10) + " ")
		for _, b := range msg {
			want = append(want, "0123456789ABCDEF"[b>>4], "0123456789ABCDEF"[b&15])
		}
		want = append(want, '\n')
		if hx(want) != impl {
			v.Oracle = append(v.Oracle, "encoder output is not `<decimal> <upper-case hex>\\n`: "+short(impl))
		}
		return
	}
	if toks[0] != "midicat.stream" {
		v.Mismatch = append(v.Mismatch, "unknown op")
		return
	}
	kind := f["k"]
	data := unhx(f["d"])
	fr := parseFragsOp(f["f"])
	rd := &fragReader{data: append([]byte{}, data...), frags: append([]int{}, fr...), eofData: f["e"] == "1"}
	total := len(data)
	// implementation
	var calls []c19call
	maxCalls := total + len(fr) + 3
	for n := 0; n < maxCalls && !rd.sawEOF; n++ {
		var out []byte
		var ts int32
		var err error
		if p := try(func() { out, ts, err = midicat.ReadAndConvert(rd) }); p != "" {
			v.Oracle = append(v.Oracle, fmt.Sprintf("call %d panicked: %s", n, p))
			return
		}
		calls = append(calls, c19call{ok: err == nil, ts: ts, bs: out, rem: len(rd.data)})
	}
	if !rd.sawEOF {
		v.Oracle = append(v.Oracle, fmt.Sprintf("%d calls did not reach the end of a stream of %d bytes", maxCalls, total))
		return
	}
	// the same stream through sources of other kinds (a *bufio.Reader over the same fragmentation, bytes.Reader,
	// bytes.Buffer, strings.Reader): call by call the same records and errors
	if len(c.Op)%2 == 0 {
		alts := []struct {
			name string
			rd   io.Reader
		}{
			{"*bufio.Reader", bufio.NewReaderSize(&fragReader{data: append([]byte{}, data...), frags: append([]int{}, fr...), eofData: f["e"] == "1"}, 16)},
			{"*bufio.Reader(4096)", bufio.NewReader(bytes.NewReader(data))},
			{"*bytes.Reader", bytes.NewReader(data)},
			{"*bytes.Buffer", bytes.NewBuffer(append([]byte{}, data...))},
			{"*strings.Reader", strings.NewReader(string(data))},
		}
		for _, a := range alts {
			bad := ""
			for n := 0; n < len(calls) && bad == ""; n++ {
				var out []byte
				var ts int32
				var err error
				if p := try(func() { out, ts, err = midicat.ReadAndConvert(a.rd) }); p != "" {
					bad = fmt.Sprintf("call %d panicked: %s", n, p)
					break
				}
				w := calls[n]
				if (err == nil) != w.ok || (w.ok && (ts != w.ts || string(out) != string(w.bs))) {
					bad = fmt.Sprintf("call %d returns ok=%v ts=%d % X, through the fragmenting reader ok=%v ts=%d % X", n, err == nil, ts, out, w.ok, w.ts, w.bs)
				}
			}
			if bad != "" {
				v.Oracle = append(v.Oracle, "the same stream read through a "+a.name+": "+bad)
				break
			}
		}
		v.Tags = append(v.Tags, "other-reader-kinds")
	}
	// model
	mf := fields(m.Ask(c.Op))
	var mcalls []string
	if mf["rs"] != "" {
		for _, it := range strings.Split(mf["rs"], ";") {
			p := strings.Split(it, ":")
			if p[0] == "err" && len(p) == 3 {
				v.Tags = append(v.Tags, "model-err:"+p[1])
				it = "err:" + p[2]
			}
			mcalls = append(mcalls, it)
		}
	}
	if len(mcalls) != len(calls) {
		v.Mismatch = append(v.Mismatch, fmt.Sprintf("number of calls up to end of stream: model %d (%s) impl %d", len(mcalls), short(mf["_"]+mf["rs"]), len(calls)))
	}
	for i := 0; i < len(calls) && i < len(mcalls); i++ {
		if calls[i].String() != mcalls[i] {
			v.Mismatch = append(v.Mismatch, fmt.Sprintf("call %d: model %s impl %s", i, short(mcalls[i]), short(calls[i].String())))
			break
		}
	}
	// property oracle
	if len(calls) == 0 || calls[len(calls)-1].ok {
		v.Oracle = append(v.Oracle, "the end of the stream was not reported as an error")
	}
	// line table
	type lineInfo struct {
		start, end int // end = index just after '\n'
		rec        c19rec
		strict     bool // a line of the reader's grammar: [+-]?[0-9]+ ' ' ([0-9A-Fa-f]{2})+, int32
		upper      bool // ... and in the encoder's form (no '+', upper-case hex): must be returned
		seen       bool
	}
	var lines []lineInfo
	byStart := map[int]int{}
	byEnd := map[int]int{}
	for pos := 0; pos < total; {
		e := bytes.IndexByte(data[pos:], '\n')
		if e < 0 {
			break
		}
		li := lineInfo{start: pos, end: pos + e + 1}
		li.rec, li.strict, li.upper = strictLine(data[pos : pos+e])
		byStart[pos] = len(lines)
		byEnd[li.end] = len(lines)
		lines = append(lines, li)
		pos += e + 1
	}
	pos := 0
	nOK := 0
	for i, cl := range calls {
		start := pos
		pos = total - cl.rem
		if !cl.ok {
			continue
		}
		nOK++
		li, isStart := byStart[start]
		if !isStart && strings.HasPrefix(kind, "garbage") {
			// outside the four mutation kinds (DESIGN §8: more than one blank in a line): after an error reported at a
			// blank the rest of that line is still in the stream and is read as a line of its own. Tolerated only
			// for garbage streams, only if the call ends at the line end and the rest is itself a line of the grammar.
			if k, ok := byEnd[pos]; ok && start > lines[k].start {
				if rec, ok2, _ := strictLine(data[start : pos-1]); ok2 && rec.ts == cl.ts && bytes.Equal(rec.bs, cl.bs) {
					v.Tags = append(v.Tags, "garbage:record-from-rest-of-line-after-error")
					continue
				}
			}
		}
		if !isStart || lines[li].end != pos {
			v.Oracle = append(v.Oracle, fmt.Sprintf("call %d returned a record (%d, %s) after consuming stream bytes [%d,%d), which is not exactly one line", i, cl.ts, short(hx(cl.bs)), start, pos))
			continue
		}
		L := &lines[li]
		if L.strict {
			if cl.ts != L.rec.ts || !bytes.Equal(cl.bs, L.rec.bs) {
				v.Oracle = append(v.Oracle, fmt.Sprintf("call %d: line %q decoded as (%d, %s), written was (%d, %s)", i, short(string(data[L.start:L.end])), cl.ts, short(hx(cl.bs)), L.rec.ts, short(hx(L.rec.bs))))
			}
			L.seen = true
			continue
		}
		v.Oracle = append(v.Oracle, fmt.Sprintf("call %d: malformed line %q yielded the record (%d, %s) instead of an error", i, short(string(data[L.start:L.end])), cl.ts, short(hx(cl.bs))))
	}
	v.Tags = append(v.Tags, fmt.Sprintf("%s-records-returned:%d", strings.TrimSuffix(kind, "+src"), min(nOK, 4)))
	for _, L := range lines {
		if L.strict && L.upper && !L.seen {
			v.Oracle = append(v.Oracle, fmt.Sprintf("record (%d, %s) written at stream offset %d was not returned", L.rec.ts, short(hx(L.rec.bs)), L.start))
			break
		}
	}
	return
}
