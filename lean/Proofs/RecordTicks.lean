import Proofs.RecordListen
/-!
# The reference tick conversion is the nearest integer; consecutive stamps of a forward clock
-/
namespace Midi.Record

/-- `roundDiv a b` is within half a unit of `a / b` -/
theorem roundDiv_near (a b : Nat) (hb : 0 < b) :
    2 * (Meta.roundDiv a b * b) ≤ 2 * a + b ∧ 2 * a < 2 * (Meta.roundDiv a b * b) + b := by
  unfold Meta.roundDiv
  have h1 := Nat.mul_div_le (2 * a + b) (2 * b)
  have h2 := Nat.lt_mul_div_succ (2 * a + b) (by omega : 0 < 2 * b)
  rw [Nat.mul_add, Nat.mul_one] at h2
  rw [Nat.mul_assoc] at h1 h2
  rw [Nat.mul_comm ((2 * a + b) / (2 * b)) b]
  generalize b * ((2 * a + b) / (2 * b)) = X at *
  omega

/-- `|ticksRef q (bn/bd) Δ − q·(bn/bd)·Δ/60000| ≤ 1/2`, multiplied out by `60000·bd` -/
theorem ticksRef_exact (q bn bd : Nat) (hbd : 0 < bd) (Δ : Int) (hΔ : 0 ≤ Δ) :
    2 * ((ticksRef q bn bd Δ : Int) * (60000 * bd) - q * bn * Δ).natAbs ≤ 60000 * bd := by
  obtain ⟨n, rfl⟩ := Int.eq_ofNat_of_zero_le hΔ
  unfold ticksRef
  simp only [Int.toNat_natCast]
  obtain ⟨h1, h2⟩ := roundDiv_near (q * bn * n) (60000 * bd) (by omega)
  have e1 : ((Meta.roundDiv (q * bn * n) (60000 * bd) : Nat) : Int) * (60000 * (bd : Int))
      = ((Meta.roundDiv (q * bn * n) (60000 * bd) * (60000 * bd) : Nat) : Int) := by
    simp [Int.natCast_mul]
  have e2 : (q : Int) * bn * (n : Int) = ((q * bn * n : Nat) : Int) := by simp [Int.natCast_mul]
  rw [e1, e2]
  generalize Meta.roundDiv (q * bn * n) (60000 * bd) * (60000 * bd) = X at *
  generalize q * bn * n = A at *
  omega

/-- neighbours of a non-decreasing list -/
theorem adj_le (l : List Int) : ∀ (a : Int), (a :: l).Pairwise (· ≤ ·) →
    ∀ (i : Nat) (t p : Int), l[i]? = some t → (a :: l)[i]? = some p → p ≤ t := by
  induction l with
  | nil => intro a _ i t p h; simp at h
  | cons b r ih =>
    intro a hp i t p ht hpp
    cases i with
    | zero =>
      simp only [List.getElem?_cons_zero, Option.some.injEq] at ht hpp
      subst ht; subst hpp
      exact (List.pairwise_cons.1 hp).1 _ (by simp)
    | succ i =>
      simp only [List.getElem?_cons_succ] at ht hpp
      exact ih b (List.pairwise_cons.1 hp).2 i t p ht hpp

end Midi.Record
