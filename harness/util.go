package main

import (
	"encoding/hex"
	"strings"
)

// hx is the protocol's hex form: upper case, "-" for empty.
func hx(b []byte) string {
	if len(b) == 0 {
		return "-"
	}
	return strings.ToUpper(hex.EncodeToString(b))
}

func unhx(s string) []byte {
	if s == "-" {
		return nil
	}
	b, err := hex.DecodeString(s)
	if err != nil {
		panic("bad hex in op: " + s)
	}
	return b
}

func short(s string) string {
	if len(s) > 300 {
		return s[:300] + "…"
	}
	return s
}
