package main

import (
	"bytes"
	"fmt"
	"os"
	"path/filepath"
	"strconv"
	"strings"

	"gitlab.com/gomidi/midi/v2/smf"
	"gitlab.com/gomidi/midi/v2/verifhooks"
)

// C03: encoding emits structurally valid, deterministic SMF 1.0 files (strict parser = Lean `Strict.parse`).
func init() {
	register(&Prop{
		ID: "C03",
		Rule: "API histories as in C01 but with deltas <= 0x0FFFFFFF (strict-format domain), written by smf.WriteTo and judged by the " +
			"independent strict parser; VLQ boundary/sample values through the verif hook (thorough: Go-side sweep of all 2^28 legal values); " +
			"non-trivial = history with at least one message, or a VLQ value; distinct by op text",
		Gen: func(r *Rng, tier string, emit func(Case)) {
			n, nv := 1200, 3000
			if tier == "thorough" {
				n, nv = 50000, 300000
			}
			for i := 0; i < n; i++ {
				h := genHistory(r, tier, false)
				tags, nt := histTags(h)
				emit(Case{Op: h.String(), Tags: tags, NonTrivial: nt})
			}
			// number of tracks around 2^8 (the header's track count is two bytes)
			for _, nt := range []int{255, 256, 257, 300, 1000} {
				emit(Case{Op: fmt.Sprintf("c03.manytracks n=%d", nt), Tags: []string{"tracks>=256"}, NonTrivial: true})
			}
			// tracks whose chunk body crosses 2^16 bytes (thorough: also a multiple of it and 2^17)
			bodies := []int{65530, 70000}
			if tier == "thorough" {
				bodies = []int{65400, 65530, 65600, 70000, 131072, 200000}
			}
			for _, b := range bodies {
				emit(Case{Op: bigTrackHistory(r, b).String(), Tags: []string{"chunk-body>=2^16"}, NonTrivial: true})
			}
			// VLQ: every boundary +-2 of the 7-bit groups, then samples of the full 32-bit range
			for _, b := range []uint64{0, 1 << 7, 1 << 14, 1 << 21, 1 << 28, 1 << 31, 1 << 32} {
				for d := int64(-3); d <= 3; d++ {
					v := int64(b) + d
					if v >= 0 && v < 1<<32 {
						emit(Case{Op: fmt.Sprintf("vlq.enc %d", v), Tags: []string{"vlq-boundary"}, NonTrivial: true})
					}
				}
			}
			for i := 0; i < nv; i++ {
				var v uint64
				switch r.Intn(4) {
				case 0:
					v = r.U64() % (1 << 32)
				case 1:
					v = r.U64() % (1 << 28)
				case 2:
					v = r.U64() % (1 << 21)
				default:
					v = r.U64() % (1 << 15)
				}
				emit(Case{Op: fmt.Sprintf("vlq.enc %d", v), Tags: []string{"vlq-sample"}, NonTrivial: true})
			}
			if tier == "thorough" {
				for lo := uint64(0); lo < 1<<28; lo += 1 << 24 {
					emit(Case{Op: fmt.Sprintf("vlq.sweep %d %d", lo, lo+1<<24), Tags: []string{"vlq-sweep-2^24"}, NonTrivial: true})
				}
			}
		},
		Run: runC03,
	})
}

// canonicalVlq is the independent Go statement of "shortest encoding": value of the 7-bit groups,
// continuation bits exactly on all but the last byte, no leading 0x80.
func canonicalVlq(b []byte) (uint64, bool) {
	if len(b) == 0 || b[0] == 0x80 {
		return 0, false
	}
	var v uint64
	for i, x := range b {
		last := i == len(b)-1
		if (x&0x80 == 0) != last {
			return 0, false
		}
		v = v<<7 | uint64(x&0x7F)
	}
	return v, true
}

func vlqOracle(n uint32) []string {
	var out []string
	enc := verifhooks.VlqEncode(n)
	v, ok := canonicalVlq(enc)
	if !ok || v != uint64(n) {
		out = append(out, fmt.Sprintf("VlqEncode(%d) = % X is not the canonical encoding", n, enc))
	}
	want := 1
	for t := n >> 7; t > 0; t >>= 7 {
		want++
	}
	if len(enc) != want {
		out = append(out, fmt.Sprintf("VlqEncode(%d) has %d bytes, shortest form has %d", n, len(enc), want))
	}
	rd := bytes.NewReader(append(append([]byte{}, enc...), 0x55, 0xAA))
	got, err := verifhooks.ReadVarLength(rd)
	if err != nil || got != n || rd.Len() != 2 {
		out = append(out, fmt.Sprintf("ReadVarLength(VlqEncode(%d)) = %d, err %v, %d bytes left (want 2)", n, got, err, rd.Len()))
	}
	if d := verifhooks.VlqDecode(enc); d != n {
		out = append(out, fmt.Sprintf("VlqDecode(VlqEncode(%d)) = %d", n, d))
	}
	return out
}

func runC03(c Case, m *Model) (v Verdict) {
	switch {
	case strings.HasPrefix(c.Op, "vlq.sweep"):
		f := strings.Fields(c.Op)
		lo, _ := strconv.ParseUint(f[1], 10, 64)
		hi, _ := strconv.ParseUint(f[2], 10, 64)
		for n := lo; n < hi; n++ {
			if o := vlqOracle(uint32(n)); len(o) > 0 {
				v.Oracle = append(v.Oracle, o...)
				return
			}
		}
		return
	case strings.HasPrefix(c.Op, "vlq.enc"):
		f := strings.Fields(c.Op)
		n64, _ := strconv.ParseUint(f[1], 10, 64)
		n := uint32(n64)
		var enc []byte
		if p := try(func() { enc = verifhooks.VlqEncode(n); v.Oracle = append(v.Oracle, vlqOracle(n)...) }); p != "" {
			v.Oracle = append(v.Oracle, "panic: "+p)
			return
		}
		if ma := m.Ask(c.Op); ma != hx(enc) {
			v.Mismatch = append(v.Mismatch, "VlqEncode: model "+ma+" impl "+hx(enc))
		}
		if n < 1<<28 {
			if sa := m.Ask("strict.vlq " + hx(enc)); sa != fmt.Sprintf("ok %d 0", n) {
				v.Oracle = append(v.Oracle, fmt.Sprintf("strict VLQ parser on VlqEncode(%d) = % X: %s", n, enc, sa))
			}
		}
		return
	}
	if strings.HasPrefix(c.Op, "c03.manytracks") {
		var n int
		fmt.Sscanf(fields(c.Op)["n"], "%d", &n)
		s := smf.NewSMF1()
		s.TimeFormat = smf.MetricTicks(96)
		for i := 0; i < n; i++ {
			var t smf.Track
			if i%50 == 0 {
				t.Add(uint32(i), []byte{0x90, byte(i % 128), 1})
			}
			t.Close(0)
			s.Add(t)
		}
		var w bytes.Buffer
		if _, err := s.WriteTo(&w); err != nil {
			v.Oracle = append(v.Oracle, "writing "+c.Op+": "+err.Error())
			return
		}
		if sp := fields(m.Ask("strict.parse " + hx(w.Bytes())))["s"]; sp != "ok:"+showSMF(s) {
			v.Oracle = append(v.Oracle, fmt.Sprintf("a file with %d tracks: strict parser says %s", n, short(sp)))
		}
		return
	}
	h, _ := parseHistory(c.Op)
	mf := fields(m.Ask(c.Op))
	s := h.build()
	var w bytes.Buffer
	var size int64
	var werr error
	if p := try(func() { size, werr = s.WriteTo(&w) }); p != "" {
		v.Oracle = append(v.Oracle, "panic while writing: "+p)
		return
	}
	implErr := "0"
	if werr != nil {
		implErr = "1"
	}
	if mf["err"] != implErr {
		v.Mismatch = append(v.Mismatch, "write error class differs: model "+mf["err"]+" impl "+implErr)
	}
	if werr != nil {
		v.Tags = append(v.Tags, "write-error")
		return
	}
	built := showSMF(s)
	// oracle 1: the strict parser accepts the bytes and recovers the written content
	if sp := fields(m.Ask("strict.parse " + hx(w.Bytes())))["s"]; sp != "ok:"+built {
		v.Oracle = append(v.Oracle, "strict parser on the written bytes: "+short(sp)+" ; written content "+short(built))
	}
	// oracle 2: reported size
	if size != int64(w.Len()) {
		v.Oracle = append(v.Oracle, fmt.Sprintf("reported size %d, bytes emitted %d", size, w.Len()))
	}
	// oracle 3: determinism — the same value written again, and the same history built again
	var w2, w3 bytes.Buffer
	s.WriteTo(&w2)
	h.build().WriteTo(&w3)
	if !bytes.Equal(w.Bytes(), w2.Bytes()) || !bytes.Equal(w.Bytes(), w3.Bytes()) {
		v.Oracle = append(v.Oracle, "writing the same value twice emitted different bytes")
	}
	// oracle 4: the file-level entry point emits the same bytes and nothing else, whatever the path held before
	// (chosen by a hash of the op, so that a replay does the same)
	hk := 0
	for _, ch := range []byte(c.Op) {
		hk = (hk*31 + int(ch)) % 1000003
	}
	for mode := 0; mode < 3; mode++ {
		if w.Len() < 64 || (hk%4 == 0 && hk%3 == mode) {
			if msg := writeFileOracle(s, w.Bytes(), mode+3*(hk%200)); msg != "" {
				v.Oracle = append(v.Oracle, msg)
				break
			}
			v.Tags = append(v.Tags, "WriteFile")
		}
	}
	// oracle 5: the value keeps being usable: a track added after a write, written again, is again a strict file of what
	// the value now holds (header count and chunks agree)
	if hk%2 == 0 && len(v.Oracle) == 0 {
		var extra smf.Track
		extra.Add(uint32(hk%97), []byte{0x90 | byte(hk%16), 60, 100})
		extra.Close(0)
		var w4 bytes.Buffer
		var aerr, werr4 error
		var size4 int64
		if p := try(func() {
			aerr = s.Add(extra)
			if aerr == nil {
				size4, werr4 = s.WriteTo(&w4)
			}
		}); p != "" {
			v.Oracle = append(v.Oracle, "panic when a track is added after a write and the value written again: "+p)
		} else if aerr == nil && werr4 == nil {
			if sp := fields(m.Ask("strict.parse " + hx(w4.Bytes())))["s"]; sp != "ok:"+showSMF(s) {
				v.Oracle = append(v.Oracle, "written, one track added, written again: strict parser says "+short(sp)+" ; the value holds "+short(showSMF(s)))
			}
			if size4 != int64(w4.Len()) {
				v.Oracle = append(v.Oracle, fmt.Sprintf("second write: reported size %d, bytes emitted %d", size4, w4.Len()))
			}
			v.Tags = append(v.Tags, "write-add-write")
		}
	}
	// tie: byte-exact
	if mf["w"] != hx(w.Bytes()) {
		v.Mismatch = append(v.Mismatch, "bytes differ: model "+short(mf["w"])+" impl "+short(hx(w.Bytes())))
	}
	if mf["size"] != strconv.FormatInt(size, 10) {
		v.Mismatch = append(v.Mismatch, "size differs: model "+mf["size"]+" impl "+strconv.FormatInt(size, 10))
	}
	return
}


// writeFileOracle: SMF.WriteFile on a fresh path, over a longer existing file and over a shorter one leaves exactly
// the bytes WriteTo emits (a valid file has no trailing bytes), and smf.ReadFile reads the content back.
func writeFileOracle(s *smf.SMF, want []byte, k int) string {
	dir := os.Getenv("VERIF_WORK")
	if dir == "" {
		dir = os.TempDir()
	}
	path := filepath.Join(dir, fmt.Sprintf("c03-%d-%d.mid", os.Getpid(), k%3))
	defer os.Remove(path)
	var pre []byte
	switch k % 3 {
	case 0:
		os.Remove(path)
	case 1: // a longer file is already there
		pre = bytes.Repeat([]byte{0xAA}, len(want)+1+k%700)
	case 2: // a shorter one
		pre = bytes.Repeat([]byte{0x55}, len(want)/2)
	}
	if pre != nil {
		if err := os.WriteFile(path, pre, 0644); err != nil {
			return ""
		}
	}
	var err error
	if p := try(func() { err = s.WriteFile(path) }); p != "" {
		return "panic in WriteFile: " + p
	}
	if err != nil {
		return "WriteFile failed although WriteTo succeeds: " + err.Error()
	}
	got, rerr := os.ReadFile(path)
	if rerr != nil {
		return "WriteFile reported success but the file cannot be read: " + rerr.Error()
	}
	if !bytes.Equal(got, want) {
		return fmt.Sprintf("WriteFile over a path that held %d bytes left %d bytes on disk, WriteTo emits %d (first difference at %d)", len(pre), len(got), len(want), firstDiff(got, want))
	}
	var back *smf.SMF
	if p := try(func() { back, err = smf.ReadFile(path) }); p != "" {
		return "panic in ReadFile: " + p
	}
	mem, merr := smf.ReadFrom(bytes.NewReader(want))
	if (err == nil) != (merr == nil) || (err == nil && showSMF(back) != showSMF(mem)) {
		return fmt.Sprintf("ReadFile of the written file differs from ReadFrom of the same bytes: err %v vs %v", err, merr)
	}
	return ""
}

func firstDiff(a, b []byte) int {
	for i := 0; i < len(a) && i < len(b); i++ {
		if a[i] != b[i] {
			return i
		}
	}
	if len(a) < len(b) {
		return len(a)
	}
	return len(b)
}
