import MidiModel.Meta
import MidiModel.Generated.SmfMetaGo
import Props.C15_Ctor
import Props.C08_Code
import Props.C14_Filter
import Proofs.GoLoops
/-!
# C15, tie to the source: the numeric meta accessors of `smf/message.go` — `GetMetaChannel`, `GetMetaPort`,
`GetMetaSeqNumber`, `GetMetaSMPTEOffsetMsg`, `GetMetaTimeSig`, `GetMetaMeter`, `GetMetaKeySig` (with
`utils.KeyFromSharpsOrFlats` and its clamp loop) — and the classification they rest on (`smf.Message.Is` through
`smf.getType`, `getMetaType` and the `metaMessages` table) as translated by `tools/go2lean` on every run are the
model's accessors (`MidiModel/Meta.lean`): for every byte string (bytes < 256), every nil / non-nil choice of the
out-parameters and every previous content of the caller's variables.
-/
open Midi Midi.Go Midi.Msg
set_option linter.unusedSimpArgs false
set_option linter.unusedVariables false

namespace Midi.C15

/-- the 19 meta type constants -/
def metaT (i : Fin 19) : Nat := 70 + i.val

theorem metaType_fin : ∀ c : Fin 256, smf.getMetaType c.val = ((Meta.metaTypeOf c.val : Nat) : Int) := by decide +kernel

theorem metaType_eq (c : Nat) : smf.getMetaType c = ((Meta.metaTypeOf c : Nat) : Int) := by
  by_cases h : c < 256
  · exact metaType_fin ⟨c, h⟩
  · have e1 : smf.getMetaType c = 0 := by
      unfold smf.getMetaType smf.metaMessages
      have : c ≠ 47 ∧ c ≠ 0 ∧ c ≠ 1 ∧ c ≠ 2 ∧ c ≠ 3 ∧ c ≠ 4 ∧ c ≠ 5 ∧ c ≠ 6 ∧ c ≠ 7 ∧ c ≠ 32 ∧ c ≠ 9 ∧ c ≠ 33 ∧ c ≠ 81 ∧ c ≠ 88 ∧
          c ≠ 89 ∧ c ≠ 84 ∧ c ≠ 127 ∧ c ≠ 8 := by omega
      simp [this, Id.run]; rfl
    have e2 : Meta.metaTypeOf c = 0 := by
      unfold Meta.metaTypeOf
      split <;> first | omega | rfl
    rw [e1, e2]; rfl

theorem typeIs_meta_fin : ∀ (c : Fin 256) (i : Fin 19),
    typeIs ((Meta.metaTypeOf c.val : Nat) : Int) ((metaT i : Nat) : Int)
      = (Meta.metaTypeOf c.val != Meta.tUnknown && Meta.metaTypeOf c.val == metaT i) := by decide +kernel

theorem typeIs_midi_fin : ∀ (b : Fin 256) (i : Fin 19), typeIs (typeOfStatus b.val) ((metaT i : Nat) : Int) = false := by
  decide +kernel

theorem typeIs_meta (c : Nat) (i : Fin 19) :
    typeIs ((Meta.metaTypeOf c : Nat) : Int) ((metaT i : Nat) : Int)
      = (Meta.metaTypeOf c != Meta.tUnknown && Meta.metaTypeOf c == metaT i) := by
  by_cases h : c < 256
  · exact typeIs_meta_fin ⟨c, h⟩ i
  · have e2 : Meta.metaTypeOf c = 0 := by
      unfold Meta.metaTypeOf
      split <;> first | omega | rfl
    rw [e2]
    revert i; decide

theorem typeIs_midi (b : Nat) (i : Fin 19) : typeIs (typeOfStatus b) ((metaT i : Nat) : Int) = false := by
  by_cases h : b < 256
  · exact typeIs_midi_fin ⟨b, h⟩ i
  · rw [Midi.C14.typeOfStatus_big b (by omega)]
    revert i; decide

/-- **`smf.Message.Is(t)` for a meta type constant `t` is the model's `isType`**, for every byte string -/
theorem code_smf_Is (m : Bytes) (i : Fin 19) :
    smf.Message.Is m ((metaT i : Nat) : Int) = .ok (Meta.isType (metaT i) m) := by
  unfold smf.Message.Is smf.Message.Type' smf.getType smf.Message.IsMeta
  rcases m with _ | ⟨b, _ | ⟨c, r⟩⟩
  · simp [bind, Except.bind, pure, Except.pure, Midi.C08.code_Type_Is, Meta.isType]
    have := typeIs_midi 256 i
    rw [Midi.C14.typeOfStatus_big 256 (by omega)] at this
    exact this
  · by_cases hb : b = 255
    · subst hb
      simp [bind, Except.bind, pure, Except.pure, Midi.C08.code_Type_Is, Meta.isType, Go.idx]
      have := typeIs_midi 256 i
      rw [Midi.C14.typeOfStatus_big 256 (by omega)] at this
      exact this
    · obtain ⟨t, h1, h2⟩ := Midi.C08.code_Type [b]
      have h3 : t = typeOfStatus b := by simpa [getType] using h2.symm
      subst h3
      simp [bind, Except.bind, pure, Except.pure, Midi.C08.code_Type_Is, Meta.isType, Go.idx, hb, h1, typeIs_midi]
  · have n0 : ¬ ((r.length : Int) + 1 + 1 = 0) := by omega
    have n1 : ¬ ((r.length : Int) + 1 + 1 = 1) := by omega
    by_cases hb : b = 255
    · subst hb
      simp [bind, Except.bind, pure, Except.pure, Midi.C08.code_Type_Is, Meta.isType, Go.idx, metaType_eq, typeIs_meta, n0, n1]
    · obtain ⟨t, h1, h2⟩ := Midi.C08.code_Type (b :: c :: r)
      have h3 : t = typeOfStatus b := by simpa [getType] using h2.symm
      subst h3
      simp [bind, Except.bind, pure, Except.pure, Midi.C08.code_Type_Is, Meta.isType, Go.idx, hb, h1, typeIs_midi, n0, n1]

def sel {α : Type} (isNil : Bool) (old new : α) : α := if isNil then old else new

theorem is_at (m : Bytes) (k : Nat) (hk : k < 19) : smf.Message.Is m ((70 + k : Nat) : Int) = .ok (Meta.isType (70 + k) m) :=
  code_smf_Is m ⟨k, hk⟩

theorem code_GetMetaChannel (m : Bytes) (cn : Bool) (c0 : Nat) :
    smf.Message.GetMetaChannel m cn c0 =
      .ok (match Meta.getMetaChannel m with | none => (false, c0) | some c => (true, sel cn c0 c)) := by
  have hI : smf.Message.Is m (70 : Int) = .ok (Meta.isType 70 m) := is_at m 0 (by decide)
  unfold smf.Message.GetMetaChannel Meta.getMetaChannel smf.Message.metaDataWithoutVarlength
  cases hT : Meta.isType 70 m
  · simp [hI, hT, Meta.tChannel, bind, Except.bind, pure, Except.pure]
  · rcases m with _ | ⟨a, _ | ⟨b, _ | ⟨c, _ | ⟨d, _ | ⟨e, r⟩⟩⟩⟩⟩
    all_goals (cases cn <;>
      simp [hI, hT, Meta.tChannel, sel, bind, Except.bind, pure, Except.pure, Go.idx, Go.slice] <;> try omega)

theorem code_GetMetaPort (m : Bytes) (pn : Bool) (p0 : Nat) :
    smf.Message.GetMetaPort m pn p0 =
      .ok (match Meta.getMetaPort m with | none => (false, p0) | some p => (true, sel pn p0 p)) := by
  have hI : smf.Message.Is m (80 : Int) = .ok (Meta.isType 80 m) := is_at m 10 (by decide)
  unfold smf.Message.GetMetaPort Meta.getMetaPort smf.Message.metaDataWithoutVarlength
  cases hT : Meta.isType 80 m
  · simp [hI, hT, Meta.tPort, bind, Except.bind, pure, Except.pure]
  · rcases m with _ | ⟨a, _ | ⟨b, _ | ⟨c, _ | ⟨d, _ | ⟨e, r⟩⟩⟩⟩⟩
    all_goals (cases pn <;>
      simp [hI, hT, Meta.tPort, sel, bind, Except.bind, pure, Except.pure, Go.idx, Go.slice] <;> try omega)

theorem code_GetMetaSMPTE (m : Bytes) (n1 n2 n3 n4 n5 : Bool) (x1 x2 x3 x4 x5 : Nat) :
    smf.Message.GetMetaSMPTEOffsetMsg m n1 x1 n2 x2 n3 x3 n4 x4 n5 x5 =
      .ok (match Meta.getMetaSMPTE m with
           | none => (false, x1, x2, x3, x4, x5)
           | some (a, b, c, d, e) => (true, sel n1 x1 a, sel n2 x2 b, sel n3 x3 c, sel n4 x4 d, sel n5 x5 e)) := by
  have hI : smf.Message.Is m (86 : Int) = .ok (Meta.isType 86 m) := is_at m 16 (by decide)
  unfold smf.Message.GetMetaSMPTEOffsetMsg Meta.getMetaSMPTE smf.Message.metaDataWithoutVarlength
  cases hT : Meta.isType 86 m
  · simp [hI, hT, Meta.tSMPTEOffset, bind, Except.bind, pure, Except.pure]
  · rcases m with _ | ⟨a, _ | ⟨b, _ | ⟨c, _ | ⟨d, _ | ⟨e, _ | ⟨f, _ | ⟨g, _ | ⟨h, _ | ⟨i, r⟩⟩⟩⟩⟩⟩⟩⟩⟩
    all_goals (cases n1 <;> cases n2 <;> cases n3 <;> cases n4 <;> cases n5 <;>
      simp [hI, hT, Meta.tSMPTEOffset, sel, bind, Except.bind, pure, Except.pure, Go.idx, Go.slice] <;> try omega)


theorem code_GetMetaTimeSig (m : Bytes) (hb : ∀ x ∈ m, x < 256) (n1 n2 n3 n4 : Bool) (x1 x2 x3 x4 : Nat) :
    smf.Message.GetMetaTimeSig m n1 x1 n2 x2 n3 x3 n4 x4 =
      .ok (match Meta.getMetaTimeSig m with
           | none => (false, x1, x2, x3, x4)
           | some (a, b, c, d) => (true, sel n1 x1 a, sel n2 x2 b, sel n3 x3 c, sel n4 x4 d)) := by
  have hI : smf.Message.Is m (84 : Int) = .ok (Meta.isType 84 m) := is_at m 14 (by decide)
  unfold smf.Message.GetMetaTimeSig Meta.getMetaTimeSig smf.Message.metaDataWithoutVarlength
  cases hT : Meta.isType 84 m
  · simp [hI, hT, Meta.tTimeSig, bind, Except.bind, pure, Except.pure]
  · rcases m with _ | ⟨a, _ | ⟨b, _ | ⟨c, _ | ⟨d, _ | ⟨e, _ | ⟨f, _ | ⟨g, _ | ⟨h, r⟩⟩⟩⟩⟩⟩⟩⟩
    case cons.cons.cons.cons.cons.cons.cons.nil =>
      have he : e < 256 := hb e (by simp)
      have hd : smf.bin2decDenom e = Meta.bin2decDenom e := b2d_fin ⟨e, he⟩
      cases n1 <;> cases n2 <;> cases n3 <;> cases n4 <;>
        simp [hI, hT, hd, Meta.tTimeSig, sel, bind, Except.bind, pure, Except.pure, Go.idx, Go.slice]
    all_goals (cases n1 <;> cases n2 <;> cases n3 <;> cases n4 <;>
      simp [hI, hT, Meta.tTimeSig, sel, bind, Except.bind, pure, Except.pure, Go.idx, Go.slice] <;> try omega)

theorem code_GetMetaMeter (m : Bytes) (hb : ∀ x ∈ m, x < 256) (n1 n2 : Bool) (x1 x2 : Nat) :
    smf.Message.GetMetaMeter m n1 x1 n2 x2 =
      .ok (match Meta.getMetaMeter m with
           | none => (false, x1, x2)
           | some (a, b) => (true, sel n1 x1 a, sel n2 x2 b)) := by
  unfold smf.Message.GetMetaMeter Meta.getMetaMeter
  simp only [code_GetMetaTimeSig m hb]
  cases Meta.getMetaTimeSig m with
  | none => rfl
  | some t => obtain ⟨a, b, c, d⟩ := t; rfl

abbrev kCond : Int → Prop := fun t => t < 0
def kStep (t : Int) : Int := Go.wrapS 64 (t + 12)

/-- start value of the clamp loop -/
def kStart (d0 : Nat) (minor : Bool) : Int :=
  if minor then Go.wrapS 64 (Go.wrapS 8 (Go.wrapS 8 (d0 : Int) * 7) - 3) else Go.wrapS 8 (Go.wrapS 8 (d0 : Int) * 7)

theorem keyfrom_fin : ∀ (d0 : Fin 256) (minor : Bool),
    ¬ kCond (Go.iter kCond kStep 11 (kStart d0.val minor)) ∧
    Go.toU 8 (Int.tmod (Go.iter kCond kStep 11 (kStart d0.val minor)) 12)
      = Meta.keyFromSharpsOrFlats (Meta.toInt8 d0.val) (if minor then 1 else 0) := by decide +kernel

theorem sf_fin : ∀ d0 : Fin 256, Go.wrapS 8 (d0.val : Int) = Meta.toInt8 d0.val := by decide +kernel

theorem code_KeyFrom (d0 : Nat) (h : d0 < 256) (mode : Nat) :
    utils.KeyFromSharpsOrFlats (Go.wrapS 8 (d0 : Int)) mode = .ok (Meta.keyFromSharpsOrFlats (Meta.toInt8 d0) mode) := by
  unfold utils.KeyFromSharpsOrFlats
  simp only []
  have hbody : (fun (_ : Nat) (r : Int) =>
        if ¬ r < 0 then (pure (ForInStep.done r) : Except String (ForInStep Int))
        else pure (ForInStep.yield (Go.wrapS 64 (r + 12)))) =
      (fun _ st => if ¬ kCond st then pure (ForInStep.done st) else pure (ForInStep.yield (kStep st))) := by
    funext _ st; rfl
  by_cases hm : mode = 1
  · obtain ⟨e1, e2⟩ := keyfrom_fin ⟨d0, h⟩ true
    simp only [kStart, if_true] at e1 e2
    subst hm
    simp only [if_true]
    rw [hbody, Go.forIn_range_while kCond kStep, show Go.loopFuel = 11 + 1013 from rfl,
      Go.iter_add_of_stop kCond kStep 11 1013 _ e1]
    simp only [pure_bind]
    rw [if_neg e1, e2]; rfl
  · obtain ⟨e1, e2⟩ := keyfrom_fin ⟨d0, h⟩ false
    simp only [kStart, if_false, Bool.false_eq_true] at e1 e2
    have hk : Meta.keyFromSharpsOrFlats (Meta.toInt8 d0) mode = Meta.keyFromSharpsOrFlats (Meta.toInt8 d0) 0 := by
      unfold Meta.keyFromSharpsOrFlats; simp [hm]
    simp only [hm, if_false]
    rw [hbody, Go.forIn_range_while kCond kStep, show Go.loopFuel = 11 + 1013 from rfl,
      Go.iter_add_of_stop kCond kStep 11 1013 _ e1]
    simp only [pure_bind]
    rw [if_neg e1, e2, hk]; rfl


theorem num_fin : ∀ d0 : Fin 256,
    Go.toU 8 (if Go.wrapS 8 (d0.val : Int) < 0 then Go.wrapS 8 (Go.wrapS 8 (d0.val : Int) * (-1)) else Go.wrapS 8 (d0.val : Int))
      = ((if Meta.toInt8 d0.val < 0 then Meta.wrapInt8 (Meta.toInt8 d0.val * (-1)) else Meta.toInt8 d0.val) % 256).toNat := by
  decide +kernel

theorem u16_fin : ∀ a b : Fin 256, utils.ParseUint16 a.val b.val = (a.val % 256 * 256 + b.val % 256) % 65536 := by
  decide +kernel


theorem code_GetMetaSeqNumber (m : Bytes) (hb : ∀ x ∈ m, x < 256) (sn : Bool) (s0 : Nat) :
    smf.Message.GetMetaSeqNumber m sn s0 =
      .ok (match Meta.getMetaSeqNumber m with | none => (false, s0) | some v => (true, sel sn s0 v)) := by
  have hI : smf.Message.Is m (81 : Int) = .ok (Meta.isType 81 m) := is_at m 11 (by decide)
  unfold smf.Message.GetMetaSeqNumber Meta.getMetaSeqNumber
  cases hT : Meta.isType 81 m
  · simp [hI, hT, Meta.tSeqNumber, bind, Except.bind, pure, Except.pure]
  · rcases m with _ | ⟨a, _ | ⟨b, _ | ⟨c, _ | ⟨d, _ | ⟨e, r⟩⟩⟩⟩⟩
    case cons.cons.cons.cons.cons =>
      have hd : d < 256 := hb d (by simp)
      have he : e < 256 := hb e (by simp)
      have hu := u16_fin ⟨d, hd⟩ ⟨e, he⟩
      simp only at hu
      have n2 : ¬ ((r.length : Int) + 1 + 1 + 1 + 1 + 1 = 2) := by omega
      have n5 : ¬ ((r.length : Int) + 1 + 1 + 1 + 1 + 1 < 5) := by omega
      have m2 : ¬ (r.length + 1 + 1 + 1 + 1 + 1 = 2) := by omega
      have m5 : ¬ (r.length + 1 + 1 + 1 + 1 + 1 < 5) := by omega
      cases sn <;>
        simp [hI, hT, hu, n2, n5, m2, m5, Meta.tSeqNumber, sel, bind, Except.bind, pure, Except.pure, Go.idx]
    all_goals (cases sn <;>
      simp [hI, hT, Meta.tSeqNumber, sel, bind, Except.bind, pure, Except.pure, Go.idx] <;> try omega)

theorem code_GetMetaKeySig (m : Bytes) (hb : ∀ x ∈ m, x < 256) (n1 n2 n3 n4 : Bool) (k0 u0 : Nat) (j0 f0 : Bool) :
    smf.Message.GetMetaKeySig m n1 k0 n2 u0 n3 j0 n4 f0 =
      .ok (match Meta.getMetaKeySig m with
           | none => (false, k0, u0, j0, f0)
           | some k => (true, sel n1 k0 k.key, sel n2 u0 k.num, sel n3 j0 k.isMajor, sel n4 f0 k.isFlat)) := by
  have hI : smf.Message.Is m (76 : Int) = .ok (Meta.isType 76 m) := is_at m 6 (by decide)
  unfold smf.Message.GetMetaKeySig Meta.getMetaKeySig smf.Message.metaDataWithoutVarlength
  cases hT : Meta.isType 76 m
  · simp [hI, hT, Meta.tKeySig, bind, Except.bind, pure, Except.pure]
  · rcases m with _ | ⟨a, _ | ⟨b, _ | ⟨c, _ | ⟨d, _ | ⟨e, _ | ⟨f, r⟩⟩⟩⟩⟩⟩
    case cons.cons.cons.cons.cons.nil =>
      have hd : d < 256 := hb d (by simp)
      have hs := sf_fin ⟨d, hd⟩
      have hn := num_fin ⟨d, hd⟩
      have hk := code_KeyFrom d hd e
      simp only at hs hn
      rw [hs] at hn hk
      simp only [Int.mul_neg, Int.mul_one] at hn
      by_cases hlt : Meta.toInt8 d < 0
      · simp only [hlt, if_true] at hn
        cases n1 <;> cases n2 <;> cases n3 <;> cases n4 <;>
          simp [hI, hT, hs, hn, hk, hlt, Meta.tKeySig, sel, bind, Except.bind, pure, Except.pure, Go.idx, Go.slice] <;>
            (try (by_cases he0 : e = 0 <;> simp [he0]))
      · simp only [hlt, if_false] at hn
        cases n1 <;> cases n2 <;> cases n3 <;> cases n4 <;>
          simp [hI, hT, hs, hn, hk, hlt, Meta.tKeySig, sel, bind, Except.bind, pure, Except.pure, Go.idx, Go.slice] <;>
            (try (by_cases he0 : e = 0 <;> simp [he0]))
    all_goals (cases n1 <;> cases n2 <;> cases n3 <;> cases n4 <;>
      simp [hI, hT, Meta.tKeySig, sel, bind, Except.bind, pure, Except.pure, Go.idx, Go.slice] <;> try omega)

end Midi.C15
