import MidiModel.Basic
/-!
# Variable-length quantities (`internal/utils`: `VlqEncode`, `VlqDecode`, `ReadVarLength`)
-/
namespace Midi.Vlq

/-- continuation digits, least significant first
    (Go: `for quo > 0 { out = append(out, byte(quo)|0x80); quo /= 128 }`) -/
def tailLE : Nat → Nat → List Nat
  | 0, _ => []
  | f+1, q => if q = 0 then [] else (q % 128 + 128) :: tailLE f (q / 128)

/-- `VlqEncode(n)` for `n : uint32` (5 continuation digits suffice for 32 bits) -/
def encode (n : Nat) : List Nat := ((n % 128) :: tailLE 5 (n / 128)).reverse

/-- `ReadVarLength` on an in-memory stream: value (uint32, wrapping) and rest; `none` = the stream
    ended before a byte without continuation bit was seen (`ErrUnexpectedEOF`). -/
def readAux : Nat → Nat → List Nat → Option (Nat × List Nat)
  | 0, _, _ => none
  | _+1, _, [] => none
  | f+1, acc, b :: bs =>
    let acc' := (acc * 128) % 4294967296 + b % 128
    if b < 128 then some (acc', bs) else readAux f acc' bs

def read (bs : List Nat) : Option (Nat × List Nat) := readAux (bs.length + 1) 0 bs

/-- `VlqDecode(source)`: sums the quantities found in `source` (uint32 arithmetic); `none` = index out
    of range panic (the last byte carries a continuation bit). -/
def decodeGo : Nat → Option Nat → List Nat → Option Nat
  | num, none, [] => some num
  | _, some _, [] => none
  | num, cur, b :: bs =>
    let n := (match cur with | none => 0 | some n => n * 128 % 4294967296)
    let n' := (n + b % 128) % 4294967296
    if b ≥ 128 then decodeGo num (some n') bs else decodeGo ((num + n') % 4294967296) none bs

def decode (bs : List Nat) : Option Nat := decodeGo 0 none bs

/-- canonical form: no leading `0x80`, continuation bits exactly on all but the last byte -/
def canonical : List Nat → Bool
  | [] => false
  | [b] => b < 128
  | b :: r => b != 128 && b ≥ 128 && b < 256 && canonRest r
where
  canonRest : List Nat → Bool
    | [] => false
    | [b] => b < 128
    | b :: r => b ≥ 128 && b < 256 && canonRest r

--@driver vlq. Vlq.handle
/-- line protocol -/
def handle (op : String) (args : List String) : String :=
  match op, args with
  | "vlq.enc", [n] => match n.toNat? with
    | some k => if k < 4294967296 then hex (encode k) else "bad-op"
    | none => "bad-op"
  | "vlq.read", [h] => match unhex h with
    | some bs => match read bs with
      | some (n, rest) => s!"ok {n} {rest.length}"
      | none => "ueof"
    | none => "bad-op"
  | "vlq.dec", [h] => match unhex h with
    | some bs => match decode bs with
      | some n => s!"ok {n}"
      | none => "panic"
    | none => "bad-op"
  | _, _ => "bad-op"

end Midi.Vlq
