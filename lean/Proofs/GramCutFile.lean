import Proofs.GramCutEvent
/-! Truncation of a whole file: every proper prefix of a valid file reads as an error or as an event prefix (C05). -/
namespace Midi.Gram
open Midi.Vlq Midi.Smf

theorem readEvent_cut_eot (rr : Nat) (δ : GVlq) (pad : Nat) (hd : δ.Valid) (m : Nat) (hm : m < (eotBytes δ pad).length) :
    CutEv (readEvent rr ((eotBytes δ pad).take m)) := by
  -- the end-of-track event is a meta event of type 2F whose length field is a padded zero
  have hpad : (eotBytes δ pad) = δ.bytes ++ ([0xFF, 0x2F] ++ (List.replicate pad 0x80 ++ [0x00])) := rfl
  rw [hpad] at hm ⊢
  by_cases h1 : m < δ.bytes.length
  · rw [List.take_append_of_le_length (by omega)]
    unfold readEvent
    simp [readVlq_cut δ hd m h1, bind, Except.bind, CutEv]
  · rw [take_append_ge _ _ _ (by omega)]
    have hm' : m - δ.bytes.length < 2 + (pad + 1) := by
      simp only [List.length_append, List.length_cons, List.length_nil, List.length_replicate] at hm; omega
    generalize m - δ.bytes.length = k at hm'
    unfold readEvent
    simp only [readVlq_g δ hd, bind, Except.bind]
    match k, hm' with
    | 0, _ => simp [readByte, CutEv]
    | 1, _ => simp [readByte, CutEv]
    | k + 2, hk =>
      simp only [List.cons_append, List.nil_append, List.take_succ_cons, readByte, if_true]
      -- a proper prefix of `80 … 80 00` consists of continuation bytes only
      have hall : ∀ b ∈ (List.replicate pad 0x80 ++ [0x00]).take k, 128 ≤ b := by
        intro b hb
        have hk' : k ≤ (List.replicate pad 0x80).length := by simp; omega
        rw [List.take_append_of_le_length hk'] at hb
        have := List.eq_of_mem_replicate (List.mem_of_mem_take hb); omega
      simp [readVlq, Vlq.read, readAux_all_cont _ hall, CutEv]

def evM (e : GEvent) : Event := ⟨e.delta.value, e.ev.msg⟩

def trackBody (evs : List GEvent) (δe : GVlq) (pad : Nat) : Bytes :=
  (evs.map GEvent.bytes).flatten ++ eotBytes δe pad

/-- outcome of the event loop on a cut track: the loop ends with `io.EOF` (and then the track holds an
    event prefix), with "missing", or with an unexpected-EOF error -/
def CutLoop (n : Nat) (A B : List Track) (pre : Track) (evs : List GEvent) (r : RState × RErr) : Prop :=
  r.2 = .ueof ∨ r.2 = .missing ∨
  (r.2 = .eof ∧ r.1.numTracks = n ∧ r.1.started = A.length + 1 ∧
    ∃ k, k ≤ evs.length ∧ r.1.tracks = A ++ (pre ++ (evs.take k).map evM) :: B)

/-- one iteration that ends the loop with the decoder's error -/
theorem readLoop_evErr (f n k rr : Nat) (T : List Track) (bs : Bytes) (e : RErr) (h : readEvent rr bs = .error e) :
    readLoop (f+1) ⟨n, k, false, rr, false, T⟩ bs
      = (⟨n, k, false, rr, false, T⟩, if e = .eof ∧ decide (n > k) = true then .missing else e) := by
  unfold readLoop
  simp [h, RState.missing]

theorem readLoop_cutEv (f n rr : Nat) (A B : List Track) (pre : Track) (bs : Bytes) (evs : List GEvent)
    (hpre : pre.isClosed = false) (h : CutEv (readEvent rr bs)) :
    CutLoop n A B pre evs (readLoop (f+2) ⟨n, A.length + 1, false, rr, false, A ++ pre :: B⟩ bs) := by
  rcases h with h | h | ⟨δ, s, h⟩
  · -- io.EOF
    rw [readLoop_evErr _ _ _ _ _ _ _ h]
    by_cases hmiss : n > A.length + 1
    · right; left
      simp [hmiss]
    · right; right
      simp only [hmiss, decide_false, Bool.false_eq_true, and_false, if_false]
      exact ⟨trivial, trivial, trivial, 0, by omega, by simp⟩
  · left
    rw [readLoop_evErr _ _ _ _ _ _ _ h]
    simp
  · -- swallowed second data byte: an empty message is stored, the next read fails with unexpected EOF
    left
    have h2 : readEvent s [] = .error .ueof := by
      simp [readEvent, readVlq, Vlq.read, Vlq.readAux, bind, Except.bind]
    have hstep := readLoop_event (f+1) n rr A B pre bs ⟨δ, [], s, []⟩ hpre h (by simp [isEOTMsg])
    rw [hstep, readLoop_evErr _ _ _ _ _ _ _ h2]
    simp

/-- the event loop on a cut track body -/
theorem readLoop_cut_track (evs : List GEvent) (δe : GVlq) (pad n : Nat) (A B : List Track)
    (hδ : δe.Valid) (hv : ∀ e ∈ evs, e.delta.Valid ∧ e.ev.Valid) :
    ∀ (pre : Track) (rr fuel m : Nat), pre.isClosed = false → elideOK rr evs → m + 2 ≤ fuel →
    m < (trackBody evs δe pad).length →
    CutLoop n A B pre evs
      (readLoop fuel ⟨n, A.length + 1, false, rr, false, A ++ pre :: B⟩ ((trackBody evs δe pad).take m)) := by
  induction evs with
  | nil =>
    intro pre rr fuel m hpre _ hf hm
    obtain ⟨f, rfl⟩ : ∃ f, fuel = f + 2 := ⟨fuel - 2, by omega⟩
    simp only [trackBody, List.map_nil, List.flatten_nil, List.nil_append] at hm ⊢
    exact readLoop_cutEv f n rr A B pre _ [] hpre (readEvent_cut_eot rr δe pad hδ m hm)
  | cons e evs ih =>
    intro pre rr fuel m hpre hel hf hm
    obtain ⟨hd, hvv⟩ := hv e (by simp)
    obtain ⟨hel1, hel2⟩ := hel
    obtain ⟨f, rfl⟩ : ∃ f, fuel = f + 2 := ⟨fuel - 2, by omega⟩
    have hbody : trackBody (e :: evs) δe pad = e.bytes ++ trackBody evs δe pad := by
      simp [trackBody, List.append_assoc]
    rw [hbody] at hm ⊢
    by_cases hc : m < e.bytes.length
    · -- cut inside this event
      rw [List.take_append_of_le_length (by omega)]
      have := readLoop_cutEv f n rr A B pre _ (e :: evs) hpre (readEvent_cut rr e hd hvv hel1 m hc)
      exact this
    · rw [take_append_ge _ _ _ (by omega)]
      have hev := readEvent_g rr e ((trackBody evs δe pad).take (m - e.bytes.length)) hd hvv hel1
      have hne := msg_not_eot e.ev hvv
      have hstep := readLoop_event (f+1) n rr A B pre _ _ hpre hev hne.1
      have hpre' : Track.isClosed (pre ++ [⟨e.delta.value, e.ev.msg⟩]) = false := by
        rw [isClosed_snoc]; exact hne.2
      have hnext := ih (fun x hx => hv x (by simp [hx])) (pre ++ [⟨e.delta.value, e.ev.msg⟩]) e.ev.statusAfter (f+1)
        (m - e.bytes.length) hpre' hel2 (by have := event_bytes_pos e; omega)
        (by simp only [List.length_append] at hm; omega)
      rw [hstep]
      -- re-index the prefix
      rcases hnext with h | h | ⟨h1, h2, h3, k, hk, h4⟩
      · exact Or.inl h
      · exact Or.inr (Or.inl h)
      · refine Or.inr (Or.inr ⟨h1, h2, h3, k + 1, by simp; omega, ?_⟩)
        rw [h4]
        simp [evM, List.append_assoc]

/-! ### chunk level -/

theorem readN_short (n : Nat) (l : Bytes) (h : l.length < n) : readN n l = .error .eof ∨ readN n l = .error .ueof := by
  unfold readN
  have h0 : ¬ n = 0 := by omega
  by_cases he : l = []
  · simp [h0, he]
  · simp only [h0, he, h, if_false, if_true]; exact Or.inr trivial

theorem take_app4 (t Y : Bytes) (m : Nat) (ht : t.length = 4) (h : 4 ≤ m) : (t ++ Y).take m = t ++ Y.take (m - 4) := by
  rw [take_append_ge _ _ _ (by omega), ht]

/-- a cut inside the alien chunks / the header of the next track chunk makes the chunk loop fail with an EOF class -/
theorem chunkLoop_cut (as : List Alien) (hv : ∀ a ∈ as, a.Valid) (k L : Nat) (X : Bytes) :
    ∀ fuel m, m < fuel → m < ((as.map Alien.bytes).flatten).length + 8 →
    chunkLoop fuel k (((as.map Alien.bytes).flatten ++ (MTrk ++ (be32 L ++ X))).take m) = .error .eof ∨
    chunkLoop fuel k (((as.map Alien.bytes).flatten ++ (MTrk ++ (be32 L ++ X))).take m) = .error .ueof := by
  induction as with
  | nil =>
    intro fuel m hf hm
    obtain ⟨f, rfl⟩ : ∃ f, fuel = f + 1 := ⟨fuel - 1, by omega⟩
    simp only [List.map_nil, List.flatten_nil, List.nil_append, List.length_nil, Nat.zero_add] at hm ⊢
    unfold chunkLoop
    by_cases h4 : m < 4
    · have : ((MTrk ++ (be32 L ++ X)).take m).length < 4 := by simp; omega
      rcases readN_short 4 _ this with h | h <;> simp [h, bind, Except.bind]
    · rw [take_app4 MTrk _ m rfl (by omega), readN4' MTrk _ rfl]
      have : ((be32 L ++ X).take (m - 4)).length < 4 := by simp; omega
      rcases readN_short 4 _ this with h | h <;> simp [h, bind, Except.bind]
  | cons a as ih =>
    intro fuel m hf hm
    obtain ⟨h4, hne, hlen⟩ := hv a (by simp)
    obtain ⟨f, rfl⟩ : ∃ f, fuel = f + 1 := ⟨fuel - 1, by omega⟩
    have hbytes : ((a :: as).map Alien.bytes).flatten ++ (MTrk ++ (be32 L ++ X))
        = a.typ ++ (be32 a.data.length ++ (a.data ++ ((as.map Alien.bytes).flatten ++ (MTrk ++ (be32 L ++ X))))) := by
      simp [Alien.bytes, chunk, List.append_assoc]
    have hm8 : m < 4 + 4 + a.data.length + ((as.map Alien.bytes).flatten).length + 8 := by
      simp only [List.map_cons, List.flatten_cons, List.length_append, Alien.bytes, chunk, be32_len] at hm
      omega
    rw [hbytes]
    generalize hR : (as.map Alien.bytes).flatten ++ (MTrk ++ (be32 L ++ X)) = R
    unfold chunkLoop
    by_cases c1 : m < 4
    · have : ((a.typ ++ (be32 a.data.length ++ (a.data ++ R))).take m).length < 4 := by simp; omega
      rcases readN_short 4 _ this with h | h <;> simp [h, bind, Except.bind]
    · rw [take_app4 a.typ _ m h4 (by omega), readN4' a.typ _ h4]
      by_cases c2 : m - 4 < 4
      · have : ((be32 a.data.length ++ (a.data ++ R)).take (m - 4)).length < 4 := by simp; omega
        rcases readN_short 4 _ this with h | h <;> simp [h, bind, Except.bind]
      · rw [take_app4 (be32 a.data.length) _ (m - 4) (be32_len _) (by omega)]
        simp only [bind, Except.bind, readN4' (be32 a.data.length) _ (be32_len _), hne, if_false]
        have hl : lenOf4 (be32 a.data.length) = a.data.length := by
          simp only [be32, lenOf4]; exact be32_dec' _ hlen
        rw [hl]
        by_cases c3 : m - 4 - 4 < a.data.length
        · have : ((a.data ++ R).take (m - 4 - 4)).length < a.data.length := by simp; omega
          rw [if_pos this]; exact Or.inl rfl
        · rw [take_append_ge _ _ _ (by omega)]
          have hnl : ¬ ((a.data ++ R.take (m - 4 - 4 - a.data.length)).length < a.data.length) := by simp
          simp only [hnl, if_false]
          have hdrop : (a.data ++ R.take (m - 4 - 4 - a.data.length)).drop a.data.length = R.take (m - 4 - 4 - a.data.length) := by simp
          rw [hdrop, ← hR]
          exact ih (fun x hx => hv x (by simp [hx])) f _ (by omega) (by omega)

end Midi.Gram
