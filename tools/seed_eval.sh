#!/bin/bash
# usage: seed_eval.sh <Cxx> <patch> <demo-dir> [tier]
# Confirms a seeded change (compiles, baseline passes, demo fails with / passes without) and runs the check against it.
set -u
id="$1"; patch="$2"; demo="$3"; tier="${4:-quick}"
export GOFLAGS=-mod=mod GOPROXY=off GOSUMDB=off GOTOOLCHAIN=local
wt=${SEED_DIR:-/tmp/seed}/$id
git -C $wt checkout -q -- . 2>/dev/null; git -C $wt clean -fdq
echo "== demo WITHOUT the change"
( cd "$demo" && (go test -count=1 ./... 2>&1 || true; if ls *.go 2>/dev/null | grep -qv _test.go; then go run . 2>&1; echo "run-exit=$?"; fi) ) | tail -6
git -C $wt apply "$patch" || { echo "PATCH DOES NOT APPLY"; exit 2; }
echo "== build + baseline WITH the change"
( cd $wt/v2 && go build ./smf/... ./drivers/testdrv/... ./drivers/midicat/... ./sysex/... ./mmc/... ./sequencer/... . 2>&1 | tail -3 )
python3 /verif/tools/baseline.py $wt | tail -3
echo "== demo WITH the change"
( cd "$demo" && (go test -count=1 ./... 2>&1 || true; if ls *.go 2>/dev/null | grep -qv _test.go; then go run . 2>&1; echo "run-exit=$?"; fi) ) | tail -6
echo "== check $id ($tier) against the change"
( cd /verif && VERIF_REPO=$wt ./check $id --tier $tier 2>&1 | cut -c1-400 | head -8 )
git -C $wt checkout -q -- .
