/-! Generated on every run by `harness facts` from the working tree. Do not edit. -/
namespace Midi.Facts
/-- `midi.Message{b}.Type()` for b = 0..255, from the compiled library -/
def midiType : List Int := [
  0, 0, 0, 0, 0, 0, 0, 0, 0, 0, 0, 0, 0, 0, 0, 0, 
  0, 0, 0, 0, 0, 0, 0, 0, 0, 0, 0, 0, 0, 0, 0, 0, 
  0, 0, 0, 0, 0, 0, 0, 0, 0, 0, 0, 0, 0, 0, 0, 0, 
  0, 0, 0, 0, 0, 0, 0, 0, 0, 0, 0, 0, 0, 0, 0, 0, 
  0, 0, 0, 0, 0, 0, 0, 0, 0, 0, 0, 0, 0, 0, 0, 0, 
  0, 0, 0, 0, 0, 0, 0, 0, 0, 0, 0, 0, 0, 0, 0, 0, 
  0, 0, 0, 0, 0, 0, 0, 0, 0, 0, 0, 0, 0, 0, 0, 0, 
  0, 0, 0, 0, 0, 0, 0, 0, 0, 0, 0, 0, 0, 0, 0, 0, 
  16, 16, 16, 16, 16, 16, 16, 16, 16, 16, 16, 16, 16, 16, 16, 16, 
  15, 15, 15, 15, 15, 15, 15, 15, 15, 15, 15, 15, 15, 15, 15, 15, 
  20, 20, 20, 20, 20, 20, 20, 20, 20, 20, 20, 20, 20, 20, 20, 20, 
  17, 17, 17, 17, 17, 17, 17, 17, 17, 17, 17, 17, 17, 17, 17, 17, 
  21, 21, 21, 21, 21, 21, 21, 21, 21, 21, 21, 21, 21, 21, 21, 21, 
  19, 19, 19, 19, 19, 19, 19, 19, 19, 19, 19, 19, 19, 19, 19, 19, 
  18, 18, 18, 18, 18, 18, 18, 18, 18, 18, 18, 18, 18, 18, 18, 18, 
  -4, 31, 33, 32, 0, 0, 34, -4, 2, 1, 3, 4, 5, 0, 6, 7]
/-- `smf.Message{0xFF, b, 0}.Type()` for b = 0..255, from the compiled library -/
def smfMetaType : List Int := [
  81, 78, 71, 85, 75, 77, 79, 72, 88, 73, 0, 0, 0, 0, 0, 0, 
  0, 0, 0, 0, 0, 0, 0, 0, 0, 0, 0, 0, 0, 0, 0, 0, 
  70, 80, 0, 0, 0, 0, 0, 0, 0, 0, 0, 0, 0, 0, 0, 74, 
  0, 0, 0, 0, 0, 0, 0, 0, 0, 0, 0, 0, 0, 0, 0, 0, 
  0, 0, 0, 0, 0, 0, 0, 0, 0, 0, 0, 0, 0, 0, 0, 0, 
  0, 83, 0, 0, 86, 0, 0, 0, 84, 76, 0, 0, 0, 0, 0, 0, 
  0, 0, 0, 0, 0, 0, 0, 0, 0, 0, 0, 0, 0, 0, 0, 0, 
  0, 0, 0, 0, 0, 0, 0, 0, 0, 0, 0, 0, 0, 0, 0, 82, 
  0, 0, 0, 0, 0, 0, 0, 0, 0, 0, 0, 0, 0, 0, 0, 0, 
  0, 0, 0, 0, 0, 0, 0, 0, 0, 0, 0, 0, 0, 0, 0, 0, 
  0, 0, 0, 0, 0, 0, 0, 0, 0, 0, 0, 0, 0, 0, 0, 0, 
  0, 0, 0, 0, 0, 0, 0, 0, 0, 0, 0, 0, 0, 0, 0, 0, 
  0, 0, 0, 0, 0, 0, 0, 0, 0, 0, 0, 0, 0, 0, 0, 0, 
  0, 0, 0, 0, 0, 0, 0, 0, 0, 0, 0, 0, 0, 0, 0, 0, 
  0, 0, 0, 0, 0, 0, 0, 0, 0, 0, 0, 0, 0, 0, 0, 0, 
  0, 0, 0, 0, 0, 0, 0, 0, 0, 0, 0, 0, 0, 0, 0, 0]
/-- `smf.Message{b}.Type()` for b = 0..255, from the compiled library -/
def smfType : List Int := [
  0, 0, 0, 0, 0, 0, 0, 0, 0, 0, 0, 0, 0, 0, 0, 0, 
  0, 0, 0, 0, 0, 0, 0, 0, 0, 0, 0, 0, 0, 0, 0, 0, 
  0, 0, 0, 0, 0, 0, 0, 0, 0, 0, 0, 0, 0, 0, 0, 0, 
  0, 0, 0, 0, 0, 0, 0, 0, 0, 0, 0, 0, 0, 0, 0, 0, 
  0, 0, 0, 0, 0, 0, 0, 0, 0, 0, 0, 0, 0, 0, 0, 0, 
  0, 0, 0, 0, 0, 0, 0, 0, 0, 0, 0, 0, 0, 0, 0, 0, 
  0, 0, 0, 0, 0, 0, 0, 0, 0, 0, 0, 0, 0, 0, 0, 0, 
  0, 0, 0, 0, 0, 0, 0, 0, 0, 0, 0, 0, 0, 0, 0, 0, 
  16, 16, 16, 16, 16, 16, 16, 16, 16, 16, 16, 16, 16, 16, 16, 16, 
  15, 15, 15, 15, 15, 15, 15, 15, 15, 15, 15, 15, 15, 15, 15, 15, 
  20, 20, 20, 20, 20, 20, 20, 20, 20, 20, 20, 20, 20, 20, 20, 20, 
  17, 17, 17, 17, 17, 17, 17, 17, 17, 17, 17, 17, 17, 17, 17, 17, 
  21, 21, 21, 21, 21, 21, 21, 21, 21, 21, 21, 21, 21, 21, 21, 21, 
  19, 19, 19, 19, 19, 19, 19, 19, 19, 19, 19, 19, 19, 19, 19, 19, 
  18, 18, 18, 18, 18, 18, 18, 18, 18, 18, 18, 18, 18, 18, 18, 18, 
  -4, 31, 33, 32, 0, 0, 34, -4, 2, 1, 3, 4, 5, 0, 6, 0]
/-- numeric values of the exported `Type` constants: UnknownMsg, RealTimeMsg, SysCommonMsg, ChannelMsg, SysExMsg, smf.MetaMsg, TickMsg, TimingClockMsg, StartMsg, ContinueMsg, StopMsg, ActiveSenseMsg, ResetMsg, NoteOnMsg, NoteOffMsg, ControlChangeMsg, PitchBendMsg, AfterTouchMsg, PolyAfterTouchMsg, ProgramChangeMsg, MTCMsg, SongSelectMsg, SPPMsg, TuneMsg, smf.MetaChannelMsg, smf.MetaCopyrightMsg, smf.MetaCuepointMsg, smf.MetaDeviceMsg, smf.MetaEndOfTrackMsg, smf.MetaInstrumentMsg, smf.MetaKeySigMsg, smf.MetaLyricMsg, smf.MetaTextMsg, smf.MetaMarkerMsg, smf.MetaPortMsg, smf.MetaSeqNumberMsg, smf.MetaSeqDataMsg, smf.MetaTempoMsg, smf.MetaTimeSigMsg, smf.MetaTrackNameMsg, smf.MetaSMPTEOffsetMsg, smf.MetaUndefinedMsg, smf.MetaProgramNameMsg -/
def typeConstants : List Int := [0, -1, -2, -3, -4, -5, 1, 2, 3, 4, 5, 6, 7, 15, 16, 17, 18, 19, 20, 21, 31, 32, 33, 34, 70, 71, 72, 73, 74, 75, 76, 77, 78, 79, 80, 81, 82, 83, 84, 85, 86, 87, 88]
end Midi.Facts
