// Command extract reads syntactic facts from the repository's Go sources with go/parser only
// (no type checking, no build) and prints them as Lean definitions that are spliced into
// lean/MidiModel/Generated/Facts.lean on every run. usage: extract <repo>/v2
package main

import (
	"fmt"
	"os"
)

// extractors are registered by the other files of this package in init().
var extractors []func(root string) (lean string, err error)

func main() {
	if len(os.Args) < 2 {
		fmt.Fprintln(os.Stderr, "usage: extract <repo>/v2")
		os.Exit(2)
	}
	for _, e := range extractors {
		s, err := e(os.Args[1])
		if err != nil {
			fmt.Fprintln(os.Stderr, "extract:", err)
			os.Exit(1)
		}
		fmt.Print(s)
	}
}
