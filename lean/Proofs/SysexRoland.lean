import Proofs.Sysex
/-!
# C18, Roland-style messages: layout of `SysEx()`, `Parse ∘ SysEx`, single-byte corruptions
-/
namespace Midi.Sysex

theorem build_set_shape (s : Manufacturer) (h : s.req = false) :
    build s = [0xF0, s.manu, s.dev, s.model, 0x12, s.a0, s.a1, s.a2] ++ s.data ++ [checksum s, 0xF7] := by
  simp [build, body, h]

theorem build_req_shape (s : Manufacturer) (h : s.req = true) :
    build s = [0xF0, s.manu, s.dev, s.model, 0x11, s.a0, s.a1, s.a2, s.n0, s.n1, s.n2, checksum s, 0xF7] := by
  simp [build, body, h]

theorem checksum_set (manu dev model a0 a1 a2 n0 n1 n2 : Nat) (d : Bytes) :
    checksum { manu := manu, dev := dev, model := model, req := false, a0 := a0, a1 := a1, a2 := a2,
               data := d, n0 := n0, n1 := n1, n2 := n2 } = cksumOf ([a0, a1, a2] ++ d) := by
  simp [checksum, summed, body]

theorem checksum_req (manu dev model a0 a1 a2 n0 n1 n2 : Nat) (d : Bytes) :
    checksum { manu := manu, dev := dev, model := model, req := true, a0 := a0, a1 := a1, a2 := a2,
               data := d, n0 := n0, n1 := n1, n2 := n2 } = cksumOf [a0, a1, a2, n0, n1, n2] := by
  simp [checksum, summed, body]

theorem checksum_eq_set (s : Manufacturer) (h : s.req = false) :
    checksum s = cksumOf ([s.a0, s.a1, s.a2] ++ s.data) := by
  simp [checksum, summed, body, h]

theorem checksum_eq_req (s : Manufacturer) (h : s.req = true) :
    checksum s = cksumOf [s.a0, s.a1, s.a2, s.n0, s.n1, s.n2] := by
  simp [checksum, summed, body, h]

theorem verdict_ok (s : Manufacturer) (c : Nat) (h : c = checksum s) : verdict c 0xF7 s = .ok s := by
  simp [verdict, h]

theorem verdict_bad (s : Manufacturer) (c e : Nat) (h : c ≠ checksum s) : verdict c e s = .err .badSum := by
  simp [verdict, h]

/-- `Parse(SysEx(s))` for a data request or a data-set message with at least one payload byte -/
theorem parse_build (s : Manufacturer) (hv : s.req = true ∨ s.data ≠ []) : parse (build s) = .ok s.norm := by
  cases hr : s.req with
  | false =>
    have hd : s.data ≠ [] := by
      rcases hv with h | h
      · rw [hr] at h; cases h
      · exact h
    rw [build_set_shape s hr, parse_set _ _ _ _ _ _ _ _ _ hd]
    have hn : s.norm = { manu := s.manu, dev := s.dev, model := s.model, req := false, a0 := s.a0, a1 := s.a1,
                         a2 := s.a2, data := s.data, n0 := 0, n1 := 0, n2 := 0 } := by
      simp [Manufacturer.norm, hr]
    rw [hn]
    apply verdict_ok
    rw [checksum_set, checksum_eq_set s hr]
  | true =>
    rw [build_req_shape s hr, parse_req]
    have hn : s.norm = { manu := s.manu, dev := s.dev, model := s.model, req := true, a0 := s.a0, a1 := s.a1,
                         a2 := s.a2, data := [], n0 := s.n0, n1 := s.n1, n2 := s.n2 } := by
      simp [Manufacturer.norm, hr]
    rw [hn]
    apply verdict_ok
    rw [checksum_req, checksum_eq_req s hr]

/-- corruption of a data-request message -/
theorem corrupt_req (s : Manufacturer) (hr : s.req = true) (i b b' : Nat)
    (hi : 5 ≤ i) (hi' : i + 2 ≤ (build s).length) (hb : (build s)[i]? = some b)
    (h7 : b < 128) (h7' : b' < 128) (hne : b' ≠ b) :
    parse ((build s).set i b') = .err .badSum := by
  rw [build_req_shape s hr] at hi' hb ⊢
  have hc := checksum_eq_req s hr
  simp only [List.length_cons, List.length_nil] at hi'
  have hcases : i = 5 ∨ i = 6 ∨ i = 7 ∨ i = 8 ∨ i = 9 ∨ i = 10 ∨ i = 11 := by omega
  rcases hcases with rfl | rfl | rfl | rfl | rfl | rfl | rfl <;>
    simp only [List.getElem?_cons_succ, List.getElem?_cons_zero, Option.some.injEq] at hb <;>
    simp only [List.set_cons_succ, List.set_cons_zero] <;>
    rw [parse_req] <;> apply verdict_bad <;> rw [checksum_req]
  all_goals first
    | (rw [hc]; apply cksumOf_ne; simp only [List.sum_cons, List.sum_nil]; omega)
    | (rw [← hc, hb]; exact hne)

/-- corruption of a data-set message -/
theorem corrupt_set (s : Manufacturer) (hr : s.req = false) (hd : s.data ≠ []) (i b b' : Nat)
    (hi : 5 ≤ i) (hi' : i + 2 ≤ (build s).length) (hb : (build s)[i]? = some b)
    (h7 : b < 128) (h7' : b' < 128) (hne : b' ≠ b) :
    parse ((build s).set i b') = .err .badSum := by
  rw [build_set_shape s hr] at hi' hb ⊢
  have hc := checksum_eq_set s hr
  simp only [List.length_append, List.length_cons, List.length_nil] at hi'
  have hcases : i = 5 ∨ i = 6 ∨ i = 7 ∨ (∃ j, i = j + 8 ∧ j < s.data.length) ∨ i = s.data.length + 8 := by
    by_cases h8 : i < 8
    · omega
    · by_cases hl : i = s.data.length + 8
      · omega
      · right; right; right; left; exact ⟨i - 8, by omega, by omega⟩
  rcases hcases with rfl | rfl | rfl | ⟨j, rfl, hj⟩ | rfl
  · simp only [List.cons_append, List.getElem?_cons_succ, List.getElem?_cons_zero, Option.some.injEq] at hb
    simp only [List.cons_append, List.nil_append, List.set_cons_succ, List.set_cons_zero]
    have := parse_set s.manu s.dev s.model b' s.a1 s.a2 s.data (checksum s) 0xF7 hd
    simp only [List.cons_append, List.nil_append] at this
    rw [this]; apply verdict_bad; rw [checksum_set, hc]
    apply cksumOf_ne; simp only [List.sum_append, List.sum_cons, List.sum_nil]; omega
  · simp only [List.cons_append, List.getElem?_cons_succ, List.getElem?_cons_zero, Option.some.injEq] at hb
    simp only [List.cons_append, List.nil_append, List.set_cons_succ, List.set_cons_zero]
    have := parse_set s.manu s.dev s.model s.a0 b' s.a2 s.data (checksum s) 0xF7 hd
    simp only [List.cons_append, List.nil_append] at this
    rw [this]; apply verdict_bad; rw [checksum_set, hc]
    apply cksumOf_ne; simp only [List.sum_append, List.sum_cons, List.sum_nil]; omega
  · simp only [List.cons_append, List.getElem?_cons_succ, List.getElem?_cons_zero, Option.some.injEq] at hb
    simp only [List.cons_append, List.nil_append, List.set_cons_succ, List.set_cons_zero]
    have := parse_set s.manu s.dev s.model s.a0 s.a1 b' s.data (checksum s) 0xF7 hd
    simp only [List.cons_append, List.nil_append] at this
    rw [this]; apply verdict_bad; rw [checksum_set, hc]
    apply cksumOf_ne; simp only [List.sum_append, List.sum_cons, List.sum_nil]; omega
  · -- a payload byte
    simp only [List.cons_append, List.nil_append, List.getElem?_cons_succ] at hb
    rw [List.getElem?_append_left hj] at hb
    have hset : ([0xF0, s.manu, s.dev, s.model, 0x12, s.a0, s.a1, s.a2] ++ s.data ++ [checksum s, 0xF7]).set (j + 8) b'
        = [0xF0, s.manu, s.dev, s.model, 0x12, s.a0, s.a1, s.a2] ++ s.data.set j b' ++ [checksum s, 0xF7] := by
      simp only [List.cons_append, List.nil_append, List.set_cons_succ]
      rw [List.set_append, if_pos hj]
    rw [hset]
    have hd' : s.data.set j b' ≠ [] := by
      intro h0
      have : (s.data.set j b').length = 0 := by rw [h0]; rfl
      simp at this
      exact hd this
    rw [parse_set _ _ _ _ _ _ _ _ _ hd']; apply verdict_bad; rw [checksum_set, hc]
    apply cksumOf_ne
    have := sum_set s.data j b' b hb
    simp only [List.sum_append, List.sum_cons, List.sum_nil]; omega
  · -- the checksum byte
    have hidx := (idx_last2 ([0xF0, s.manu, s.dev, s.model, 0x12, s.a0, s.a1, s.a2] ++ s.data) (checksum s) 0xF7).1
    have hlen : ([0xF0, s.manu, s.dev, s.model, 0x12, s.a0, s.a1, s.a2] ++ s.data ++ [checksum s, 0xF7]).length - 2
        = s.data.length + 8 := by simp only [List.length_append, List.length_cons, List.length_nil]; omega
    rw [hlen] at hidx
    unfold idx at hidx
    rw [hidx] at hb
    have hbc : checksum s = b := by simpa using hb
    have hset : ([0xF0, s.manu, s.dev, s.model, 0x12, s.a0, s.a1, s.a2] ++ s.data ++ [checksum s, 0xF7]).set (s.data.length + 8) b'
        = [0xF0, s.manu, s.dev, s.model, 0x12, s.a0, s.a1, s.a2] ++ s.data ++ [b', 0xF7] := by
      simp only [List.cons_append, List.nil_append, List.set_cons_succ]
      rw [List.set_append, if_neg (by omega)]
      simp
    rw [hset, parse_set _ _ _ _ _ _ _ _ _ hd]; apply verdict_bad; rw [checksum_set, ← hc, hbc]; exact hne

end Midi.Sysex
