package main

func p17GenMidicat(r *Rng, tier string, emit func(Case)) {}

func p17RunMidicat(c Case, m *Model) Verdict { return Verdict{} }
