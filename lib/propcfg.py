"""Per-property configuration of ./check (level, trusted base additions, assumptions)."""

TRUSTED_BASE = [
    "Lean 4.33.0 kernel (re-checked with leanchecker in the thorough tier)",
    "axioms reported by #print axioms for every property theorem: subset of {propext, Classical.choice, Quot.sound}",
    "hand-written Lean model, tied to the working tree by the correspondence run of this check (differential; bounded by the generators)",
    "Go harness /verif/harness, orchestrator /verif/check, canonicalisation rules",
]

HOOK_COMMITS = ["abe0821"]

import glob, json, os

# one file per claimed property: lib/props/<Cxx>.json with keys
#   level, text (level_claimed.text), note (level_note), technique (optional), assumptions [..], trusted [..] (optional),
#   aux_builds [{"dir": "harness_x", "name": "X"}] (optional extra Go binaries, path handed to the harness in $VERIF_AUX_X),
#   unclaimed: "<reason>" (optional: keeps the property under not_applicable)
PROPS = {}
for _f in sorted(glob.glob(os.path.join(os.path.dirname(os.path.abspath(__file__)), "props", "*.json"))):
    PROPS[os.path.basename(_f)[:-5]] = json.load(open(_f))
