import Proofs.LiveWireSpec
/-!
# An invariant of every reachable decoder state

Whatever bytes and ticks the decoder has seen: a running status always comes with its type nibble, and a first
data byte is pending only inside a channel or system common message. Hence every reachable state whose mode is
clean is a state "between messages" in the sense of `Clean`, with the running status the decoder holds.
-/
namespace Midi.LiveWire
open Midi.Live

def G1 (s : St) : Prop := s.status ≠ 0 → s.typ = s.status / 16
def G2 (s : St) : Prop := s.mode ≠ .chan → s.mode ≠ .sysc → s.pend = none
def Good (s : St) : Prop := G1 s ∧ G2 s

theorem withinChan_good (s : St) (b : Nat) (hm : s.mode = .chan) (h : G1 s) : Good (withinChan s b).1 := by
  unfold withinChan
  split
  · exact ⟨h, fun _ _ => rfl⟩
  · split
    · split
      · exact ⟨h, fun _ _ => rfl⟩
      · exact ⟨h, fun h1 _ => absurd hm h1⟩
    · exact ⟨h, fun h1 _ => absurd hm h1⟩

theorem syscStep_good (s : St) (b : Nat) (hm : s.mode = .sysc) (h : G1 s) : Good (syscStep s b).1 := by
  unfold syscStep
  split
  · exact ⟨h, fun _ _ => rfl⟩
  · split
    · split
      · exact ⟨h, fun _ _ => rfl⟩
      · exact ⟨h, fun _ h2 => absurd hm h2⟩
    · exact ⟨h, fun _ h2 => absurd hm h2⟩

theorem cleanState_good (s : St) (b : Nat) (_hm : s.mode = .clean) (h1 : G1 s) (h2 : s.pend = none) :
    Good (cleanState s b).1 := by
  unfold cleanState
  split
  · exact ⟨fun h => absurd rfl h, fun _ _ => h2⟩
  · split
    · exact ⟨fun h => absurd rfl h, fun _ _ => h2⟩
    · split
      · split
        · exact ⟨fun h => absurd rfl h, fun _ _ => rfl⟩
        · split
          · exact ⟨fun h => absurd rfl h, fun _ _ => rfl⟩
          · exact ⟨fun h => absurd rfl h, fun _ _ => rfl⟩
      · split
        · exact ⟨fun _ => rfl, fun _ _ => rfl⟩
        · split
          · exact withinChan_good _ b rfl h1
          · exact ⟨h1, fun _ _ => h2⟩

theorem sysexStep_good (c : Cfg) (s : St) (b : Nat) (h1 : G1 s) (h2 : s.pend = none) :
    Good (sysexStep c s b).1 := by
  unfold sysexStep
  split
  · exact ⟨fun h => absurd rfl h, fun _ _ => h2⟩
  · split
    · exact ⟨h1, fun _ _ => h2⟩
    · split
      · exact cleanState_good _ b rfl h1 h2
      · split
        · split
          · exact ⟨h1, fun _ _ => h2⟩
          · exact ⟨h1, fun _ _ => h2⟩
        · exact ⟨h1, fun _ _ => h2⟩

theorem step_good (c : Cfg) (s : St) (b : Nat) (h : Good s) : Good (step c s b).1 := by
  obtain ⟨h1, h2⟩ := h
  by_cases hrt : 0xF8 ≤ b
  · have : Good s := ⟨h1, h2⟩
    simpa [step, hrt] using this
  by_cases hst : 0x80 ≤ b
  · cases hm : s.mode with
    | clean =>
      have := cleanState_good s b hm h1 (h2 (by simp [hm]) (by simp [hm]))
      simpa [step, hrt, hm] using this
    | unknown =>
      have := cleanState_good { s with mode := .clean } b rfl h1 (h2 (by simp [hm]) (by simp [hm]))
      simpa [step, hrt, hst, hm] using this
    | sysex =>
      have := sysexStep_good c s b h1 (h2 (by simp [hm]) (by simp [hm]))
      simpa [step, hrt, hm] using this
    | chan =>
      have := cleanState_good { s with pend := none, mode := .clean } b rfl h1 rfl
      simpa [step, hrt, hst, hm] using this
    | sysc =>
      have := cleanState_good { s with pend := none, mode := .clean } b rfl h1 rfl
      simpa [step, hrt, hst, hm] using this
  · cases hm : s.mode with
    | clean =>
      have := cleanState_good s b hm h1 (h2 (by simp [hm]) (by simp [hm]))
      simpa [step, hrt, hst, hm] using this
    | unknown =>
      have : Good s := ⟨h1, h2⟩
      simpa [step, hrt, hst, hm] using this
    | sysex =>
      have := sysexStep_good c s b h1 (h2 (by simp [hm]) (by simp [hm]))
      simpa [step, hrt, hst, hm] using this
    | chan => simpa [step, hrt, hst, hm] using withinChan_good s b hm h1
    | sysc => simpa [step, hrt, hst, hm] using syscStep_good s b hm h1

theorem feed_good (c : Cfg) (toks : List Tok) : ∀ s : St, Good s → Good (feed c s toks).1 := by
  induction toks with
  | nil => intro s h; exact h
  | cons x r ih =>
    intro s h
    rw [feed_cons]
    cases x with
    | byte b => exact ih _ (step_good c s b h)
    | tick d => exact ih _ h

theorem good_init : Good init := ⟨fun h => absurd rfl h, fun _ _ => rfl⟩

/-- every reachable state whose mode is clean is a state between messages -/
theorem reachable_clean (c : Cfg) (g : List Tok) (hm : (feed c init g).1.mode = .clean) :
    Clean (feed c init g).1 (feed c init g).1.status (tickSum g) := by
  obtain ⟨h1, h2⟩ := feed_good c g init good_init
  refine ⟨hm, rfl, ?_, h1, fun _ => h2 (by simp [hm]) (by simp [hm])⟩
  rw [feed_ts]; simp [init]

end Midi.LiveWire
