import MidiModel.Generated.StateShape
import Proofs.StateShapeExpected
/-!
# C13, tie to the source: the state the code keeps has the shape the model assumes

`MidiModel/Generated/StateShape.lean` is regenerated from the working tree on every run (`tools/stateshape`, go/types):
every package-level variable with its type, every struct with its fields, and which package-level variables each
function mentions. The models of this property treat the functions of these packages as functions of their arguments
and of exactly these fields. A new cache, pool, table or field is new state the model does not have: the comparison
below then fails and the check reports that the property is no longer shown to hold (after searching for a failing
input). `Proofs/StateShapeExpected.lean` is the committed shape of the validated tree.
-/
namespace Midi.C13
theorem code_state_shape_smf : Midi.StateShape.smf = Midi.StateShapeExpected.smf := rfl
theorem code_state_shape_root : Midi.StateShape.root = Midi.StateShapeExpected.root := rfl
theorem code_state_shape_drivers : Midi.StateShape.drivers = Midi.StateShapeExpected.drivers := rfl
theorem code_state_shape_drivers_testdrv : Midi.StateShape.drivers_testdrv = Midi.StateShapeExpected.drivers_testdrv := rfl
end Midi.C13
