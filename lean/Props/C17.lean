import Proofs.Ports
import MidiModel.Generated.Facts
/-!
# C17 — ports deliver exactly while listening, for every order of lifecycle calls

Model: `MidiModel/Ports.lean`.  `St` is the in-memory loop-back driver `drivers/testdrv` as the code is now,
`Spec` the port contract (deliver iff the out port is open and a listener is active, port-closed error on a
closed out port, a stop function ends its listener, listening again works, open/close idempotent),
`ProtocolOK` the protocol of DESIGN §8 (one active listener at a time, listen on an open port, stop before
close, no stale stop function while a later listener is active).  Callbacks of the test driver run inside
`Send`, so "after the stop function returned" is "in every later call of the history".

The process-backed driver `drivers/midicatdrv` cannot be modelled as a function (goroutines, a helper
process): for it only the lock discipline is proved, over the control paths `tools/extract/lockpaths.go` reads
from the source on every run (`lockpaths_ok`); races, blocking and the helper process are exercised by
`harness_midicat` (support level, see `lib/props/C17.json`).
-/
namespace Midi.C17
open Midi Midi.Ports

/-- For every protocol-respecting history the test driver shows, call by call, exactly what the contract
    prescribes — the result class of every call, the listener callbacks made during it (which listener, which
    message, how often, in which order) and `IsOpen()` of both ports — and ends in the state the contract ends
    in.  In particular a message sent while the out port is open and a listener is active reaches that
    listener exactly once, and one sent with no active listener is dropped with result `ok`. -/
theorem testdrv_refines_spec (ops : List Op) (h : ProtocolOK ops) :
    St.trace St.init ops = Spec.trace Spec.init ops ∧
    abs (St.final St.init ops) = Spec.final Spec.init ops :=
  trace_refines St.init ops h

/-- a non-trivial history that respects the protocol: deliveries, a send without listener, stopping twice,
    listening again, a stale stop function once nobody listens, send on a closed port, double open/close -/
def sampleHistory : List Op :=
  [.openOut, .send 1, .openIn, .openIn, .listen, .send 2, .send 3, .stop 0, .stop 0, .send 4, .listen,
   .send 5, .closeOut, .send 6, .stop 1, .stop 0, .closeIn, .closeIn, .closeOut, .openIn, .listen, .openOut, .send 7]

example : ProtocolOK sampleHistory := by decide

/-- … and on it the executable models say: 2, 3 to listener 0; 5 to listener 1; 7 to listener 2; 6 is refused -/
example : (St.trace St.init sampleHistory).map (fun o => (o.res, o.calls)) =
    [(.ok, []), (.ok, []), (.ok, []), (.ok, []), (.ok, []), (.ok, [(0, 2)]), (.ok, [(0, 3)]), (.ok, []),
     (.ok, []), (.ok, []), (.ok, []), (.ok, [(1, 5)]), (.ok, []), (.closed, []), (.ok, []), (.ok, []),
     (.ok, []), (.ok, []), (.ok, []), (.ok, []), (.ok, []), (.ok, []), (.ok, [(2, 7)])] := by decide

/-- each clause of the protocol is needed: outside it the test driver and the contract part ways
    (listening on a closed port; closing while listening; the stale stop function of an earlier listener) -/
example : St.trace St.init [.openOut, .listen, .send 1] ≠ Spec.trace Spec.init [.openOut, .listen, .send 1] := by
  decide
example : St.trace St.init [.openOut, .openIn, .listen, .closeIn, .send 1]
    ≠ Spec.trace Spec.init [.openOut, .openIn, .listen, .closeIn, .send 1] := by decide
example : St.trace St.init [.openOut, .openIn, .listen, .stop 0, .listen, .stop 0, .send 1]
    ≠ Spec.trace Spec.init [.openOut, .openIn, .listen, .stop 0, .listen, .stop 0, .send 1] := by decide

/-- Open and close are idempotent, in every state (hence after every history, protocol-respecting or not):
    each of the four calls returns `ok`, makes no callback, leaves the port's `IsOpen()` as requested, and a
    second identical call changes nothing. -/
theorem open_close_idempotent (s : St) :
    (∀ op, op = Op.openIn ∨ op = Op.openOut ∨ op = Op.closeIn ∨ op = Op.closeOut →
      (s.exec op).2.res = .ok ∧ (s.exec op).2.calls = [] ∧
      (s.exec op).1.exec op = ((s.exec op).1, (s.exec op).2)) ∧
    (s.exec .openIn).1.inOpen = true ∧ (s.exec .closeIn).1.inOpen = false ∧
    (s.exec .openOut).1.outOpen = true ∧ (s.exec .closeOut).1.outOpen = false := by
  refine ⟨?_, rfl, rfl, rfl, rfl⟩
  intro op hop
  rcases hop with rfl | rfl | rfl | rfl <;> exact ⟨rfl, rfl, rfl⟩

/-- `Send` after any history whose last out-port open/close call is not an open (or that has none) returns
    the port-closed error, calls no listener and changes nothing. -/
theorem send_closed_err (pre : List Op) (n : Nat) (h : outOpenAfter pre = false) :
    (St.final St.init pre).exec (.send n) =
      (St.final St.init pre, ⟨.closed, [], (St.final St.init pre).inOpen, false⟩) := by
  have ho : (St.final St.init pre).outOpen = false := by
    rw [lastOutCall_final]
    simp only [outOpenAfter] at h
    cases hl : lastOutCall pre with
    | none => rfl
    | some b => cases b <;> simp_all
  simp [St.exec, St.step, ho]

example : outOpenAfter [.openOut, .openIn, .listen, .send 1, .closeOut, .closeOut, .openIn] = false := by decide

/-- After the `k`-th stop function has returned, listener `k` is never called again, whatever calls follow
    (any history before, any history after — no protocol assumption). -/
theorem no_call_after_stop (pre post : List Op) (k : Nat) (hk : k < countListens pre) :
    ∀ o ∈ St.trace (St.final St.init (pre ++ [.stop k])) post, ∀ c ∈ o.calls, c.1 ≠ k := by
  apply dead_trace
  have hl : (St.final St.init pre).listens = countListens pre := by
    rw [listens_final]; exact Nat.zero_add _
  rw [St.final_append]
  simp only [St.final, St.exec, St.step]
  rw [if_pos (by omega)]
  exact ⟨Or.inl rfl, by simp only []; omega⟩

/-- the trace of the part after the stop call is the tail of the whole trace -/
theorem trace_split (pre post : List Op) (k : Nat) :
    St.trace St.init (pre ++ [.stop k] ++ post) =
      St.trace St.init (pre ++ [.stop k]) ++ St.trace (St.final St.init (pre ++ [.stop k])) post :=
  St.trace_append _ _ _

example : 0 < countListens [.openIn, .openOut, .listen, .send 1] := by decide

/-- Listening again works: after any history that leaves the out port open, `stop; Listen; Send n` delivers
    `n` exactly once, to the new listener (and to nobody else). -/
theorem relisten_works (pre : List Op) (k n : Nat) (h : outOpenAfter pre = true) :
    (St.trace (St.final St.init pre) [.stop k, .listen, .send n]).getLast? =
      some ⟨.ok, [(countListens pre, n)], (St.final St.init pre).inOpen, true⟩ := by
  have ho : (St.final St.init pre).outOpen = true := by
    rw [lastOutCall_final]
    simp only [outOpenAfter] at h
    cases hl : lastOutCall pre with
    | none => simp [hl] at h
    | some b => cases b <;> simp_all
  have hl : (St.final St.init pre).listens = countListens pre := by
    rw [listens_final]; exact Nat.zero_add _
  generalize St.final St.init pre = s at *
  obtain ⟨i, o, rd, st, m⟩ := s
  simp only at ho hl
  subst ho hl
  simp only [St.trace, St.exec, St.step]
  split <;> simp

example : outOpenAfter [.openOut, .openIn, .listen, .send 1] = true := by decide

/-! ## process-backed driver: lock discipline of `drivers/midicatdrv/{in,out}.go` as the source is now -/

/-- Every control path of every method and function literal of the process-backed ports is well nested:
    it never locks (or read-locks) a mutex it holds, never unlocks one it does not hold that way, never calls
    a method of the same port that takes a mutex held at the call, and holds nothing when it returns.  The
    table is re-read from the source on every run; `decide` evaluates the checker on the complete table
    (restoring the inner `o.Lock()` of DESIGN §7-16 in `fireCmd`'s start-failure path makes this fail). -/
theorem lockpaths_ok : checkAll Facts.lockPaths = true := by decide

/-- the table is not vacuous: both `fireCmd`s are in it with at least three paths each that take the port
    mutex (already running / helper cannot be started / started), and the checker does reject the double
    lock of §7-16 (Lock, Lock, Unlock, return) -/
theorem lockpaths_cover :
    3 ≤ lockingPaths Facts.lockPaths Facts.lockPathsInFireCmd ∧
    3 ≤ lockingPaths Facts.lockPaths Facts.lockPathsOutFireCmd := by decide

example : checkPath [] [] [(0, 0), (0, 0), (1, 0), (5, 0)] = false := by decide
example : checkPath [] [] [(0, 0), (5, 0)] = false := by decide
example : checkPath [] [] [(1, 0), (5, 0)] = false := by decide
/-- calling a method that read-locks the port mutex while holding it -/
example : checkAll [(0, [[(0, 0), (4, 1), (1, 0), (5, 0)]]), (1, [[(2, 0), (3, 0), (5, 0)]])] = false := by decide

end Midi.C17
