import Proofs.Convert
/-!
# The result of `convert` in closed form, and what each result track carries
-/
namespace Midi.Convert
open Midi.Smf

/-- what the first loop leaves in `metaTrack` / `channelTracks[c]` -/
def metaOf (t : Track) : List TE := (absList 0 t).filter (fun te => getChannel te.msg == none)
def chanOf (t : Track) (c : Nat) : List TE := (absList 0 t).filter (fun te => getChannel te.msg == some c)

theorem absList_msgs (a : Nat) (t : Track) : (absList a t).map (·.msg) = t.map (·.msg) := by
  induction t generalizing a with
  | nil => rfl
  | cons e r ih => simp [absList, ih]

theorem filter_absList_nonempty (q : Msg → Bool) (a : Nat) (t : Track) :
    decide (((absList a t).filter (fun te => q te.msg)).length > 0) = t.any (fun e => q e.msg) := by
  induction t generalizing a with
  | nil => simp [absList]
  | cons e r ih =>
    simp only [absList, List.filter_cons, List.any_cons]
    cases hq : q e.msg with
    | true => simp
    | false => simpa using ih (a + e.delta)

/-- the conversion of a file of the domain, in closed form -/
theorem convert_shape (f : File) (t : Track) (h : Dom f t) :
    convert f = .ok ⟨1, f.tf, mkTrack (metaOf t) :: (channelsOf t).map (fun c => mkTrack (chanOf t c))⟩ := by
  have ht := h.ticks63
  unfold convert
  rw [if_neg h.fmt, h.single]
  simp only
  rw [if_neg (by omega)]
  have hfil : List.filter (fun l => decide (l.length > 0))
      (List.map (fun c => List.filter (fun te => getChannel te.msg == some c) (absList 0 t)) (List.range 16))
      = (channelsOf t).map (chanOf t) := by
    rw [List.filter_map]
    show List.map (chanOf t) _ = _
    congr 1
    unfold channelsOf
    apply List.filter_congr
    intro c _
    exact filter_absList_nonempty (fun m => getChannel m == some c) 0 t
  rw [splitLoop_meta, splitLoop_empty_chans, chanLoop_eq _ _ (by simp [File.addTrack]), hfil, List.map_map]
  simp only [File.addTrack, Buckets.empty, List.nil_append]
  have hf : ∀ x : Track, (if [x].length > 1 ∧ (1 : Nat) = 0 then 1 else 1) = 1 := by intro x; simp
  show Res.ok ⟨_, f.tf, [mkTrack (metaOf t)] ++ List.map (mkTrack ∘ chanOf t) (channelsOf t)⟩ = _
  rw [hf]
  rfl

/-! ## no early end-of-track in the buckets -/

theorem noEarly_metaOf (t : Track) (h : EOTOnlyLast t) : NoEarlyEOT (metaOf t) := by
  intro te hte
  have h1 : te ∈ (absList 0 t).dropLast := mem_dropLast_filter _ _ _ hte
  have h2 : te.msg ∈ ((absList 0 t).map (·.msg)).dropLast := by
    rw [← List.map_dropLast]; exact List.mem_map_of_mem h1
  rw [absList_msgs, ← List.map_dropLast] at h2
  obtain ⟨e, he, hm⟩ := List.mem_map.1 h2
  rw [← hm]; exact h e he

theorem noEarly_chanOf (t : Track) (c : Nat) : NoEarlyEOT (chanOf t c) := by
  intro te hte
  have h1 := (List.mem_filter.1 ((List.dropLast_sublist _).subset hte)).2
  intro hm
  rw [hm, getChannel_EOT] at h1
  cases h1

/-! ## payload of the source and of the result tracks -/

theorem payload_src (t : Track) :
    payload t = ((absList 0 t).map TE.pair).filter (fun p => p.2 != EOT) := by
  simp [payload, timed, timedFrom_eq]

theorem payload_bucket (t : Track) (sel : Nat × Msg → Bool) (hg : Gaps 0 ((absList 0 t).filter (sel ∘ TE.pair)))
    (hn : NoEarlyEOT ((absList 0 t).filter (sel ∘ TE.pair))) :
    payload (mkTrack ((absList 0 t).filter (sel ∘ TE.pair))) = (payload t).filter sel := by
  rw [payload_mkTrack _ hg hn, payload_src, ← List.filter_map, List.filter_filter, List.filter_filter]
  apply List.filter_congr
  intro x _
  exact Bool.and_comm _ _

theorem payload_meta (t : Track) (hg : Gaps 0 (metaOf t)) (he : EOTOnlyLast t) :
    payload (mkTrack (metaOf t)) = (payload t).filter offChan :=
  payload_bucket t offChan hg (noEarly_metaOf t he)

theorem payload_chan (t : Track) (c : Nat) (hg : Gaps 0 (chanOf t c)) :
    payload (mkTrack (chanOf t c)) = (payload t).filter (onChan c) :=
  payload_bucket t (onChan c) hg (noEarly_chanOf t c)

theorem pairs_filter (t : Track) (sel : Nat × Msg → Bool) :
    ((absList 0 t).filter (sel ∘ TE.pair)).map TE.pair = (timed t).filter sel := by
  simp only [timed, timedFrom_eq]
  rw [List.filter_map]

theorem Dom.gaps_metaOf {f : File} {t : Track} (h : Dom f t) : Gaps 0 (metaOf t) := by
  rw [gaps_iff_gapsP]
  have := pairs_filter t offChan
  rw [show metaOf t = (absList 0 t).filter (offChan ∘ TE.pair) from rfl, this]
  exact h.gapsMeta

theorem Dom.gaps_chanOf {f : File} {t : Track} (h : Dom f t) (c : Nat) : Gaps 0 (chanOf t c) := by
  rw [gaps_iff_gapsP]
  have := pairs_filter t (onChan c)
  rw [show chanOf t c = (absList 0 t).filter (onChan c ∘ TE.pair) from rfl, this]
  exact h.gapsChan c

/-- the old, stronger domain: a source shorter than `2^32` ticks has small gaps on every result track -/
theorem gaps_of_total (t : Track) (q : TE → Bool) (ht : totalTicks t < 4294967296) :
    Gaps 0 ((absList 0 t).filter q) := by
  have hw : Within 0 (totalTicks t) ((absList 0 t).filter q) := by
    have := within_absList 0 t
    rw [Nat.zero_add] at this
    exact this.filter _
  exact gaps_of_within 0 _ _ hw (by omega)

/-! ## nothing lost, nothing duplicated -/

theorem flatMap_congr' {α β} {l : List β} {f g : β → List α} (h : ∀ x ∈ l, f x = g x) :
    l.flatMap f = l.flatMap g := by
  induction l with
  | nil => rfl
  | cons a r ih =>
    simp only [List.flatMap_cons]
    rw [h a (by simp), ih (fun x hx => h x (List.mem_cons_of_mem _ hx))]

theorem flatMap_filter_of_nil {α β} (l : List β) (f : β → List α) (p : β → Bool)
    (h : ∀ x ∈ l, p x = false → f x = []) : (l.filter p).flatMap f = l.flatMap f := by
  induction l with
  | nil => rfl
  | cons a r ih =>
    have ih' := ih (fun x hx => h x (List.mem_cons_of_mem _ hx))
    rw [List.filter_cons]
    cases hp : p a with
    | true => simp [ih']
    | false => simp [ih', h a (by simp) hp]

/-- splitting a list by a classifier with values in `cs` (and `none`) loses and duplicates nothing -/
theorem partition_perm {α} (k : α → Option Nat) (cs : List Nat) (hnd : cs.Nodup) (l : List α)
    (hk : ∀ x ∈ l, ∀ c, k x = some c → c ∈ cs) :
    l.Perm (l.filter (fun x => k x == none) ++ cs.flatMap (fun c => l.filter (fun x => k x == some c))) := by
  induction cs generalizing l with
  | nil =>
    have : l.filter (fun x => k x == none) = l := by
      apply List.filter_eq_self.2
      intro x hx
      cases hkx : k x with
      | none => rfl
      | some c => exact absurd (hk x hx c hkx) (by simp)
    rw [this]; simp
  | cons c cs ih =>
    have hc : c ∉ cs := (List.nodup_cons.1 hnd).1
    let p : α → Bool := fun x => k x == some c
    have hk' : ∀ x ∈ l.filter (fun x => !p x), ∀ c', k x = some c' → c' ∈ cs := by
      intro x hx c' hc'
      obtain ⟨hxl, hpx⟩ := List.mem_filter.1 hx
      have := hk x hxl c' hc'
      rcases List.mem_cons.1 this with rfl | h
      · simp [p, hc'] at hpx
      · exact h
    have ih' := ih (List.nodup_cons.1 hnd).2 (l.filter (fun x => !p x)) hk'
    have e1 : (l.filter (fun x => !p x)).filter (fun x => k x == none) = l.filter (fun x => k x == none) := by
      rw [List.filter_filter]
      apply List.filter_congr
      intro x _
      cases hkx : k x <;> simp [p, hkx]
    have e2 : cs.flatMap (fun c' => (l.filter (fun x => !p x)).filter (fun x => k x == some c'))
        = cs.flatMap (fun c' => l.filter (fun x => k x == some c')) := by
      apply flatMap_congr'
      intro c' hc'
      rw [List.filter_filter]
      apply List.filter_congr
      intro x _
      have hne : c' ≠ c := fun e => hc (e ▸ hc')
      cases hkx : k x with
      | none => simp
      | some d =>
        by_cases hd : d = c'
        · subst hd; simp [p, hkx, hne]
        · simp [hd]
    rw [e1, e2] at ih'
    have s1 : l.Perm (l.filter p ++ l.filter (fun x => !p x)) := (List.filter_append_perm p l).symm
    refine s1.trans ?_
    refine (List.Perm.append_left _ ih').trans ?_
    simp only [List.flatMap_cons]
    rw [← List.append_assoc, ← List.append_assoc]
    exact List.Perm.append_right _ List.perm_append_comm

theorem mem_timedFrom (a : Nat) (t : Track) (p : Nat × Msg) (h : p ∈ timedFrom a t) :
    ∃ e ∈ t, e.msg = p.2 := by
  induction t generalizing a with
  | nil => simp [timedFrom] at h
  | cons e r ih =>
    simp only [timedFrom, List.mem_cons] at h
    rcases h with rfl | h
    · exact ⟨e, by simp, rfl⟩
    · obtain ⟨e', he', hm⟩ := ih _ h
      exact ⟨e', List.mem_cons_of_mem _ he', hm⟩

theorem payload_partition (t : Track) :
    (payload t).Perm ((payload t).filter offChan ++
      (channelsOf t).flatMap (fun c => (payload t).filter (onChan c))) := by
  have h := partition_perm (fun p : Nat × Msg => getChannel p.2) (List.range 16) List.nodup_range
    (payload t) (fun x _ c hc => List.mem_range.2 (getChannel_lt _ _ hc))
  refine h.trans ?_
  apply List.Perm.append_left
  have : (channelsOf t).flatMap (fun c => (payload t).filter (onChan c))
      = (List.range 16).flatMap (fun c => (payload t).filter (onChan c)) := by
    unfold channelsOf
    apply flatMap_filter_of_nil
    intro c _ hc
    apply List.filter_eq_nil_iff.2
    intro p hp hon
    obtain ⟨e, he, hm⟩ := mem_timedFrom 0 t p (List.mem_filter.1 hp).1
    have : (t.any fun e => getChannel e.msg == some c) = true :=
      List.any_eq_true.2 ⟨e, he, by rw [hm]; exact hon⟩
    rw [this] at hc; cases hc
  rw [this]
  exact List.Perm.refl _

/-! ## the source's own end-of-track -/

theorem absList_append (a : Nat) (t u : Track) :
    absList a (t ++ u) = absList a t ++ absList (a + totalTicks t) u := by
  induction t generalizing a with
  | nil => simp [absList, totalTicks]
  | cons e r ih => simp [absList, ih, totalTicks_cons, Nat.add_assoc]

theorem totalTicks_append (t u : Track) : totalTicks (t ++ u) = totalTicks t + totalTicks u := by
  simp [totalTicks]

/-- the domain as it was stated before (DESIGN §8): a source shorter than `2^32` ticks, whatever its events -/
theorem Dom.ofTotal {f : File} {t : Track} (hs : f.tracks = [t]) (hf : f.format ≠ 1)
    (ht : totalTicks t < 4294967296) (he : EOTOnlyLast t) : Dom f t := by
  refine ⟨hs, hf, by omega, ?_, ?_, he⟩
  · rw [← pairs_filter t offChan, ← gaps_iff_gapsP]; exact gaps_of_total t _ ht
  · intro c; rw [← pairs_filter t (onChan c), ← gaps_iff_gapsP]; exact gaps_of_total t _ ht

/-- no event of a track is on a channel ≥ 16 -/
theorem filter_onChan_ge16 (l : List (Nat × Msg)) (c : Nat) (h : 16 ≤ c) : l.filter (onChan c) = [] := by
  apply List.filter_eq_nil_iff.2
  intro p _ hp
  have : getChannel p.2 = some c := by simpa [onChan] using hp
  have := getChannel_lt _ _ this
  omega

/-- the channel part of the domain is a finite condition -/
theorem gapsChan_of_first16 (t : Track) (h : ∀ c ∈ List.range 16, GapsP 0 ((timed t).filter (onChan c))) :
    ∀ c, GapsP 0 ((timed t).filter (onChan c)) := by
  intro c
  by_cases hc : c < 16
  · exact h c (List.mem_range.2 hc)
  · rw [filter_onChan_ge16 _ _ (by omega)]; trivial

/-- a closed source: its end-of-track event arrives on the first result track at its own absolute tick
    (the length of the track is preserved) -/
theorem timed_meta_closed (t : Track) (hg : Gaps 0 (metaOf t)) (he : EOTOnlyLast t)
    (hc : t.isClosed = true) :
    (timed (mkTrack (metaOf t))).getLast? = some (totalTicks t, EOT) := by
  have hn := noEarly_metaOf t he
  -- the source ends with its end-of-track
  obtain ⟨init, e, rfl, hmsg⟩ : ∃ init e, t = init ++ [e] ∧ e.msg = EOT := by
    unfold Track.isClosed at hc
    cases hl : t.getLast? with
    | none => rw [hl] at hc; cases hc
    | some e =>
      rw [hl] at hc
      obtain ⟨ys, rfl⟩ := List.getLast?_eq_some_iff.1 hl
      exact ⟨ys, e, rfl, by simpa using hc⟩
  have hmeta : metaOf (init ++ [e]) =
      (absList 0 init).filter (fun te => getChannel te.msg == none) ++ [⟨totalTicks (init ++ [e]), EOT⟩] := by
    simp [metaOf, absList_append, absList, List.filter_append, hmsg, getChannel_EOT, totalTicks]
  unfold mkTrack
  rw [rebuild_eq [] 0 _ rfl hn, List.nil_append]
  have hclosed : Track.isClosed (deltas 0 (metaOf (init ++ [e]))) = true := by
    unfold Track.isClosed
    have : (deltas 0 (metaOf (init ++ [e]))).getLast?.map (·.msg) = some EOT := by
      rw [← List.getLast?_map, deltas_msgs, hmeta]
      simp
    cases hl : (deltas 0 (metaOf (init ++ [e]))).getLast? with
    | none => rw [hl] at this; cases this
    | some x => rw [hl] at this; simp at this; simp [this]
  simp only [Track.close, hclosed, if_true, timed]
  rw [timedFrom_deltas_gaps 0 _ hg, hmeta]
  simp [TE.pair]

end Midi.Convert
