import MidiModel.Msg
/-! Helper lemmas about the message layer (`MidiModel/Msg.lean`) for C07 and C08. -/
namespace Midi.Msg

/-! ## bit helpers as arithmetic -/

theorem parseStatus_eq : ∀ b < 256, parseStatus b = (b / 16, b % 16) := by decide +kernel

theorem parseUint7_eq (b : Nat) : parseUint7 b = b % 128 := by
  simp only [parseUint7]; exact Nat.and_two_pow_sub_one_eq_mod b 7

theorem and7f (b : Nat) : b &&& 0x7f = b % 128 := Nat.and_two_pow_sub_one_eq_mod b 7

theorem getCompleteStatus_eq : ∀ st < 16, ∀ c < 16, getCompleteStatus st c = st * 16 + c := by decide +kernel

theorem clampHi_eq (x hi : Nat) : clampHi x hi = min x hi := by
  unfold clampHi; split <;> omega

theorem clampPitch_eq (v : Int) : clampPitch v = max (-8192) (min v 8191) := by
  simp only [clampPitch]; split <;> split <;> omega

theorem clearBit7_low : ∀ lo < 128, clearBitU16 (lo * 256) 7 = lo * 256 := by decide +kernel

/-- `MsbLsbUnsigned` puts the low 7 bits into the high byte and the high 7 bits into the low byte -/
theorem msbLsbUnsigned_eq (u : Nat) (h : u < 16384) : msbLsbUnsigned u = some (u % 128 * 256 + u / 128) := by
  unfold msbLsbUnsigned
  rw [if_neg (by omega)]
  have c15 : ∀ x, clearBitU16 x 15 = x % 32768 := by
    intro x; exact Nat.and_two_pow_sub_one_eq_mod x 15
  have hm : 0x7f &&& (u >>> 7) = u / 128 := by
    rw [Nat.and_comm, Nat.shiftRight_eq_div_pow]
    have := Nat.and_two_pow_sub_one_eq_mod (u / 2 ^ 7) 7
    simp only [Nat.reducePow, Nat.add_one_sub_one] at this ⊢
    rw [this]; omega
  simp only [c15, hm, Nat.shiftLeft_eq, Nat.reducePow]
  have : u * 256 % 65536 % 32768 = u % 128 * 256 := by omega
  rw [this, clearBit7_low _ (by omega)]
  have := Nat.shiftLeft_add_eq_or_of_lt (i := 8) (b := u / 128) (by omega) (u % 128)
  simp only [Nat.shiftLeft_eq, Nat.reducePow] at this
  rw [← this]

theorem msbLsbSigned_eq (cv : Int) (h1 : -8192 ≤ cv) (h2 : cv ≤ 8191) :
    msbLsbSigned cv = some ((cv + 8192).toNat % 128 * 256 + (cv + 8192).toNat / 128) := by
  unfold msbLsbSigned
  have : ((cv + 8192 + 32768) % 65536 - 32768) % 65536 = cv + 8192 := by omega
  simp only [this]
  exact msbLsbUnsigned_eq _ (by omega)

theorem swap_bytes (u : Nat) (hu : u < 16384) :
    (u % 128 * 256 + u / 128) / 256 % 256 = u % 128 ∧ (u % 128 * 256 + u / 128) % 256 = u / 128 := by
  have h1 : u / 128 < 128 := by omega
  have h2 : u % 128 < 128 := by omega
  generalize u / 128 = hi at *
  generalize u % 128 = lo at *
  omega

/-- `ParsePitchWheelVals` for arbitrary bytes: 14-bit value, least significant 7 bits in `b1` -/
theorem parsePitchWheelVals_eq (b1 b2 : Nat) :
    parsePitchWheelVals b1 b2 = (((b2 % 128 * 128 + b1 % 128 : Nat) : Int) - 8192, b2 % 128 * 128 + b1 % 128) := by
  unfold parsePitchWheelVals
  simp only [and7f]
  have h := Nat.shiftLeft_add_eq_or_of_lt (i := 7) (b := b1 % 128) (by omega) (b2 % 128)
  simp only [Nat.shiftLeft_eq, Nat.reducePow] at h ⊢
  have h2 : b2 % 128 * 128 % 65536 = b2 % 128 * 128 := by omega
  rw [h2, ← h]
  have hlt : b2 % 128 * 128 + b1 % 128 < 32768 := by omega
  simp only [hlt, if_true]
  generalize b2 % 128 * 128 + b1 % 128 = x at hlt
  congr 1
  omega

/-! ## `Type.Is` -/

theorem typeIs_specific (t T : Int) (hT : 0 < T) : typeIs t T = true ↔ t = T := by
  unfold typeIs
  simp only [UnknownMsg, SysExMsg]
  split
  · simp; omega
  · split
    · simp; omega
    · split
      · simp; omega
      · split
        · omega
        · simp

theorem typeIs_sysex (t : Int) : typeIs t SysExMsg = true ↔ t = SysExMsg := by
  unfold typeIs
  simp only [UnknownMsg, SysExMsg, RealTimeMsg, SysCommonMsg, ChannelMsg, MetaMsg]
  split
  · simp; omega
  · split
    · simp [*]
    · split
      · simp; omega
      · simp; omega

/-- a type-specific accessor type: positive, or `SysExMsg` -/
def Specific (T : Int) : Prop := 0 < T ∨ T = SysExMsg

theorem typeIs_of_specific (t T : Int) (hT : Specific T) : typeIs t T = true ↔ t = T := by
  rcases hT with h | h
  · exact typeIs_specific t T h
  · subst h; exact typeIs_sysex t

/-! ## `getType` -/

@[simp] theorem getType_nil : getType [] = some UnknownMsg := rfl
@[simp] theorem getType_cons (b : Nat) (r : Bytes) : getType (b :: r) = some (typeOfStatus b) := by
  simp [getType]

theorem getType_total (m : Bytes) : ∃ t, getType m = some t := by
  cases m <;> simp

@[simp] theorem smfIsMeta_nil : smfIsMeta [] = some false := rfl
@[simp] theorem smfIsMeta_cons (b : Nat) (r : Bytes) : smfIsMeta (b :: r) = some (decide (b = 0xFF)) := by
  simp [smfIsMeta]

theorem smfIsMeta_total (m : Bytes) : ∃ t, smfIsMeta m = some t := by
  cases m <;> simp

@[simp] theorem smfGetType_nil : smfGetType [] = some UnknownMsg := rfl
@[simp] theorem smfGetType_ff : smfGetType [0xFF] = some UnknownMsg := by decide
@[simp] theorem smfGetType_meta (b : Nat) (r : Bytes) : smfGetType (0xFF :: b :: r) = some (getMetaType b) := by
  simp [smfGetType]
theorem smfGetType_plain (b : Nat) (r : Bytes) (h : b ≠ 0xFF) : smfGetType (b :: r) = some (typeOfStatus b) := by
  simp [smfGetType, h]

theorem smfGetType_total (m : Bytes) : ∃ t, smfGetType m = some t := by
  rcases m with _ | ⟨b, _ | ⟨c, r⟩⟩
  · simp
  · by_cases h : b = 0xFF
    · subst h; simp
    · simp [smfGetType_plain _ _ h]
  · by_cases h : b = 0xFF
    · subst h; simp
    · simp [smfGetType_plain _ _ h]

theorem typeOf_total (v : View) (m : Bytes) : ∃ t, typeOf v m = some t := by
  cases v
  · exact getType_total m
  · exact smfGetType_total m

theorem msgIs_eq (v : View) (m : Bytes) (T : Int) :
    ∃ t, typeOf v m = some t ∧ msgIs v m T = some (typeIs t T) := by
  obtain ⟨t, ht⟩ := typeOf_total v m
  exact ⟨t, ht, by simp [msgIs, ht]⟩

theorem msgIs_ne_none (v : View) (m : Bytes) (T : Int) : msgIs v m T ≠ none := by
  obtain ⟨t, _, h⟩ := msgIs_eq v m T
  simp [h]

/-- `Is(T)` for a type-specific `T` holds exactly if `T` is the reported type -/
theorem msgIs_true_iff (v : View) (m : Bytes) (T : Int) (hT : Specific T) :
    msgIs v m T = some true ↔ typeOf v m = some T := by
  obtain ⟨t, ht, h⟩ := msgIs_eq v m T
  rw [h, ht]
  simp only [Option.some.injEq]
  exact typeIs_of_specific t T hT

theorem isOneOf_ne_none (v : View) (m : Bytes) (cs : List Int) : isOneOf v m cs ≠ none := by
  induction cs with
  | nil => simp [isOneOf]
  | cons c cs ih =>
    unfold isOneOf
    obtain ⟨t, _, h⟩ := msgIs_eq v m c
    rw [h]
    cases typeIs t c <;> simp [ih]

theorem isPlayable_ne_none (m : Bytes) : isPlayable m ≠ none := by
  obtain ⟨t, ht⟩ := getType_total m
  unfold isPlayable
  rw [ht]
  simp only
  split <;> simp

theorem smfIsPlayable_ne_none (m : Bytes) : smfIsPlayable m ≠ none := by
  obtain ⟨t, ht⟩ := smfGetType_total m
  obtain ⟨b, hb⟩ := smfIsMeta_total m
  unfold smfIsPlayable
  rw [hb, ht]
  cases b <;> simp only
  · split <;> simp
  · simp

/-- the first byte is not `0xFF` whenever `midi.Message` reports a type other than Reset, and then
    `smf.Message` reports the same type -/
theorem smfGetType_of_getType (m : Bytes) (T : Int) (h : getType m = some T) (hT : T ≠ ResetMsg) :
    smfGetType m = some T := by
  cases m with
  | nil => simpa using h
  | cons b r =>
    by_cases hb : b = 0xFF
    · subst hb
      simp only [getType_cons, Option.some.injEq] at h
      exact absurd h.symm (by
        have : typeOfStatus 0xFF = ResetMsg := by decide
        rw [this]; exact hT)
    · rw [smfGetType_plain _ _ hb]; simpa using h

/-! ## accessors: accept ⇒ `Is(T)`, and no panic -/

theorem get3_is {T : Int} {m : Bytes} (h : (get3 T m).accepts = true) : msgIs .midi m T = some true := by
  unfold get3 at h; split at h <;> simp_all [Res.accepts]

theorem get2_is {T : Int} {m : Bytes} (h : (get2 T m).accepts = true) : msgIs .midi m T = some true := by
  unfold get2 at h; split at h <;> simp_all [Res.accepts]

theorem get1_is {T : Int} {m : Bytes} (h : (get1 T m).accepts = true) : msgIs .midi m T = some true := by
  unfold get1 at h; split at h <;> simp_all [Res.accepts]

theorem getPitchBend_is {m : Bytes} (h : (getPitchBend m).accepts = true) : msgIs .midi m PitchBendMsg = some true := by
  unfold getPitchBend at h; split at h <;> simp_all [Res.accepts]

theorem getSPP_is {m : Bytes} (h : (getSPP m).accepts = true) : msgIs .midi m SPPMsg = some true := by
  unfold getSPP at h; split at h <;> simp_all [Res.accepts]

theorem getSysEx_is {m : Bytes} (h : (getSysEx m).accepts = true) : msgIs .midi m SysExMsg = some true := by
  unfold getSysEx at h
  split at h
  · simp [Res.accepts] at h
  · split at h <;> simp_all [Res.accepts]

theorem getMeta1_is {T : Int} {m : Bytes} (h : (getMeta1 T m).accepts = true) : msgIs .smf m T = some true := by
  unfold getMeta1 at h; split at h <;> simp_all [Res.accepts]

theorem getMetaSeqNumber_is {m : Bytes} (h : (getMetaSeqNumber m).accepts = true) :
    msgIs .smf m MetaSeqNumberMsg = some true := by
  unfold getMetaSeqNumber at h; split at h <;> simp_all [Res.accepts]

theorem getMetaSeqData_is {m : Bytes} (h : (getMetaSeqData m).accepts = true) :
    msgIs .smf m MetaSeqDataMsg = some true := by
  unfold getMetaSeqData at h; split at h <;> simp_all [Res.accepts]

theorem getMetaFixed_is {T : Int} {total dlen : Nat} {m : Bytes} (h : (getMetaFixed T total dlen m).accepts = true) :
    msgIs .smf m T = some true := by
  unfold getMetaFixed at h; split at h <;> simp_all [Res.accepts]

theorem getMetaTempo_is {m : Bytes} (h : (getMetaTempo m).accepts = true) : msgIs .smf m MetaTempoMsg = some true := by
  unfold getMetaTempo at h; split at h <;> simp_all [Res.accepts]

theorem getMetaText_is {T : Int} {m : Bytes} (h : (getMetaText T m).accepts = true) : msgIs .smf m T = some true := by
  unfold getMetaText at h; split at h <;> simp_all [Res.accepts]

end Midi.Msg
