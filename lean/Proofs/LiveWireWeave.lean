import Proofs.LiveWireSpec
/-!
# Every chunking of a legal wire sequence is a legal wire sequence

The wire model puts ticks (chunk borders) into the gaps of the items and between the items. This file shows that
nothing is lost by that: whatever token stream `toks` has the bytes of a legal item sequence — i.e. however
these bytes are cut into `EachMessage` calls and whatever the deltas are — there is a legal item sequence whose
token stream is exactly `toks`.
-/
namespace Midi.LiveWire
open Midi.Live

/-- tick items -/
def tickItems (tk : List Int) : List Item := tk.map Item.tick
def tickToks (tk : List Int) : List Tok := tk.map Tok.tick

theorem wireToks_tickItems (tk : List Int) (l : List Item) :
    wireToks (tickItems tk ++ l) = tickToks tk ++ wireToks l := by
  induction tk with
  | nil => rfl
  | cons d tk ih => simp only [tickItems, tickToks, List.map_cons, List.cons_append, wireToks, Item.toks] at ih ⊢; rw [ih]; rfl

theorem wfFrom_tickItems (bs run : Nat) (tk : List Int) (l : List Item) :
    wfFrom bs run (tickItems tk ++ l) = wfFrom bs run l := by
  induction tk with
  | nil => rfl
  | cons d tk ih => simp only [tickItems, List.map_cons, List.cons_append, wfFrom, Item.ok, Item.runAfter, Bool.true_and] at ih ⊢; exact ih

theorem runAfterAll_tickItems (run : Nat) (tk : List Int) (l : List Item) :
    runAfterAll run (tickItems tk ++ l) = runAfterAll run l := by
  induction tk with
  | nil => rfl
  | cons d tk ih => simp only [tickItems, List.map_cons, List.cons_append, runAfterAll, Item.runAfter] at ih ⊢; exact ih

theorem gapOk_tickToks (tk : List Int) : gapOk (tickToks tk) = true := by
  induction tk with
  | nil => rfl
  | cons d tk ih => simpa [tickToks, gapOk] using ih

theorem gapOk_append (a b : Gap) : gapOk (a ++ b) = (gapOk a && gapOk b) := by
  induction a with
  | nil => simp [gapOk]
  | cons x a ih => cases x <;> simp [gapOk, ih, Bool.and_assoc]

/-- a token stream without bytes consists of ticks -/
theorem toks_no_bytes (toks : List Tok) (h : bytesOf toks = []) : ∃ tk, toks = tickToks tk := by
  induction toks with
  | nil => exact ⟨[], rfl⟩
  | cons x r ih =>
    cases x with
    | byte b => simp [bytesOf] at h
    | tick d =>
      obtain ⟨tk, e⟩ := ih (by simpa [bytesOf] using h)
      exact ⟨d :: tk, by rw [e]; rfl⟩

/-- split a token stream at its first byte -/
theorem toks_first_byte (toks : List Tok) (b : Nat) (rest : Bytes) (h : bytesOf toks = b :: rest) :
    ∃ tk toks', toks = tickToks tk ++ Tok.byte b :: toks' ∧ bytesOf toks' = rest := by
  induction toks with
  | nil => simp [bytesOf] at h
  | cons x r ih =>
    cases x with
    | byte b' =>
      simp only [bytesOf, List.cons.injEq] at h
      exact ⟨[], r, by rw [h.1]; rfl, h.2⟩
    | tick d =>
      obtain ⟨tk, toks', e, hb⟩ := ih (by simpa [bytesOf] using h)
      exact ⟨d :: tk, toks', by rw [e]; rfl, hb⟩

/-- a gap followed by a byte, re-chunked -/
theorem weave_gap (g : Gap) (hg : gapOk g = true) (b : Nat) (rest : Bytes) :
    ∀ toks : List Tok, bytesOf toks = bytesOf g ++ b :: rest →
      ∃ g' toks', toks = g' ++ Tok.byte b :: toks' ∧ gapOk g' = true ∧ bytesOf toks' = rest := by
  induction g with
  | nil =>
    intro toks h
    obtain ⟨tk, toks', e, hb⟩ := toks_first_byte toks b rest (by simpa [bytesOf] using h)
    exact ⟨tickToks tk, toks', e, gapOk_tickToks tk, hb⟩
  | cons x g ih =>
    cases x with
    | tick d => intro toks h; exact ih (by simpa [gapOk] using hg) toks (by simpa [bytesOf] using h)
    | byte r =>
      intro toks h
      simp only [gapOk, Bool.and_eq_true, decide_eq_true_eq] at hg
      obtain ⟨tk, toks1, e1, hb1⟩ := toks_first_byte toks r _ (by simpa [bytesOf] using h)
      obtain ⟨g1, toks', e2, hg1, hb⟩ := ih hg.2 toks1 hb1
      refine ⟨tickToks tk ++ Tok.byte r :: g1, toks', ?_, ?_, hb⟩
      · rw [e1, e2]; simp
      · rw [gapOk_append, gapOk_tickToks]; simp [gapOk, hg.1, hg1]

/-- the data bytes of a message with their gaps, re-chunked -/
theorem weave_body (body : Body) (hb : bodyOk body = true) (rest : Bytes) :
    ∀ toks : List Tok, bytesOf toks = bytesOf (bodyToks body) ++ rest →
      ∃ body' toks', toks = bodyToks body' ++ toks' ∧ bodyOk body' = true ∧ body'.length = body.length ∧
        bodyData body' = bodyData body ∧ bytesOf toks' = rest := by
  induction body with
  | nil => intro toks h; exact ⟨[], toks, rfl, rfl, rfl, rfl, by simpa [bodyToks, bytesOf] using h⟩
  | cons p r ih =>
    obtain ⟨g, d⟩ := p
    intro toks h
    obtain ⟨hg, hd, hr⟩ := bodyOk_cons hb
    have h' : bytesOf toks = bytesOf g ++ d :: (bytesOf (bodyToks r) ++ rest) := by
      rw [h]; simp [bodyToks, bytesOf_append, bytesOf]
    obtain ⟨g', toks1, e1, hg', hb1⟩ := weave_gap g hg d _ toks h'
    obtain ⟨r', toks', e2, hr', hl, hdta, hb'⟩ := ih hr toks1 hb1
    refine ⟨(g', d) :: r', toks', ?_, ?_, ?_, ?_, hb'⟩
    · rw [e1, e2]; simp [bodyToks]
    · simp [bodyOk, hg', hd, hr']
    · simp [hl]
    · simp only [bodyData, List.map_cons] at hdta ⊢; rw [hdta]

/-- one item, re-chunked: a legal item sequence (ticks, then the item with new gaps) with the same running status -/
theorem weave_item (bs run : Nat) (it : Item) (hok : it.ok bs run = true) (rest : Bytes) (toks : List Tok)
    (h : bytesOf toks = bytesOf it.toks ++ rest) :
    ∃ its' toks', toks = wireToks its' ++ toks' ∧ (∀ l, wfFrom bs run (its' ++ l) = wfFrom bs (it.runAfter run) l) ∧
      bytesOf toks' = rest := by
  cases it with
  | tick d => exact ⟨[], toks, rfl, fun l => rfl, by simpa [Item.toks, bytesOf] using h⟩
  | rt b =>
    obtain ⟨tk, toks', e, hb⟩ := toks_first_byte toks b rest (by simpa [Item.toks, bytesOf] using h)
    refine ⟨tickItems tk ++ [.rt b], toks', ?_, ?_, hb⟩
    · rw [wireToks_tickItems, e]; simp [wireToks, Item.toks]
    · intro l
      rw [List.append_assoc, wfFrom_tickItems]
      simp only [Item.ok] at hok
      simp [wfFrom, Item.ok, hok, Item.runAfter]
  | chan st e body =>
    have hok' := hok
    simp only [Item.ok, Bool.and_eq_true, decide_eq_true_eq] at hok
    obtain ⟨⟨⟨⟨h1, h2⟩, he⟩, hlen⟩, hb⟩ := hok
    cases e with
    | true =>
      obtain ⟨body', toks', e1, hb', hl, _, hbt⟩ := weave_body body hb rest toks (by simpa [Item.toks] using h)
      refine ⟨[.chan st true body'], toks', ?_, ?_, hbt⟩
      · rw [e1]; simp [wireToks, Item.toks]
      · intro l
        simp only [Bool.not_true, Bool.false_or, decide_eq_true_eq] at he
        simp [wfFrom, Item.ok, Item.runAfter, h1, h2, he, hl, hlen, hb']
    | false =>
      obtain ⟨tk, toks1, e0, hb0⟩ := toks_first_byte toks st (bytesOf (bodyToks body) ++ rest)
        (by simpa [Item.toks, bytesOf, bytesOf_append] using h)
      obtain ⟨body', toks', e1, hb', hl, _, hbt⟩ := weave_body body hb rest toks1 hb0
      refine ⟨tickItems tk ++ [.chan st false body'], toks', ?_, ?_, hbt⟩
      · rw [wireToks_tickItems, e0, e1]; simp [wireToks, Item.toks]
      · intro l
        rw [List.append_assoc, wfFrom_tickItems]
        simp [wfFrom, Item.ok, Item.runAfter, h1, h2, hl, hlen, hb']
  | sysc st body =>
    simp only [Item.ok, Bool.and_eq_true, decide_eq_true_eq] at hok
    obtain ⟨hlen, hb⟩ := hok
    obtain ⟨tk, toks1, e0, hb0⟩ := toks_first_byte toks st (bytesOf (bodyToks body) ++ rest)
      (by simpa [Item.toks, bytesOf, bytesOf_append] using h)
    obtain ⟨body', toks', e1, hb', hl, _, hbt⟩ := weave_body body hb rest toks1 hb0
    refine ⟨tickItems tk ++ [.sysc st body'], toks', ?_, ?_, hbt⟩
    · rw [wireToks_tickItems, e0, e1]; simp [wireToks, Item.toks]
    · intro l
      rw [List.append_assoc, wfFrom_tickItems]
      simp [wfFrom, Item.ok, Item.runAfter, hl, hlen, hb']
  | sysex body last =>
    simp only [Item.ok, Bool.and_eq_true, decide_eq_true_eq] at hok
    obtain ⟨⟨hb, hg⟩, hlen⟩ := hok
    obtain ⟨tk, toks1, e0, hb0⟩ := toks_first_byte toks 0xF0 (bytesOf (bodyToks body) ++ (bytesOf last ++ 0xF7 :: rest))
      (by simpa [Item.toks, bytesOf, bytesOf_append] using h)
    obtain ⟨body', toks2, e1, hb', hl, _, hb2⟩ := weave_body body hb _ toks1 hb0
    obtain ⟨last', toks', e2, hg', hbt⟩ := weave_gap last hg 0xF7 rest toks2 hb2
    refine ⟨tickItems tk ++ [.sysex body' last'], toks', ?_, ?_, hbt⟩
    · rw [wireToks_tickItems, e0, e1, e2]; simp [wireToks, Item.toks]
    · intro l
      rw [List.append_assoc, wfFrom_tickItems]
      simp [wfFrom, Item.ok, Item.runAfter, hl, hlen, hb', hg']

/-- **every chunking of a legal wire sequence is the token stream of a legal wire sequence** -/
theorem weave_items (bs : Nat) (items : List Item) :
    ∀ (run : Nat) (toks : List Tok), wfFrom bs run items = true → bytesOf toks = bytesOf (wireToks items) →
      ∃ items', wireToks items' = toks ∧ wfFrom bs run items' = true := by
  induction items with
  | nil =>
    intro run toks _ h
    obtain ⟨tk, e⟩ := toks_no_bytes toks (by simpa [wireToks, bytesOf] using h)
    refine ⟨tickItems tk, ?_, ?_⟩
    · have := wireToks_tickItems tk []
      simp only [List.append_nil, wireToks] at this
      rw [this, e]
    · have := wfFrom_tickItems bs run tk []
      simp only [List.append_nil] at this
      rw [this]; rfl
  | cons it r ih =>
    intro run toks hwf h
    simp only [wfFrom, Bool.and_eq_true] at hwf
    obtain ⟨its', toks', e, hw, hb⟩ := weave_item bs run it hwf.1 (bytesOf (wireToks r)) toks
      (by simpa [wireToks, bytesOf_append] using h)
    obtain ⟨r', e', hw'⟩ := ih (it.runAfter run) toks' hwf.2 hb
    refine ⟨its' ++ r', ?_, ?_⟩
    · rw [wireToks_append, e', e]
    · rw [hw, hw']

end Midi.LiveWire
