import MidiModel.SmfStream
/-! C09: every reader program gives the same result over a fragmenting source and over in-memory bytes. -/
namespace Midi.Stream
open Midi.Smf

/-- fault-free source and in-memory rest hold the same unread data -/
def Sim (s : Src) (l : Bytes) : Prop := s.data = l ∧ s.fault = none ∧ s.hit = false

theorem foldl_min_gt (cs : List Nat) (p init : Nat) (hi : p < init) (hc : ∀ c ∈ cs, p < c) :
    p < cs.foldl min init := by
  induction cs generalizing init with
  | nil => simpa using hi
  | cons c cs ih =>
    simp only [List.foldl_cons]
    exact ih _ (by have := hc c (by simp); omega) (fun x hx => hc x (by simp [hx]))

theorem avail_pos (s : Src) (k : Nat) (hf : s.fault = none) (hk : 1 ≤ k) (hd : s.data ≠ []) :
    1 ≤ s.avail k ∧ s.avail k ≤ k ∧ s.avail k ≤ s.data.length := by
  have hl : 1 ≤ s.data.length := by
    cases h : s.data with
    | nil => exact absurd h hd
    | cons a r => simp
  have hcut := foldl_min_gt (s.cuts.filter (fun c => c > s.pos)) s.pos (s.pos + s.data.length + 1) (by omega)
    (by intro c hc; simp at hc; exact hc.2)
  simp only [Src.avail, hf]
  omega

/-- one `Read` on a fault-free source with data left: at least one byte, never more than asked,
    EOF is signalled only together with the last bytes -/
theorem read_progress (s : Src) (k : Nat) (hf : s.fault = none) (hh : s.hit = false) (hk : 1 ≤ k) (hd : s.data ≠ []) :
    ∃ got e s', s.read k = (got, e, s') ∧ 1 ≤ got.length ∧ got.length ≤ k ∧ got ++ s'.data = s.data ∧
      s'.fault = none ∧ s'.hit = false ∧ e ≠ .io ∧ (e = .eof → s'.data = []) := by
  obtain ⟨h1, h2, h3⟩ := avail_pos s k hf hk hd
  have hm : ¬ s.avail k = 0 := by omega
  refine ⟨s.data.take (s.avail k), _, _, by simp only [Src.read, hf, hm, if_false]; rfl, ?_, ?_, ?_, ?_, ?_, ?_, ?_⟩
  · simp; omega
  · simp; omega
  · simp
  · simpa using hf
  · simpa using hh
  · split <;> simp
  · intro he
    split at he
    · rename_i hc; exact hc.1
    · cases he

theorem read_empty (s : Src) (k : Nat) (hf : s.fault = none) (hd : s.data = []) : s.read k = ([], .eof, s) := by
  have : s.avail k = 0 := by simp [Src.avail, hf, hd]
  simp [Src.read, hf, this]

/-- `io.ReadFull` over any fragmentation = the in-memory primitive (also in the remaining state) -/
theorem srcReadFull_spec : ∀ (fuel n : Nat) (acc : Bytes) (s : Src), n < fuel → s.fault = none → s.hit = false →
    (n ≤ s.data.length →
      ∃ s', srcReadFull fuel n acc s = (.ok (acc ++ s.data.take n), s') ∧ s'.data = s.data.drop n ∧ s'.fault = none ∧ s'.hit = false) ∧
    (s.data.length < n →
      ∃ s', srcReadFull fuel n acc s = (.error (if acc = [] ∧ s.data = [] then .eof else .ueof), s') ∧
        s'.data = [] ∧ s'.fault = none ∧ s'.hit = false) := by
  intro fuel
  induction fuel with
  | zero => intro n acc s h; omega
  | succ fuel ih =>
    intro n acc s hfu hf hh
    unfold srcReadFull
    by_cases hn : n = 0
    · subst hn
      simp only [if_true, List.take_zero, List.append_nil, List.drop_zero]
      exact ⟨fun _ => ⟨s, rfl, rfl, hf, hh⟩, fun h => by omega⟩
    · simp only [hn, if_false]
      by_cases hd : s.data = []
      · rw [read_empty s n hf hd]
        simp only [hd, List.length_nil, List.append_nil]
        refine ⟨fun h => by omega, fun _ => ?_⟩
        have : ¬ (0 = n) := by omega
        simp only [this, if_false]
        by_cases ha : acc = []
        · exact ⟨s, by simp [ha], hd, hf, hh⟩
        · exact ⟨s, by simp [ha], hd, hf, hh⟩
      · obtain ⟨got, e, s', hr, p1, p2, p3, p4, p5, p6, p7⟩ := read_progress s n hf hh (by omega) hd
        rw [hr]
        simp only
        have hlen : s.data.length = got.length + s'.data.length := by rw [← p3]; simp
        by_cases hfull : got.length = n
        · simp only [hfull, if_true]
          refine ⟨fun h => ⟨s', ?_, ?_, p4, p5⟩, fun h => by omega⟩
          · congr 2
            rw [← p3, List.take_append_of_le_length (by omega), List.take_of_length_le (by omega)]
          · rw [← p3, List.drop_append_of_le_length (by omega), List.drop_of_length_le (by omega)]; simp
        · simp only [hfull, if_false]
          cases e with
          | io => exact absurd rfl p6
          | none =>
            simp only
            have ih' := ih (n - got.length) (acc ++ got) s' (by omega) p4 p5
            refine ⟨fun h => ?_, fun h => ?_⟩
            · obtain ⟨s'', e1, e2, e3, e4⟩ := ih'.1 (by omega)
              refine ⟨s'', ?_, ?_, e3, e4⟩
              · rw [e1, List.append_assoc]
                congr 2
                conv => rhs; rw [← p3]
                rw [List.take_append]
                simp [List.take_of_length_le p2]
              · rw [e2]
                conv => rhs; rw [← p3]
                rw [List.drop_append]
                simp [List.drop_of_length_le p2]
            · obtain ⟨s'', e1, e2, e3, e4⟩ := ih'.2 (by omega)
              refine ⟨s'', ?_, e2, e3, e4⟩
              rw [e1]
              have hne : got ≠ [] := by intro h0; rw [h0] at p1; simp at p1
              have c1 : ¬ (acc ++ got = [] ∧ s'.data = []) := by
                intro ⟨h1, _⟩; exact hne (List.append_eq_nil_iff.mp h1).2
              have c2 : ¬ (acc = [] ∧ s.data = []) := by intro ⟨_, h2⟩; exact hd h2
              rw [if_neg c1, if_neg c2]
          | eof =>
            simp only
            have hs' := p7 rfl
            have hne : got ≠ [] := by intro h0; rw [h0] at p1; simp at p1
            have c1 : ¬ (acc ++ got = []) := by
              intro h1; exact hne (List.append_eq_nil_iff.mp h1).2
            have c2 : ¬ (acc = [] ∧ s.data = []) := by intro ⟨_, h2⟩; exact hd h2
            refine ⟨fun h => ?_, fun h => ⟨s', by simp [c1, c2], hs', p4, p5⟩⟩
            rw [hs'] at hlen; simp at hlen; omega

theorem srcDiscard_spec : ∀ (fuel n : Nat) (s : Src), n < fuel → s.fault = none → s.hit = false →
    (n ≤ s.data.length →
      ∃ s', srcDiscard fuel n s = (.ok (), s') ∧ s'.data = s.data.drop n ∧ s'.fault = none ∧ s'.hit = false) ∧
    (s.data.length < n →
      ∃ s', srcDiscard fuel n s = (.error .eof, s') ∧ s'.data = [] ∧ s'.fault = none ∧ s'.hit = false) := by
  intro fuel
  induction fuel with
  | zero => intro n s h; omega
  | succ fuel ih =>
    intro n s hfu hf hh
    unfold srcDiscard
    by_cases hn : n = 0
    · subst hn
      simp only [if_true, List.drop_zero]
      exact ⟨fun _ => ⟨s, rfl, rfl, hf, hh⟩, fun h => by omega⟩
    · simp only [hn, if_false]
      by_cases hd : s.data = []
      · rw [read_empty s n hf hd]
        simp only [hd, List.length_nil]
        refine ⟨fun h => by omega, fun _ => ?_⟩
        have : ¬ (0 = n) := by omega
        simp only [this, if_false]
        exact ⟨s, rfl, hd, hf, hh⟩
      · obtain ⟨got, e, s', hr, p1, p2, p3, p4, p5, p6, p7⟩ := read_progress s n hf hh (by omega) hd
        rw [hr]
        simp only
        have hlen : s.data.length = got.length + s'.data.length := by rw [← p3]; simp
        by_cases hfull : got.length = n
        · simp only [hfull, if_true]
          refine ⟨fun h => ⟨s', rfl, ?_, p4, p5⟩, fun h => by omega⟩
          rw [← p3, List.drop_append_of_le_length (by omega), List.drop_of_length_le (by omega)]; simp
        · simp only [hfull, if_false]
          cases e with
          | io => exact absurd rfl p6
          | none =>
            simp only
            have ih' := ih (n - got.length) s' (by omega) p4 p5
            refine ⟨fun h => ?_, fun h => ?_⟩
            · obtain ⟨s'', e1, e2, e3, e4⟩ := ih'.1 (by omega)
              refine ⟨s'', e1, ?_, e3, e4⟩
              rw [e2]
              conv => rhs; rw [← p3]
              rw [List.drop_append]
              simp [List.drop_of_length_le p2]
            · obtain ⟨s'', e1, e2, e3, e4⟩ := ih'.2 (by omega)
              exact ⟨s'', e1, e2, e3, e4⟩
          | eof =>
            simp only
            have hs' := p7 rfl
            refine ⟨fun h => ?_, fun h => ⟨s', rfl, hs', p4, p5⟩⟩
            rw [hs'] at hlen; simp at hlen; omega

/-- the three primitives agree, result and remaining state -/
theorem readFull_sim (n : Nat) (s : Src) (l : Bytes) (h : Sim s l) :
    (srcOps.readFull n s).1 = (listOps.readFull n l).1 ∧ Sim (srcOps.readFull n s).2 (listOps.readFull n l).2 := by
  obtain ⟨hd, hf, hh⟩ := h
  subst hd
  have sp := srcReadFull_spec (n + 1) n [] s (by omega) hf hh
  simp only [srcOps, listOps]
  by_cases hn : n = 0
  · subst hn
    obtain ⟨s', e1, e2, e3, e4⟩ := sp.1 (by omega)
    simp only [e1, if_true]
    simp only [List.take_zero, List.append_nil, List.drop_zero] at e2 ⊢
    exact ⟨trivial, e2, e3, e4⟩
  · by_cases hl : n ≤ s.data.length
    · obtain ⟨s', e1, e2, e3, e4⟩ := sp.1 hl
      have hne : s.data ≠ [] := by intro h; rw [h] at hl; simp at hl; omega
      have : ¬ s.data.length < n := by omega
      simp only [e1, hn, hne, this, if_false, List.nil_append]
      exact ⟨trivial, e2, e3, e4⟩
    · obtain ⟨s', e1, e2, e3, e4⟩ := sp.2 (by omega)
      simp only [e1, hn, if_false]
      by_cases hne : s.data = []
      · simp only [hne, if_true, and_self]
        exact ⟨trivial, e2, e3, e4⟩
      · have : s.data.length < n := by omega
        simp only [hne, this, if_false, if_true, and_false]
        exact ⟨trivial, e2, e3, e4⟩

theorem readRaw_sim (s : Src) (l : Bytes) (h : Sim s l) :
    (srcOps.readRaw s).1 = (listOps.readRaw l).1 ∧ Sim (srcOps.readRaw s).2 (listOps.readRaw l).2 := by
  obtain ⟨hd, hf, hh⟩ := h
  subst hd
  simp only [srcOps, listOps]
  by_cases hne : s.data = []
  · rw [read_empty s 1 hf hne]
    simp only [hne]
    exact ⟨trivial, hne, hf, hh⟩
  · obtain ⟨got, e, s', hr, p1, p2, p3, p4, p5, p6, p7⟩ := read_progress s 1 hf hh (by omega) hne
    rw [hr]
    cases got with
    | nil => simp at p1
    | cons b r =>
      have hr0 : r = [] := by
        cases r with
        | nil => rfl
        | cons x y => simp at p2
      subst hr0
      rw [← p3]
      simp only [List.cons_append, List.nil_append]
      exact ⟨trivial, rfl, p4, p5⟩

theorem discard_sim (n : Nat) (s : Src) (l : Bytes) (h : Sim s l) :
    (srcOps.discard n s).1 = (listOps.discard n l).1 ∧ Sim (srcOps.discard n s).2 (listOps.discard n l).2 := by
  obtain ⟨hd, hf, hh⟩ := h
  subst hd
  have sp := srcDiscard_spec (n + 1) n s (by omega) hf hh
  simp only [srcOps, listOps]
  by_cases hl : n ≤ s.data.length
  · obtain ⟨s', e1, e2, e3, e4⟩ := sp.1 hl
    have : ¬ s.data.length < n := by omega
    simp only [e1, this, if_false]
    exact ⟨trivial, e2, e3, e4⟩
  · obtain ⟨s', e1, e2, e3, e4⟩ := sp.2 (by omega)
    have : s.data.length < n := by omega
    simp only [e1, this, if_true]
    exact ⟨trivial, e2, e3, e4⟩

/-- C09 for every program over the primitives -/
theorem run_sim {α : Type} (p : Prog α) : ∀ (s : Src) (l : Bytes), Sim s l →
    (run srcOps p s).1 = (run listOps p l).1 ∧ Sim (run srcOps p s).2 (run listOps p l).2 := by
  induction p with
  | pure a => intro s l h; exact ⟨rfl, h⟩
  | fail e => intro s l h; exact ⟨rfl, h⟩
  | readFull n k ih =>
    intro s l h
    obtain ⟨h1, h2⟩ := readFull_sim n s l h
    simp only [run]
    rw [h1]
    exact ih _ _ _ h2
  | readRaw k ih =>
    intro s l h
    obtain ⟨h1, h2⟩ := readRaw_sim s l h
    simp only [run]
    rw [h1]
    exact ih _ _ _ h2
  | discard n k ih =>
    intro s l h
    obtain ⟨h1, h2⟩ := discard_sim n s l h
    simp only [run]
    rw [h1]
    exact ih _ _ _ h2

end Midi.Stream
