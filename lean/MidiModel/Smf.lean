import MidiModel.Vlq
/-!
# SMF value, writer (`SMF.WriteTo`) and in-memory reader (`smf.ReadFrom` on a `bytes.Reader`)

The model follows the Go code statement by statement (see the comments); mutation is state passing,
`panic` is an explicit outcome, every fixed-width field carries its `%`.
-/
namespace Midi.Smf

abbrev Msg := List Nat

structure Event where
  delta : Nat
  msg : Msg
deriving Repr, DecidableEq, Inhabited

abbrev Track := List Event

/-- `smf.EOT` = `_MetaMessage(0x2F, nil)` -/
def EOT : Msg := [0xFF, 0x2F, 0x00]

/-- `Track.IsClosed`: last message deep-equals `EOT` -/
def Track.isClosed (t : Track) : Bool :=
  match t.getLast? with
  | none => false
  | some e => e.msg == EOT

/-- `Track.Close(δ)` -/
def Track.close (t : Track) (δ : Nat) : Track :=
  if t.isClosed then t else t ++ [⟨δ, EOT⟩]

/-- events appended by `Track.Add(δ, msgs...)`: first message gets `δ`, the others 0 -/
def addEvents (δ : Nat) : List Msg → List Event
  | [] => []
  | m :: ms => ⟨δ, m⟩ :: addEvents 0 ms

/-- `Track.Add(δ, msgs...)` (no-op on a closed track) -/
def Track.add (t : Track) (δ : Nat) (msgs : List Msg) : Track :=
  if t.isClosed then t else t ++ addEvents δ msgs

inductive TimeFormat
  | metric (q : Nat)            -- `MetricTicks(q)`, `q : uint16`
  | smpte (fps sub : Nat)       -- `TimeCode{fps, sub}`, both `uint8`
deriving Repr, DecidableEq, Inhabited

structure File where
  format : Nat
  tf : TimeFormat
  tracks : List Track
deriving Repr, DecidableEq, Inhabited

/-- `SMF.Add(t)`: append, promote format 0 to 1 when there is more than one track -/
def File.addTrack (s : File) (t : Track) : File :=
  let ts := s.tracks ++ [t]
  { s with tracks := ts, format := if ts.length > 1 ∧ s.format = 0 then 1 else s.format }

/-! ## Writer -/

/-- `writeTimeFormat`: two bytes -/
def encTimeFormat : TimeFormat → Bytes
  | .metric q =>
    let t := if q = 0 then 960 else q
    let t := if t > 32767 then 32767 else t
    be16 t
  | .smpte fps sub => [(256 - fps % 256) % 256, sub % 256]

/-- is the first byte a channel status (this is what `midi.Message(raw).Is(midi.ChannelMsg)` tests) -/
def isChanStatus (b : Nat) : Bool := 0x80 ≤ b && b ≤ 0xEF

/-- `addMessage` without the delta: bytes of the event body and the new writer running status.
    `rsOn = false` is `NoRunningStatus`. `none` = index-out-of-range panic on an empty message. -/
def encMsg (rsOn : Bool) (rs : Nat) (raw : Msg) : Option (Bytes × Nat) :=
  match raw with
  | [] => none
  | b0 :: tl =>
    if b0 = 0xF0 ∨ b0 = 0xF7 then
      some (b0 :: (Vlq.encode (tl.length % 4294967296) ++ tl), if rsOn then 0 else rs)
    else if rsOn then
      if !isChanStatus b0 then some (raw, 0)
      else if b0 ≠ rs then some (raw, b0)
      else some (tl, rs)
    else some (raw, rs)

/-- body of one track chunk; `none` = panic -/
def encTrackBody (rsOn : Bool) : Nat → Track → Option Bytes
  | _, [] => some []
  | rs, e :: r =>
    match encMsg rsOn rs e.msg with
    | none => none
    | some (b, rs') =>
      match encTrackBody rsOn rs' r with
      | none => none
      | some rest => some (Vlq.encode (e.delta % 4294967296) ++ b ++ rest)

def MThd : Bytes := [0x4D, 0x54, 0x68, 0x64]
def MTrk : Bytes := [0x4D, 0x54, 0x72, 0x6B]

/-- `chunk.WriteTo`: type, big-endian `int32(len)`, data -/
def encChunk (typ : Bytes) (body : Bytes) : Bytes := typ ++ be32 (body.length % 4294967296) ++ body

def encHeader (format numTracks : Nat) (tf : TimeFormat) : Bytes :=
  encChunk MThd (be16 format ++ be16 numTracks ++ encTimeFormat tf)

/-- the value after the in-place updates `WriteTo` performs before writing
    (format promotion, auto-close of open tracks) -/
def File.prepared (s : File) : File :=
  let n := s.tracks.length % 65536
  { s with
    format := if n > 1 ∧ s.format = 0 then 1 else s.format
    tracks := s.tracks.map (fun t => t.close 0) }

inductive WRes
  | ok (bytes : Bytes)            -- every Write call and their concatenation
  | noTrack                       -- "no track added"
  | panic
deriving Repr, DecidableEq

/-- the list of `Write` calls `WriteTo` issues on the destination (header, then one per track) -/
def writeCalls (rsOn : Bool) (s : File) : Option (List Bytes) :=
  let p := s.prepared
  let n := s.tracks.length % 65536
  let rec go : List Track → Option (List Bytes)
    | [] => some []
    | t :: r =>
      match encTrackBody rsOn 0 t, go r with
      | some b, some rest => some (encChunk MTrk b :: rest)
      | _, _ => none
  match go p.tracks with
  | none => none
  | some cs => some (encHeader p.format n p.tf :: cs)

/-- `SMF.WriteTo` into a sink that accepts everything -/
def writeTo (rsOn : Bool) (s : File) : WRes :=
  if s.tracks.length % 65536 = 0 then .noTrack
  else match writeCalls rsOn s with
    | none => .panic
    | some cs => .ok cs.flatten

/-- outcome of `WriteTo` on a sink that fails once `k` bytes have been accepted (short write + error):
    `(err, reported size, bytes accepted)` -/
def writeToSink (rsOn : Bool) (s : File) (failAt : Option Nat) : Option (Bool × Nat × Bytes) :=
  if s.tracks.length % 65536 = 0 then some (true, 0, [])
  else match writeCalls rsOn s with
    | none => none
    | some cs =>
      let rec go (first : Bool) (acc : Bytes) : List Bytes → Bool × Nat × Bytes
        | [] => (false, acc.length, acc)
        | c :: r =>
          match failAt with
          | none => go false (acc ++ c) r
          | some k =>
            if acc.length + c.length ≤ k then go false (acc ++ c) r
            else
              let acc' := acc ++ c.take (k - acc.length)
              -- a failing header write makes WriteTo return size 0
              (true, if first then 0 else acc'.length, acc')
      some (go true [] cs)

/-! ## Reader (in-memory source) -/

inductive RErr
  | eof        -- io.EOF
  | ueof       -- io.ErrUnexpectedEOF / utils.ErrUnexpectedEOF
  | missing    -- smf.ErrMissing
  | finished   -- smf.ErrFinished
  | other      -- any other error value
  | fuel       -- the model ran out of fuel (shown unreachable)
deriving Repr, DecidableEq

/-- `utils.ReadNBytes(n, rd)` / `io.ReadFull` on the rest of an in-memory source -/
def readN (n : Nat) (bs : Bytes) : Except RErr (Bytes × Bytes) :=
  if n = 0 then .ok ([], bs)
  else if bs = [] then .error .eof
  else if bs.length < n then .error .ueof
  else .ok (bs.take n, bs.drop n)

def readByte (bs : Bytes) : Except RErr (Nat × Bytes) :=
  match bs with
  | [] => .error .eof
  | b :: r => .ok (b, r)

def readVlq (bs : Bytes) : Except RErr (Nat × Bytes) :=
  match Vlq.read bs with
  | none => .error .ueof
  | some x => .ok x

/-- one decoded event: delta, message bytes, new running status, rest of the input -/
structure REv where
  delta : Nat
  msg : Msg
  rs : Nat
  rest : Bytes
deriving Repr, DecidableEq

/-- `midi.ReadChannelMessage(status, arg1, rd)` as used by `_readEvent`: the error of a missing second
    data byte is swallowed there and an empty message is returned -/
def finishChan (δ status a1 : Nat) (bs : Bytes) : REv :=
  if status / 16 = 0xC ∨ status / 16 = 0xD then ⟨δ, [status, a1], status, bs⟩
  else match bs with
    | [] => ⟨δ, [], status, []⟩
    | a2 :: r => ⟨δ, [status, a1, a2], status, r⟩

/-- `readEvent` + `_readEvent` (running status `rr`, 0 = none) -/
def readEvent (rr : Nat) (bs : Bytes) : Except RErr REv := do
  let (δ, bs1) ← readVlq bs
  let (c, bs2) ← readByte bs1
  if c = 0xFF then
    let (t, bs3) ← readByte bs2
    let (n, bs4) ← readVlq bs3
    let (d, bs5) ← readN n bs4
    pure ⟨δ, [0xFF, t] ++ Vlq.encode d.length ++ d, 0, bs5⟩
  else if c = 0xF0 ∨ c = 0xF7 then
    let (n, bs4) ← readVlq bs2
    let (d, bs5) ← readN n bs4
    pure ⟨δ, c :: d, 0, bs5⟩
  else if isChanStatus c then
    let (a1, bs3) ← readByte bs2
    pure (finishChan δ c a1 bs3)
  else if rr = 0 then .error .other
  else pure (finishChan δ rr c bs2)

/-- `m.Is(MetaEndOfTrackMsg)` -/
def isEOTMsg (m : Msg) : Bool :=
  match m with
  | a :: b :: _ => a == 0xFF && b == 0x2F
  | _ => false

structure RState where
  numTracks : Nat
  started : Nat            -- `processedTracks + 1`
  expectChunk : Bool
  rs : Nat
  done : Bool
  tracks : List Track
deriving Repr, DecidableEq

def RState.missing (s : RState) : Bool := s.numTracks > s.started

/-- big-endian value of a 4-byte field -/
def lenOf4 (l : Bytes) : Nat :=
  match l with
  | [a, b, c, d] => a * 16777216 + b * 65536 + c * 256 + d
  | _ => 0

/-- the `for r.expectChunk` loop of `read()`: skip alien chunks until a track chunk starts -/
def chunkLoop : Nat → Nat → Bytes → Except RErr (Nat × Bytes)
  | 0, _, _ => .error .fuel
  | f+1, started, bs => do
    let (typ, bs1) ← readN 4 bs
    let (len4, bs2) ← readN 4 bs1
    if typ = MTrk then pure (started + 1, bs2)
    else
      let len := lenOf4 len4
      -- io.CopyN(ioutil.Discard, rd, len): short source = io.EOF
      if bs2.length < len then .error .eof
      else chunkLoop f started (bs2.drop len)

def setTrack (ts : List Track) (i : Nat) (f : Track → Track) : List Track :=
  ts.set i (f (ts.getD i []))

/-- `ReadTracks`: returns the final state and the error that ended the loop -/
def readLoop : Nat → RState → Bytes → RState × RErr
  | 0, s, _ => (s, .fuel)
  | f+1, s, bs =>
    if s.done then (s, .finished) else
    -- chunk loop
    let r1 : Except RErr (Nat × Bytes) :=
      if s.expectChunk then chunkLoop (bs.length + 1) s.started bs else .ok (s.started, bs)
    match r1 with
    | .error e => (s, if e = .eof ∧ s.missing then .missing else e)
    | .ok (started, bs1) =>
      let s1 := { s with started := started, expectChunk := false }
      match readEvent s1.rs bs1 with
      | .error e => (s1, if e = .eof ∧ s1.missing then .missing else e)
      | .ok ev =>
        let eot := isEOTMsg ev.msg
        let s2 := { s1 with rs := ev.rs,
                            done := eot && s1.started == s1.numTracks,
                            expectChunk := eot && !(s1.started == s1.numTracks) }
        let tr := s1.started - 1
        if s1.tracks.length ≤ tr then (s2, .other)
        else
          let ts := setTrack s2.tracks tr
            (fun t => if eot then t.close ev.delta else t.add ev.delta [ev.msg])
          readLoop f { s2 with tracks := ts } ev.rest

def parseTimeFormat (hi lo : Nat) : TimeFormat :=
  if hi < 128 then .metric (hi * 256 + lo) else .smpte (256 - hi) lo

/-- big-endian value of a 2-byte field -/
def val16 (l : Bytes) : Nat :=
  match l with
  | [a, b] => a * 256 + b
  | _ => 0

def tfOf2 (l : Bytes) : TimeFormat :=
  match l with
  | [a, b] => parseTimeFormat a b
  | _ => .metric 0

inductive RRes
  | ok (f : File)
  | error (e : RErr)
deriving Repr, DecidableEq

/-- `smf.ReadFrom(bytes.NewReader(bs))` -/
def readFrom (bs : Bytes) : RRes :=
  -- readMThd
  match readN 4 bs with
  | .error e => .error e
  | .ok (typ, bs1) =>
  match readN 4 bs1 with
  | .error e => .error e
  | .ok (_, bs2) =>
  if typ ≠ MThd then .error .other else
  match readN 2 bs2 with
  | .error e => .error e
  | .ok (fm, bs3) =>
  let format := val16 fm
  if format > 2 then .error .other else
  match readN 2 bs3 with
  | .error e => .error e
  | .ok (nt, bs4) =>
  let numTracks := val16 nt
  match readN 2 bs4 with
  | .error e => .error e
  | .ok (dv, bs5) =>
  let tf := tfOf2 dv
  let s0 : RState := ⟨numTracks, 0, true, 0, false, List.replicate numTracks []⟩
  let (s, e) := readLoop (bs5.length + 2) s0 bs5
  if s.missing then .error .missing
  else if e = .finished ∨ e = .eof then .ok ⟨format, tf, s.tracks⟩
  else .error e

/-! ## Canonical text forms for the line protocol -/

def showTF : TimeFormat → String
  | .metric q => s!"m:{q}"
  | .smpte f s => s!"s:{f}:{s}"

def showTrack (t : Track) : String :=
  if t.isEmpty then "-" else joinWith "," (t.map fun e => s!"{e.delta}:{hex e.msg}")

def showFile (f : File) : String :=
  s!"{f.format}/{showTF f.tf}/" ++ (if f.tracks.isEmpty then "none" else joinWith "|" (f.tracks.map showTrack))

def showRRes : RRes → String
  | .ok f => "ok:" ++ showFile f
  | .error .fuel => "fuel"
  | .error _ => "error"

def parseTF (s : String) : Option TimeFormat :=
  match s.splitOn ":" with
  | ["m", q] => q.toNat?.map .metric
  | ["s", f, u] => do pure (.smpte (← f.toNat?) (← u.toNat?))
  | _ => none

/-! ## API histories -/

inductive HOp
  | add (i δ : Nat) (msgs : List Msg)     -- local track `i`: `Add(δ, msgs...)`
  | close (i δ : Nat)                     -- local track `i`: `Close(δ)`
  | smfAdd (i : Nat)                      -- `s.Add(track i)`
deriving Repr, DecidableEq

structure HState where
  file : File
  locals : List Track
deriving Repr

def getLocal (ls : List Track) (i : Nat) : Track := ls.getD i []
def setLocal (ls : List Track) (i : Nat) (t : Track) : List Track :=
  let ls := if ls.length ≤ i then ls ++ List.replicate (i + 1 - ls.length) [] else ls
  ls.set i t

def HState.step (h : HState) : HOp → HState
  | .add i δ msgs => { h with locals := setLocal h.locals i ((getLocal h.locals i).add δ msgs) }
  | .close i δ => { h with locals := setLocal h.locals i ((getLocal h.locals i).close δ) }
  | .smfAdd i => { h with file := h.file.addTrack (getLocal h.locals i) }

/-- the SMF value reached by `New*()`, setting `TimeFormat`, and the history -/
def reach (format : Nat) (tf : TimeFormat) (ops : List HOp) : File :=
  (ops.foldl HState.step ⟨⟨format, tf, []⟩, []⟩).file

def parseHOp (s : String) : Option HOp :=
  match s.splitOn ":" with
  | ["a", i, δ, ms] => do
    let msgs ← (ms.splitOn "/").mapM unhex
    pure (.add (← i.toNat?) (← δ.toNat?) msgs)
  | ["c", i, δ] => do pure (.close (← i.toNat?) (← δ.toNat?))
  | ["s", i] => do pure (.smfAdd (← i.toNat?))
  | _ => none

--@driver smf. Smf.handle
def handle (op : String) (args : List String) : String :=
  match op with
  | "smf.read" => match args with
    | [h] => match unhex h with
      | some bs => "r=" ++ showRRes (readFrom bs)
      | none => "bad-op"
    | _ => "bad-op"
  | "smf.hist" =>
    match natField "new" args, (field "tf" args).bind parseTF, natField "nors" args, field "ops" args with
    | some fm, some tf, some nors, some opss =>
      let optOps := if opss = "-" then some [] else (opss.splitOn ";").mapM parseHOp
      match optOps with
      | none => "bad-op"
      | some ops =>
        let s := reach fm tf ops
        let rsOn := nors = 0
        let failAt := natField "failat" args
        match failAt with
        | some k =>
          match writeToSink rsOn s (some k) with
          | none => "err=panic"
          | some (err, size, acc) => s!"err={if err then 1 else 0} size={size} acc={hex acc}"
        | none =>
          match writeTo rsOn s with
          | .noTrack => "built=" ++ showFile s ++ " err=1"
          | .panic => "built=" ++ showFile s ++ " err=panic"
          | .ok w => "built=" ++ showFile s.prepared ++ s!" err=0 size={w.length} w={hex w} rb={showRRes (readFrom w)}"
    | _, _, _, _ => "bad-op"
  | _ => "bad-op"

end Midi.Smf
