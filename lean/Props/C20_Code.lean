import MidiModel.Sequencer
import MidiModel.Generated.SequencerGo
/-!
# C20, tie to the source: `Bar.Len` as translated from `v2/sequencer/bar.go` on every run is the model's `Bar.len`

(the 8-bit bar arithmetic is the place the property's "why tests can't" names). `uint8` signature bytes: `n, d < 256`.
A zero denominator is Go's integer-divide-by-zero panic = the model's `none`.
-/
namespace Midi.C20
open Midi Midi.Go

theorem code_Bar_Len (b : Sequencer.Bar) (hn : b.num < 256) (hd : b.den < 256) :
    sequencer.Bar.Len { TimeSig := [b.num, b.den] } =
      (match Sequencer.Bar.len b with | some v => .ok v | none => .error "integer divide by zero") := by
  unfold sequencer.Bar.Len Sequencer.Bar.len
  have h1 : b.num % 65536 = b.num := Nat.mod_eq_of_lt (by omega)
  have h2 : b.den % 65536 = b.den := Nat.mod_eq_of_lt (by omega)
  by_cases h0 : b.den = 0
  · simp [Go.idx, Go.divU, h0, h1]
    rfl
  · simp [Go.idx, Go.divU, h0, h1, h2]
    rfl

end Midi.C20
