import MidiModel.Generated.MmcGo
import Props.C18_Parse
/-!
# C18, tie to the source: the MMC helpers (`v2/mmc/mmc.go`) as translated on every run are the model's

`Message.SysEx`, `GoTo.SysEx` (builders) and `(*GoTo).Parse`, `(*Message).Parse` (receiver value in, receiver value and
error flag out; a panic nowhere).
-/
namespace Midi.C18
open Midi Midi.Go Midi.Sysex

set_option linter.unusedSimpArgs false

def toGoMsg (m : Message) : mmc.Message := { DeviceID := m.dev, Command := m.cmd, IsResponse := m.resp, Data := m.data }
def toGoGoTo (g : GoTo) : mmc.GoTo :=
  { DeviceID := g.dev, Hour := g.hour, Minute := g.minute, Second := g.second, Frame := g.frame, SubFrame := g.sub }

theorem code_Message_SysEx (m : Message) : mmc.Message.SysEx (toGoMsg m) = Message.build m := by
  unfold mmc.Message.SysEx Message.build toGoMsg
  by_cases h : m.dev = 0 ∨ m.dev > 127 <;> simp [h, Id.run] <;> rfl

theorem code_GoTo_SysEx (g : GoTo) : mmc.GoTo.SysEx (toGoGoTo g) = GoTo.build g := rfl

theorem len13 (bt : Bytes) (h : bt.length = 13) :
    ∃ a b c d e f g h' i j k l m, bt = [a, b, c, d, e, f, g, h', i, j, k, l, m] := by
  match bt, h with
  | [a, b, c, d, e, f, g, h', i, j, k, l, m], _ => exact ⟨a, b, c, d, e, f, g, h', i, j, k, l, m, rfl⟩

theorem code_GoTo_Parse (g : GoTo) (bt : Bytes) :
    mmc.GoTo.Parse (toGoGoTo g) bt =
      (match GoTo.parse g bt with
       | .ok g' => .ok (toGoGoTo g', false)
       | .err g' => .ok (toGoGoTo g', true)
       | .panic => .error "index out of range") := by
  unfold mmc.GoTo.Parse GoTo.parse
  by_cases hl : bt.length = 13
  case neg =>
    have : ¬ ((bt.length : Int) = 13) := by omega
    simp [hl, this]; rfl
  obtain ⟨b0, b1, b2, b3, b4, b5, b6, b7, b8, b9, b10, b11, b12, rfl⟩ := len13 bt hl
  have okb : ∀ {α β : Type} (x : α) (f : α → Except String β), (Except.ok x >>= f) = f x := fun _ _ => rfl
  have hlen13 : ((13 : Nat) : Int) = 13 := rfl
  have e0 : Go.idx [b0, b1, b2, b3, b4, b5, b6, b7, b8, b9, b10, b11, b12] 0 = .ok b0 := rfl
  have e1 : Go.idx [b0, b1, b2, b3, b4, b5, b6, b7, b8, b9, b10, b11, b12] 1 = .ok b1 := rfl
  have e2 : Go.idx [b0, b1, b2, b3, b4, b5, b6, b7, b8, b9, b10, b11, b12] 2 = .ok b2 := rfl
  have e3 : Go.idx [b0, b1, b2, b3, b4, b5, b6, b7, b8, b9, b10, b11, b12] 3 = .ok b3 := rfl
  have e4 : Go.idx [b0, b1, b2, b3, b4, b5, b6, b7, b8, b9, b10, b11, b12] 4 = .ok b4 := rfl
  have e5 : Go.idx [b0, b1, b2, b3, b4, b5, b6, b7, b8, b9, b10, b11, b12] 5 = .ok b5 := rfl
  have e6 : Go.idx [b0, b1, b2, b3, b4, b5, b6, b7, b8, b9, b10, b11, b12] 6 = .ok b6 := rfl
  have e7 : Go.idx [b0, b1, b2, b3, b4, b5, b6, b7, b8, b9, b10, b11, b12] 7 = .ok b7 := rfl
  have e8 : Go.idx [b0, b1, b2, b3, b4, b5, b6, b7, b8, b9, b10, b11, b12] 8 = .ok b8 := rfl
  have e9 : Go.idx [b0, b1, b2, b3, b4, b5, b6, b7, b8, b9, b10, b11, b12] 9 = .ok b9 := rfl
  have e10 : Go.idx [b0, b1, b2, b3, b4, b5, b6, b7, b8, b9, b10, b11, b12] 10 = .ok b10 := rfl
  have e11 : Go.idx [b0, b1, b2, b3, b4, b5, b6, b7, b8, b9, b10, b11, b12] 11 = .ok b11 := rfl
  have e12 : Go.idx [b0, b1, b2, b3, b4, b5, b6, b7, b8, b9, b10, b11, b12] 12 = .ok b12 := rfl
  simp only [List.length_cons, List.length_nil, Nat.reduceAdd, hlen13, ne_eq, not_true_eq_false, ↓reduceIte,
    Sysex.idx, List.getElem?_cons_zero, List.getElem?_cons_succ, okb,
    e0, e1, e2, e3, e4, e5, e6, e7, e8, e9, e10, e11, e12]
  by_cases c0 : b0 = 240
  case neg => simp [c0]; rfl
  by_cases c1 : b1 = 127
  case neg => simp [c0, c1]; rfl
  by_cases c3 : b3 = 6
  case neg => simp [c0, c1, c3, toGoGoTo]; rfl
  by_cases c4 : b4 = 68
  case neg => simp [c0, c1, c3, c4, toGoGoTo]; rfl
  by_cases c5 : b5 = 6
  case neg => simp [c0, c1, c3, c4, c5, toGoGoTo]; rfl
  by_cases c6 : b6 = 1
  case neg => simp [c0, c1, c3, c4, c5, c6, toGoGoTo]; rfl
  by_cases c12 : b12 = 247
  case neg => simp [c0, c1, c3, c4, c5, c6, c12, toGoGoTo]; rfl
  simp [c0, c1, c3, c4, c5, c6, c12, toGoGoTo]; rfl

theorem slice_lit (bt : Bytes) (lo : Nat) (li : Int) (hli : li = (lo : Int)) (h : lo ≤ bt.length - 2) (h2 : 2 ≤ bt.length) :
    Go.slice bt li ((bt.length - 2 : Nat) : Int) = .ok ((bt.take (bt.length - 2)).drop lo) ∧
    Sysex.slice bt lo (bt.length - 2) = some ((bt.take (bt.length - 2)).drop lo) := by
  subst hli
  constructor
  · unfold Go.slice
    have : (0 : Int) ≤ (lo : Int) ∧ (lo : Int) ≤ ((bt.length - 2 : Nat) : Int) ∧ ((bt.length - 2 : Nat) : Int).toNat ≤ bt.length := by
      refine ⟨by omega, by omega, by simp⟩
    simp only [this, and_self, ↓reduceIte, Int.toNat_natCast]
    have hle : bt.length - 2 ≤ bt.length := by omega
    simp only [hle, and_self, ↓reduceIte, true_and]
    rfl
  · unfold Sysex.slice
    have : lo ≤ bt.length - 2 ∧ bt.length - 2 ≤ bt.length := by omega
    simp only [this, and_self, ↓reduceIte]

theorem code_Message_Parse (g : Message) (bt : Bytes) (hlen : bt.length < 4611686018427387904) :
    match Message.parse g bt with
    | .ok g' => mmc.Message.Parse (toGoMsg g) bt = .ok (toGoMsg g', false)
    | .err g' => mmc.Message.Parse (toGoMsg g) bt = .ok (toGoMsg g', true)
    | .panic => ∃ e, mmc.Message.Parse (toGoMsg g) bt = .error e := by
  unfold Message.parse mmc.Message.Parse
  by_cases h5 : bt.length < 5
  · have : (bt.length : Int) < 5 := by omega
    simp [h5, this]; rfl
  have h5' : ¬ (bt.length : Int) < 5 := by omega
  have okb : ∀ {α β : Type} (x : α) (f : α → Except String β), (Except.ok x >>= f) = f x := fun _ _ => rfl
  have i0 := idx_lit bt 0 0 rfl (by omega); have m0 := midx_lit bt 0 (by omega)
  have i1 := idx_lit bt 1 1 rfl (by omega); have m1 := midx_lit bt 1 (by omega)
  have i2 := idx_lit bt 2 2 rfl (by omega); have m2 := midx_lit bt 2 (by omega)
  have i3 := idx_lit bt 3 3 rfl (by omega); have m3 := midx_lit bt 3 (by omega)
  have i4 := idx_lit bt 4 4 rfl (by omega); have m4 := midx_lit bt 4 (by omega)
  have hl1 : Go.wrapS 64 ((bt.length : Int) - 1) = ((bt.length - 1 : Nat) : Int) := wrapS64_sub bt.length 1 (by omega) hlen
  have hl2 : Go.wrapS 64 ((bt.length : Int) - 2) = ((bt.length - 2 : Nat) : Int) := wrapS64_sub bt.length 2 (by omega) hlen
  have j1 := idx_lit bt _ (bt.length - 1) rfl (by omega); have n1 := midx_lit bt (bt.length - 1) (by omega)
  simp only [h5, h5', ↓reduceIte, i0, i1, i2, i3, i4, m0, m1, m2, m3, m4, hl1, hl2, j1, n1, okb]
  by_cases c0 : bt[0] = 240
  case neg => simp [c0]; rfl
  by_cases c1 : bt[1] = 127
  case neg => simp [c0, c1]; rfl
  by_cases cl : bt[bt.length - 1] = 247
  case neg => simp [c0, c1, cl]; rfl
  simp only [c0, c1, cl, ne_eq, not_true_eq_false, ↓reduceIte]
  by_cases c36 : bt[3] = 6
  · simp only [c36, ↓reduceIte]
    by_cases h6 : bt.length < 6
    · have : (bt.length : Int) < 6 := by omega
      simp [h6, this, toGoMsg]; rfl
    have h6' : ¬ (bt.length : Int) < 6 := by omega
    simp only [h6, h6', ↓reduceIte]
    by_cases c4 : bt[4] ≥ 64
    · simp only [c4, ↓reduceIte]
      by_cases h8 : bt.length < 8
      · have : (bt.length : Int) < 8 := by omega
        simp [h8, this, toGoMsg]; rfl
      have h8' : ¬ (bt.length : Int) < 8 := by omega
      obtain ⟨sg, sm⟩ := slice_lit bt 5 5 rfl (by omega) (by omega)
      simp [h8, h8', sg, sm, okb, toGoMsg]; rfl
    · simp [c4, toGoMsg]; rfl
  by_cases c37 : bt[3] = 7
  · simp only [c36, c37, ↓reduceIte]
    have h67 : ¬ ((7 : Nat) = 6) := by decide
    by_cases h5g : bt.length > 5
    · have : (bt.length : Int) > 5 := by omega
      obtain ⟨sg, sm⟩ := slice_lit bt 4 4 rfl (by omega) (by omega)
      simp [h67, h5g, this, sg, sm, okb, toGoMsg]; rfl
    · have : ¬ (bt.length : Int) > 5 := by omega
      simp [h67, h5g, this, toGoMsg]; rfl
  · simp [c36, c37, toGoMsg]; rfl

end Midi.C18
