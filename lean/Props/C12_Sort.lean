import MidiModel.Generated.SortKeysGo
/-!
# C12, tie to the source: the comparison `sort.Stable` is given in `MultiPlay` — `player.Less` (`smf/track.go`) as
translated by `tools/go2lean` on every run — orders by the scheduled time alone, strictly: equal times compare as
"not less" in both directions, which is what makes the stable sort keep the collection order (= file order within a
track) among them; the model's merge (`Play.lean`) uses exactly this key. (That the call is `sort.Stable` and not
`sort.Sort` is a regenerated fact, see `Props/C12.lean`.)
-/
namespace Midi.C12
open Midi Midi.Go

theorem code_player_Less (p : List smf.playEvent) (a b : Nat) (ha : a < p.length) (hb : b < p.length) :
    smf.player.Less p (a : Int) (b : Int) = .ok (decide (p[a].absTime < p[b].absTime)) := by
  unfold smf.player.Less
  simp [Go.idx, bind, Except.bind, pure, Except.pure, List.getElem?_eq_getElem ha, List.getElem?_eq_getElem hb]

/-- equal keys are unordered in both directions -/
theorem code_player_Less_ties (p : List smf.playEvent) (a b : Nat) (ha : a < p.length) (hb : b < p.length)
    (h : p[a].absTime = p[b].absTime) :
    smf.player.Less p (a : Int) (b : Int) = .ok false ∧ smf.player.Less p (b : Int) (a : Int) = .ok false := by
  rw [code_player_Less p a b ha hb, code_player_Less p b a hb ha, h]
  simp

/-- an index out of range is a panic -/
theorem code_player_Less_oob (p : List smf.playEvent) (a b : Nat) (ha : p.length ≤ a) :
    ∃ e, smf.player.Less p (a : Int) (b : Int) = .error e := by
  unfold smf.player.Less
  have : p[a]? = none := List.getElem?_eq_none ha
  simp [Go.idx, bind, Except.bind, this, throw, throwThe, MonadExceptOf.throw]

theorem code_player_Len (p : List smf.playEvent) : smf.player.Len p = (p.length : Int) := rfl

end Midi.C12
