import MidiModel.Smf
/-!
# Well-formed SMF messages as a small syntax tree

`Ev` names the three kinds of message a track may hold (DESIGN §8: the domain of C01/C03);
`Ev.toBytes` is the API-level byte string (`smf.Message`) of such a message. The theorems are
stated for messages of the form `e.toBytes` with `e.Valid`; `validMsg` is the decidable test.
-/
namespace Midi.Smf

inductive Ev
  | chan (status d1 : Nat) (d2 : Option Nat)      -- `d2 = none` for program change / channel pressure
  | metaEv (typ : Nat) (data : List Nat)
  | sysex (lead : Nat) (data : List Nat)           -- `lead` = 0xF0 or 0xF7
deriving Repr, DecidableEq

def oneData (status : Nat) : Bool := status / 16 = 0xC || status / 16 = 0xD

def Ev.Valid : Ev → Prop
  | .chan s d1 d2 => 0x80 ≤ s ∧ s ≤ 0xEF ∧ d1 < 128 ∧
      (match d2 with | none => oneData s = true | some d => oneData s = false ∧ d < 128)
  | .metaEv t d => t < 256 ∧ d.length < 4294967296
  | .sysex l d => (l = 0xF0 ∨ l = 0xF7) ∧ d.length < 4294967296

def Ev.notEOT : Ev → Prop
  | .metaEv t _ => t ≠ 0x2F
  | _ => True

/-- the API-level message bytes (what `Track.Add` receives / `ReadFrom` returns) -/
def Ev.toBytes : Ev → Msg
  | .chan s d1 none => [s, d1]
  | .chan s d1 (some d2) => [s, d1, d2]
  | .metaEv t d => [0xFF, t] ++ Vlq.encode d.length ++ d
  | .sysex l d => l :: d

/-- a message of the domain: well-formed channel, meta (not end-of-track) or sysex/escape message -/
def ValidMsg (m : Msg) : Prop := ∃ e : Ev, e.Valid ∧ e.notEOT ∧ m = e.toBytes

def statusOr0 : Ev → Nat
  | .chan s _ _ => s
  | _ => 0

end Midi.Smf
