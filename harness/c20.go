package main

import (
	"fmt"
	"sort"
	"strconv"
	"strings"

	"gitlab.com/gomidi/midi/v2/sequencer"
	"gitlab.com/gomidi/midi/v2/smf"
)

// C20: sequencer export lays bars end to end and places events on the 32nd-note grid.
//
// ops
//   seq.export q=<res> ti=<hex> co=<hex> tn=none|<hex>,<hex>… b=<num>/<den>:<trk>.<pos>.<dur>.<hex>;… b=…
//       one b= token per AddBar call (0/0 = "no signature given"), answer s0=<ToSMF0> s1=<ToSMF1>
//   seq.lens <den>      Bar.Len() for all 256 numerators over <den>
//   seq.t32s <lo>       Ticks32th() of the 1024 resolutions lo..lo+1023
//   seq.meter <n> <d>   smf.MetaMeter(n, d)

type seqEvent struct {
	tr       int
	pos, dur uint8
	msg      []byte
}

type seqBar struct {
	num, den uint8
	evs      []seqEvent
}

type seqSong struct {
	q               uint16
	title, composer string
	names           []string // nil = TrackNames not set
	bars            []seqBar
}

func (s *seqSong) String() string {
	var sb strings.Builder
	fmt.Fprintf(&sb, "seq.export q=%d ti=%s co=%s tn=", s.q, hx([]byte(s.title)), hx([]byte(s.composer)))
	if len(s.names) == 0 {
		sb.WriteString("none")
	}
	for i, n := range s.names {
		if i > 0 {
			sb.WriteByte(',')
		}
		sb.WriteString(hx([]byte(n)))
	}
	for _, b := range s.bars {
		fmt.Fprintf(&sb, " b=%d/%d:", b.num, b.den)
		if len(b.evs) == 0 {
			sb.WriteByte('-')
		}
		for i, e := range b.evs {
			if i > 0 {
				sb.WriteByte(';')
			}
			fmt.Fprintf(&sb, "%d.%d.%d.%s", e.tr, e.pos, e.dur, hx(e.msg))
		}
	}
	return sb.String()
}

func parseSeqSong(op string) (*seqSong, bool) {
	toks := strings.Fields(op)
	if len(toks) == 0 || toks[0] != "seq.export" {
		return nil, false
	}
	s := &seqSong{}
	for _, t := range toks[1:] {
		i := strings.IndexByte(t, '=')
		if i < 0 {
			return nil, false
		}
		k, v := t[:i], t[i+1:]
		switch k {
		case "q":
			n, err := strconv.Atoi(v)
			if err != nil || n < 0 || n > 65535 {
				return nil, false
			}
			s.q = uint16(n)
		case "ti":
			s.title = string(unhx(v))
		case "co":
			s.composer = string(unhx(v))
		case "tn":
			if v != "none" {
				for _, n := range strings.Split(v, ",") {
					s.names = append(s.names, string(unhx(n)))
				}
			}
		case "b":
			p := strings.Split(v, ":")
			if len(p) != 2 {
				return nil, false
			}
			var b seqBar
			var n, d int
			if _, err := fmt.Sscanf(p[0], "%d/%d", &n, &d); err != nil || n < 0 || n > 255 || d < 0 || d > 255 {
				return nil, false
			}
			b.num, b.den = uint8(n), uint8(d)
			if p[1] != "-" {
				for _, es := range strings.Split(p[1], ";") {
					f := strings.Split(es, ".")
					if len(f) != 4 {
						return nil, false
					}
					tr, e1 := strconv.Atoi(f[0])
					po, e2 := strconv.Atoi(f[1])
					du, e3 := strconv.Atoi(f[2])
					if e1 != nil || e2 != nil || e3 != nil || tr < 0 || po < 0 || po > 255 || du < 0 || du > 255 {
						return nil, false
					}
					b.evs = append(b.evs, seqEvent{tr, uint8(po), uint8(du), unhx(f[3])})
				}
			}
			s.bars = append(s.bars, b)
		default:
			return nil, false
		}
	}
	return s, true
}

// build constructs the song through the public API: New, exported fields, AddBar per bar.
func (s *seqSong) build() *sequencer.Song {
	so := sequencer.New()
	so.Ticks = smf.MetricTicks(s.q)
	so.Title = s.title
	so.Composer = s.composer
	if s.names != nil {
		so.TrackNames = append([]string{}, s.names...)
	}
	for _, b := range s.bars {
		var evs sequencer.Events
		for _, e := range b.evs {
			evs = append(evs, &sequencer.Event{TrackNo: e.tr, Pos: e.pos, Duration: e.dur, Message: smf.Message(append([]byte{}, e.msg...))})
		}
		so.AddBar(sequencer.Bar{TimeSig: [2]uint8{b.num, b.den}, Events: evs})
	}
	return so
}

// ---------- canonical form of an exported file ----------

type tickMsg struct {
	tick uint64
	msg  string // hex
}

type seqFile struct {
	head   string // format/timeformat
	tracks [][]tickMsg
}

// parseShown reads the showFile/showSMF text "fmt/tf/δ:hex,δ:hex|…" into absolute ticks; events of one
// tick are sorted by their bytes (their order is not defined: sort.Sort is not stable).
func parseShown(s string) (seqFile, bool) {
	var f seqFile
	p := strings.SplitN(s, "/", 3)
	if len(p) != 3 {
		return f, false
	}
	f.head = p[0] + "/" + p[1]
	if p[2] == "none" {
		return f, true
	}
	for _, ts := range strings.Split(p[2], "|") {
		var tr []tickMsg
		if ts != "-" {
			var abs uint64
			for _, es := range strings.Split(ts, ",") {
				i := strings.IndexByte(es, ':')
				if i < 0 {
					return f, false
				}
				d, err := strconv.ParseUint(es[:i], 10, 64)
				if err != nil {
					return f, false
				}
				abs += d
				tr = append(tr, tickMsg{abs, es[i+1:]})
			}
		}
		sort.SliceStable(tr, func(a, b int) bool {
			if tr[a].tick != tr[b].tick {
				return tr[a].tick < tr[b].tick
			}
			return tr[a].msg < tr[b].msg
		})
		f.tracks = append(f.tracks, tr)
	}
	return f, true
}

func (f seqFile) canon() string {
	var sb strings.Builder
	sb.WriteString(f.head)
	for _, t := range f.tracks {
		sb.WriteByte('|')
		for i, e := range t {
			if i > 0 {
				sb.WriteByte(',')
			}
			fmt.Fprintf(&sb, "%d:%s", e.tick, e.msg)
		}
	}
	return sb.String()
}

func isChanHex(m string) bool  { return len(m) >= 2 && m[0] >= '8' && m[0] <= 'E' }
func isSysexHex(m string) bool { return strings.HasPrefix(m, "F0") || strings.HasPrefix(m, "F7") }
func isMeterHex(m string) bool { return strings.HasPrefix(m, "FF58") }
func isEOTHex(m string) bool   { return m == "FF2F00" }

// ---------- the property, computed from its text (no model, no library arithmetic) ----------

type seqExpect struct {
	inDomain bool
	why      string
	total    uint64
	starts   []uint64
	sigs     []tickMsg         // expected time-signature events, in order
	perTrack map[int][]tickMsg // expected event + note-off ticks per track number, canonical order
	all      []tickMsg
	trackNos []int
	sigChg   int
	notes    int
}

func log2den(d int) (int, bool) {
	switch d {
	case 1:
		return 0, true
	case 2:
		return 1, true
	case 4:
		return 2, true
	case 8:
		return 3, true
	case 16:
		return 4, true
	case 32:
		return 5, true
	}
	return 0, false
}

func sortTM(l []tickMsg) {
	sort.SliceStable(l, func(a, b int) bool {
		if l[a].tick != l[b].tick {
			return l[a].tick < l[b].tick
		}
		return l[a].msg < l[b].msg
	})
}

func expectSeq(s *seqSong) (x seqExpect) {
	x.perTrack = map[int][]tickMsg{}
	out := func(why string) seqExpect { x.inDomain = false; x.why = why; return x }
	res := uint64(s.q)
	if res == 0 {
		res = 960
	}
	if res%8 != 0 {
		return out("resolution not divisible by 8")
	}
	t32 := res / 8
	// signatures as the text gives them: a bar without one keeps the previous, 4/4 initially
	type sig struct{ n, d int }
	cur := sig{4, 4}
	sigs := make([]sig, len(s.bars))
	lens := make([]uint64, len(s.bars))
	var total32 uint64
	start32 := make([]uint64, len(s.bars))
	for i, b := range s.bars {
		if !(b.num == 0 && b.den == 0) {
			cur = sig{int(b.num), int(b.den)}
		}
		sigs[i] = cur
		if cur.n < 1 || cur.n > 24 {
			return out("numerator outside 1..24")
		}
		if _, ok := log2den(cur.d); !ok {
			return out("denominator not 1,2,4,8,16,32")
		}
		l := uint64(cur.n * 32 / cur.d)
		if l > 255 {
			return out("bar longer than 255 thirty-seconds")
		}
		lens[i] = l
		start32[i] = total32
		total32 += l
	}
	x.total = total32 * t32
	prev := sig{4, 4}
	for i, b := range s.bars {
		st := start32[i] * t32
		x.starts = append(x.starts, st)
		if sigs[i] != prev {
			prev = sigs[i]
			l2, _ := log2den(sigs[i].d)
			x.sigs = append(x.sigs, tickMsg{st, fmt.Sprintf("FF5804%02X%02X0808", sigs[i].n, l2)})
			x.sigChg++
		}
		for _, e := range b.evs {
			if e.tr < 0 || e.tr > 7 {
				return out("track number outside 0..7")
			}
			if uint64(e.pos) >= lens[i] {
				return out("event position outside its bar")
			}
			m := e.msg
			chan_ := len(m) >= 2 && len(m) <= 3 && m[0] >= 0x80 && m[0] <= 0xEF
			syx := len(m) >= 1 && (m[0] == 0xF0 || m[0] == 0xF7)
			if !chan_ && !syx {
				return out("event is not a channel or sysex message")
			}
			x.perTrack[e.tr] = append(x.perTrack[e.tr], tickMsg{st + uint64(e.pos)*t32, hx(m)})
			isNote := len(m) == 3 && m[0]&0xF0 == 0x90 && m[1] < 128 && m[2] < 128 && m[2] > 0
			if len(m) == 3 && m[0]&0xF0 == 0x90 && (m[1] > 127 || m[2] > 127) {
				return out("note-on with data bytes above 127")
			}
			if isNote && e.dur > 0 {
				if start32[i]+uint64(e.pos)+uint64(e.dur) > total32 {
					return out("note ends after the song")
				}
				x.notes++
				x.perTrack[e.tr] = append(x.perTrack[e.tr],
					tickMsg{st + (uint64(e.pos)+uint64(e.dur))*t32, fmt.Sprintf("%02X%02X00", 0x80|(m[0]&0x0F), m[1])})
			}
		}
	}
	for no, l := range x.perTrack {
		x.trackNos = append(x.trackNos, no)
		sortTM(l)
		x.all = append(x.all, l...)
	}
	sort.Ints(x.trackNos)
	sortTM(x.all)
	if x.total >= 1<<32 {
		// delta times are 32-bit: a song this long is expressible only if no track (time-signature track, event tracks)
		// is silent for 2^32 ticks, the stretch up to the end of the song included
		gapsOK := func(l []tickMsg) bool {
			var last uint64
			for _, e := range l {
				if e.tick-last >= 1<<32 {
					return false
				}
				last = e.tick
			}
			return x.total-last < 1<<32
		}
		ok := gapsOK(x.sigs)
		for _, l := range x.perTrack {
			ok = ok && gapsOK(l)
		}
		if !ok {
			return out("song of 2^32 ticks or more with a track that is silent for 2^32 ticks")
		}
	}
	x.inDomain = true
	return x
}

func filterTM(l []tickMsg, keep func(string) bool) []tickMsg {
	var r []tickMsg
	for _, e := range l {
		if keep(e.msg) {
			r = append(r, e)
		}
	}
	return r
}

func showTM(l []tickMsg) string {
	var sb strings.Builder
	for i, e := range l {
		if i > 0 {
			sb.WriteByte(',')
		}
		fmt.Fprintf(&sb, "%d:%s", e.tick, e.msg)
	}
	if len(l) == 0 {
		return "-"
	}
	return sb.String()
}

func isEventHex(m string) bool { return isChanHex(m) || isSysexHex(m) }

// checkExport judges one exported file against the expectation; which = "ToSMF0" / "ToSMF1".
func checkExport(which string, f seqFile, x seqExpect, v *Verdict) {
	bad := func(format string, a ...interface{}) {
		v.Oracle = append(v.Oracle, which+": "+short(fmt.Sprintf(format, a...)))
	}
	// every track terminates at the end of the last bar (and nowhere else)
	for i, t := range f.tracks {
		n := 0
		for _, e := range t {
			if isEOTHex(e.msg) {
				n++
			}
		}
		if len(t) == 0 || n != 1 || !isEOTHex(t[len(t)-1].msg) {
			bad("track %d is not terminated by exactly one end-of-track", i)
		} else if t[len(t)-1].tick != x.total {
			bad("track %d ends at tick %d, the last bar ends at %d", i, t[len(t)-1].tick, x.total)
		}
	}
	if which == "ToSMF0" {
		if len(f.tracks) != 1 {
			bad("%d tracks instead of 1", len(f.tracks))
			return
		}
		if got := showTM(filterTM(f.tracks[0], isMeterHex)); got != showTM(x.sigs) {
			bad("time signatures at %s, expected %s", got, showTM(x.sigs))
		}
		if got := showTM(filterTM(f.tracks[0], isEventHex)); got != showTM(x.all) {
			bad("events at %s, expected %s", got, showTM(x.all))
		}
		return
	}
	if len(f.tracks) != 1+len(x.trackNos) {
		bad("%d tracks instead of 1+%d", len(f.tracks), len(x.trackNos))
		return
	}
	if got := showTM(filterTM(f.tracks[0], isMeterHex)); got != showTM(x.sigs) {
		bad("time signatures at %s, expected %s", got, showTM(x.sigs))
	}
	if got := filterTM(f.tracks[0], isEventHex); len(got) != 0 {
		bad("events on the bar track: %s", showTM(got))
	}
	for i, no := range x.trackNos {
		if got := showTM(filterTM(f.tracks[i+1], isEventHex)); got != showTM(x.perTrack[no]) {
			bad("track %d events at %s, expected %s", no, got, showTM(x.perTrack[no]))
		}
		if got := filterTM(f.tracks[i+1], isMeterHex); len(got) != 0 {
			bad("time signature on event track %d: %s", no, showTM(got))
		}
	}
}

// ---------- generator ----------

type seqSig struct{ n, d int }

var seqDomainSigs []seqSig // every n/d with n 1..24, d a power of two ≤ 32 and n*32/d ≤ 255

func init() {
	for _, d := range []int{1, 2, 4, 8, 16, 32} {
		for n := 1; n <= 24; n++ {
			if n*32/d <= 255 {
				seqDomainSigs = append(seqDomainSigs, seqSig{n, d})
			}
		}
	}
}

var seqFavSigs = []seqSig{{6, 8}, {9, 8}, {12, 8}, {3, 4}, {4, 4}, {7, 1}, {15, 2}, {24, 4}, {24, 8}, {1, 32}, {8, 4}, {7, 8}, {24, 32}, {5, 4}, {2, 2}, {8, 8}, {16, 16}}

var seqResolutions = []int{8, 16, 24, 48, 96, 120, 192, 240, 384, 480, 960, 960, 0, 1920, 15360, 32768, 65528}

func genSeqMsg(r *Rng, wild bool) []byte {
	ch := byte(r.Intn(16))
	switch r.Intn(12) {
	case 0, 1, 2, 3, 4, 5:
		return []byte{0x90 | ch, byte(r.Intn(128)), byte(1 + r.Intn(127))}
	case 6:
		return []byte{0x90 | ch, byte(r.Intn(128)), 0} // note-on with velocity 0: an ordinary event
	case 7:
		return []byte{0xB0 | ch, byte(r.Intn(128)), byte(r.Intn(128))}
	case 8:
		return []byte{0xC0 | ch, byte(r.Intn(128))}
	case 9:
		return []byte{0xE0 | ch, byte(r.Intn(128)), byte(r.Intn(128))}
	case 10:
		if wild {
			switch r.Intn(4) {
			case 0:
				return []byte{0x90 | ch, byte(128 + r.Intn(128)), byte(128 + r.Intn(128))} // masked by & 0x7F
			case 1:
				return []byte{0x90 | ch, byte(r.Intn(128))} // too short to be a note
			case 2:
				return []byte{0xFF, 0x58, 0x04, 3, 2, 8, 8} // a time signature smuggled in as event
			default:
				return []byte{0x80 | ch, byte(r.Intn(128)), 0}
			}
		}
		return []byte{0xA0 | ch, byte(r.Intn(128)), byte(r.Intn(128))}
	default:
		if r.Chance(1, 3) {
			return append(append([]byte{0xF0}, r.Bytes(r.Intn(4))...), 0xF7)
		}
		return []byte{0xD0 | ch, byte(r.Intn(128))}
	}
}

// genSeqSong: domain = true keeps the song inside the property's domain; otherwise one of the excluded
// points is hit on purpose (these songs only tie the model to the code).
func genSeqSong(r *Rng, tier string, domain bool) (*seqSong, []string) {
	s := &seqSong{}
	tags := []string{}
	s.q = uint16(seqResolutions[r.Intn(len(seqResolutions))])
	if r.Chance(1, 5) {
		s.q = uint16(8 * r.Range(1, 8191))
	}
	if !domain && r.Chance(1, 4) {
		s.q = uint16(r.Range(1, 65535))
		tags = append(tags, "x:any-resolution")
	}
	if r.Chance(1, 2) {
		s.title = "t" + strconv.Itoa(r.Intn(100))
	}
	if r.Chance(1, 3) {
		s.composer = "composer"
	}
	if r.Chance(1, 40) {
		s.title = strings.Repeat("x", 130) // two-byte length
	}
	ntracks := r.Pick(1, 1, 2, 3, 4, 8, 8)
	trackSet := []int{}
	for i := 0; i < 8; i++ {
		trackSet = append(trackSet, i)
	}
	// a random subset of the 8 tracks, so that track numbers have gaps
	for i := len(trackSet) - 1; i > 0; i-- {
		j := r.Intn(i + 1)
		trackSet[i], trackSet[j] = trackSet[j], trackSet[i]
	}
	trackSet = trackSet[:ntracks]
	if k := r.Intn(4); k > 0 {
		n := r.Intn(10)
		s.names = []string{}
		for i := 0; i < n; i++ {
			s.names = append(s.names, "n"+strconv.Itoa(i))
		}
	}
	nbars := r.Pick(0, 1, 2, 3, 5, 8, 13, 21, 34)
	if r.Chance(1, 12) {
		nbars = r.Range(60, 250)
	}
	if tier == "thorough" && r.Chance(1, 60) {
		nbars = r.Range(500, 3000)
	}
	sparse := nbars > 50
	// signatures
	type sg struct{ n, d int }
	eff := make([]sg, nbars)
	cur := sg{4, 4}
	changeP := r.Pick(1, 3, 6, 10)
	for i := 0; i < nbars; i++ {
		var b seqBar
		if i == 0 && r.Chance(1, 2) || i > 0 && r.Chance(changeP, 10) {
			var g seqSig
			if r.Chance(1, 2) {
				g = seqFavSigs[r.Intn(len(seqFavSigs))]
			} else {
				g = seqDomainSigs[r.Intn(len(seqDomainSigs))]
			}
			if r.Chance(1, 8) {
				g = seqSig{cur.n, cur.d} // the same signature given again: no event
			}
			if !domain && r.Chance(1, 3) {
				switch r.Intn(5) {
				case 0:
					g = seqSig{r.Range(8, 24), 1} // 256..768 thirty-seconds: uint8 wraps
					tags = append(tags, "x:bar>255")
				case 1:
					g = seqSig{r.Range(16, 24), 2}
					tags = append(tags, "x:bar>255")
				case 2:
					g = seqSig{r.Range(1, 255), r.Range(1, 32)}
					tags = append(tags, "x:any-sig")
				case 3:
					g = seqSig{r.Range(1, 24), r.Pick(3, 5, 6, 7, 12, 24, 64, 128)}
					tags = append(tags, "x:den-not-pow2")
				default:
					if r.Chance(1, 4) {
						g = seqSig{r.Range(1, 24), 0} // division by zero in Bar.Len
						tags = append(tags, "x:den-0")
					} else {
						g = seqSig{0, r.Range(1, 32)} // empty bars
						tags = append(tags, "x:num-0")
					}
				}
			}
			b.num, b.den = uint8(g.n), uint8(g.d)
			cur = sg{g.n, g.d}
		}
		eff[i] = cur
		s.bars = append(s.bars, b)
	}
	// lengths in 32nds as the text defines them (only meaningful inside the domain)
	lens := make([]int, nbars)
	start := make([]int, nbars)
	total := 0
	for i := range eff {
		l := 0
		if eff[i].d != 0 {
			l = eff[i].n * 32 / eff[i].d
		}
		lens[i] = l
		start[i] = total
		total += l
	}
	density := r.Pick(0, 1, 2, 4, 8)
	if sparse {
		density = r.Pick(0, 1)
	}
	for i := range s.bars {
		l := lens[i]
		if l == 0 || l > 255 {
			if domain {
				continue
			}
			l = 256
		}
		n := r.Intn(density + 1)
		if sparse && !r.Chance(1, 10) {
			n = 0
		}
		if r.Chance(1, 15) {
			n += 6 // a cluster
		}
		var clusterPos = r.Intn(l)
		for k := 0; k < n; k++ {
			var e seqEvent
			e.tr = trackSet[r.Intn(len(trackSet))]
			switch r.Intn(6) {
			case 0:
				e.pos = 0
			case 1:
				e.pos = uint8(l - 1)
			case 2:
				e.pos = uint8(clusterPos) // several events on one tick, often across tracks
			default:
				e.pos = uint8(r.Intn(l))
			}
			e.msg = genSeqMsg(r, !domain)
			room := total - start[i] - int(e.pos) // 32nds to the end of the song
			if room > 255 {
				room = 255
			}
			switch r.Intn(8) {
			case 0:
				e.dur = 0
			case 1:
				if room > 0 {
					e.dur = uint8(room) // ends exactly with the song (or as late as a uint8 allows)
				}
			case 2:
				if room > 0 {
					e.dur = 1
				}
			default:
				if room > 0 {
					e.dur = uint8(1 + r.Intn(room))
				}
			}
			if !domain && r.Chance(1, 10) {
				switch r.Intn(3) {
				case 0:
					e.pos = uint8(r.Range(l-1, 255)) // outside the bar
					tags = append(tags, "x:pos-outside-bar")
				case 1:
					e.dur = uint8(r.Range(1, 255)) // may end after the song: negative closing delta
					tags = append(tags, "x:note-past-end")
				default:
					e.tr = r.Range(8, 40)
					tags = append(tags, "x:track>7")
				}
			}
			s.bars[i].evs = append(s.bars[i].evs, e)
		}
	}
	return s, tags
}

func uniq(tags []string) []string {
	seen := map[string]bool{}
	var r []string
	for _, t := range tags {
		if !seen[t] {
			seen[t] = true
			r = append(r, t)
		}
	}
	return r
}

func seqTags(s *seqSong, x seqExpect) []string {
	tags := []string{}
	if !x.inDomain {
		return []string{"outside-domain"}
	}
	tags = append(tags, "in-domain")
	switch {
	case len(s.bars) == 0:
		tags = append(tags, "bars:0")
	case len(s.bars) <= 3:
		tags = append(tags, "bars:1-3")
	case len(s.bars) <= 40:
		tags = append(tags, "bars:4-40")
	case len(s.bars) <= 250:
		tags = append(tags, "bars:41-250")
	default:
		tags = append(tags, "bars:>250")
	}
	if x.sigChg > 0 {
		tags = append(tags, "sig-change")
	}
	if x.sigChg > 3 {
		tags = append(tags, "sig-change>3")
	}
	if x.notes > 0 {
		tags = append(tags, "note-with-duration")
	}
	if len(x.trackNos) > 1 {
		tags = append(tags, "multi-track")
	}
	if len(x.trackNos) == 8 {
		tags = append(tags, "tracks:8")
	}
	for _, b := range s.bars {
		if int(b.num)*32 > 255 && b.den != 0 {
			tags = append(tags, "num>=8")
			break
		}
	}
	for _, b := range s.bars {
		if b.den == 8 && (b.num == 6 || b.num == 9 || b.num == 12) {
			tags = append(tags, "compound-6/8-9/8-12/8")
			break
		}
	}
	// shared ticks
	for i := 1; i < len(x.all); i++ {
		if x.all[i].tick == x.all[i-1].tick {
			tags = append(tags, "shared-tick")
			break
		}
	}
	if n := len(x.all); n > 0 && x.all[n-1].tick == x.total {
		tags = append(tags, "note-ends-with-song")
	}
	return tags
}

func init() {
	register(&Prop{
		ID: "C20",
		Rule: "songs built through New/AddBar from the seeded PRNG: 0..250 bars (thorough: up to 3000), signatures from the full domain table " +
			"(numerators 1..24 over 1,2,4,8,16,32 with bars ≤ 255 thirty-seconds, biased to 6/8, 9/8, 12/8 and the longest bars), given explicitly, " +
			"repeated or inherited; up to 8 tracks with gaps in the numbering; events at bar start, bar end-1, shared ticks; durations 0, 1, up to exactly " +
			"the end of the song; resolutions divisible by 8 from 8 to 65528 and the default 0; about one song in six leaves the domain on purpose " +
			"(bars > 255, denominator 0 or not a power of two, positions outside the bar, notes past the end, odd resolutions, malformed messages) and " +
			"only ties the model; plus exhaustive tables: Bar.Len for all 256×256 signatures, Ticks32th for all 65536 resolutions, MetaMeter. " +
			"non-trivial = in-domain song with ≥ 2 bars, a signature change and a note with a duration; distinct by op text",
		Gen: func(r *Rng, tier string, emit func(Case)) {
			// NewRng(n+1) is NewRng(n) advanced by one draw (splitmix64 with the seed as multiple of the increment):
			// fork, so that neighbouring seeds give unrelated streams
			r = r.Fork()
			// exhaustive tables first
			for d := 0; d < 256; d++ {
				emit(Case{Op: fmt.Sprintf("seq.lens %d", d), Tags: []string{"table:Bar.Len"}})
			}
			for lo := 0; lo < 65536; lo += 1024 {
				emit(Case{Op: fmt.Sprintf("seq.t32s %d", lo), Tags: []string{"table:Ticks32th"}})
			}
			for _, n := range []int{0, 1, 6, 12, 24, 255} {
				for d := 0; d < 256; d++ {
					emit(Case{Op: fmt.Sprintf("seq.meter %d %d", n, d), Tags: []string{"table:MetaMeter"}})
				}
			}
			// the example of DESIGN §7-19: bars in 12/8, note expected at tick 6000
			emit(Case{Op: "seq.export q=960 ti=- co=- tn=none b=12/8:- b=0/0:0.2.4.903C40", Tags: []string{"design-7-19"}, NonTrivial: true})
			// the sample song of lean/Props/C20.lean
			emit(Case{Op: "seq.export q=480 ti=41 co=- tn=none b=12/8:0.2.4.903C40;3.47.1.B00764 b=12/8:- b=3/4:0.23.1.913E01", Tags: []string{"lean-sample"}, NonTrivial: true})
			n := 1500
			if tier == "thorough" {
				n = 60000
			}
			for i := 0; i < n; i++ {
				domain := !r.Chance(1, 6)
				s, tags := genSeqSong(r, tier, domain)
				x := expectSeq(s)
				tags = append(seqTags(s, x), tags...)
				if !x.inDomain {
					tags = append(tags, "why:"+x.why)
				}
				emit(Case{Op: s.String(), Tags: uniq(tags), NonTrivial: x.inDomain && len(s.bars) >= 2 && x.sigChg > 0 && x.notes > 0})
			}
			// long songs: 2^32 ticks and more in total (thousands of long bars at a high resolution) with signature changes
			// and events often enough that every delta stays below 2^32
			nlong := 2
			if tier == "thorough" {
				nlong = 25
			}
			for i := 0; i < nlong; i++ {
				s := &seqSong{q: uint16(r.Pick(65528, 65528, 65520, 61440))}
				nb := r.Range(2250, 2700)
				sigs := [][2]uint8{{15, 2}, {7, 1}, {15, 2}, {24, 4}, {15, 2}}
				ntr := r.Range(1, 3)
				for b := 0; b < nb; b++ {
					var bar seqBar
					if b%r.Range(300, 700) == 0 {
						sg := sigs[(b/300+i)%len(sigs)]
						bar.num, bar.den = sg[0], sg[1]
					}
					for t := 0; t < ntr; t++ {
						if b == 0 || r.Chance(1, 25) {
							bar.evs = append(bar.evs, seqEvent{t, uint8(r.Intn(100)), uint8(r.Intn(30)), []byte{0x90 | byte(t), byte(r.Intn(128)), byte(1 + r.Intn(127))}})
						}
					}
					s.bars = append(s.bars, bar)
				}
				x := expectSeq(s)
				tags := []string{"long-song(>=2^32 ticks)"}
				if !x.inDomain {
					tags = append(tags, "why:"+x.why)
				} else {
					tags = append(tags, "in-domain")
				}
				emit(Case{Op: s.String(), Tags: tags, NonTrivial: x.inDomain})
			}
			if tier == "thorough" {
				// 2^32 ticks and more: the closing delta of a track without late events wraps (outside the domain, ties the uint32 conversions)
				s := &seqSong{q: 65528}
				s.bars = append(s.bars, seqBar{num: 7, den: 1, evs: []seqEvent{{0, 0, 1, []byte{0x90, 60, 64}}, {3, 5, 0, []byte{0xB0, 7, 100}}}})
				for i := 0; i < 2400; i++ {
					s.bars = append(s.bars, seqBar{})
				}
				emit(Case{Op: s.String(), Tags: []string{"outside-domain", "x:2^32-ticks"}})
			}
		},
		Run: runC20,
	})
}

var names2 = [2]string{"ToSMF0", "ToSMF1"}

func runC20(c Case, m *Model) (v Verdict) {
	toks := strings.Fields(c.Op)
	if len(toks) == 0 {
		v.Mismatch = append(v.Mismatch, "empty op")
		return
	}
	switch toks[0] {
	case "seq.lens":
		d, _ := strconv.Atoi(toks[1])
		got := make([]string, 256)
		for n := 0; n < 256; n++ {
			var l uint8
			if p := try(func() { l = sequencer.Bar{TimeSig: [2]uint8{uint8(n), uint8(d)}}.Len() }); p != "" {
				got[n] = "panic"
			} else {
				got[n] = strconv.Itoa(int(l))
			}
			// the property: numerator × 32 / denominator thirty-seconds whenever that fits in 255
			if d != 0 && n*32/d <= 255 && got[n] != strconv.Itoa(n*32/d) {
				v.Oracle = append(v.Oracle, fmt.Sprintf("Bar.Len of %d/%d is %s, expected %d", n, d, got[n], n*32/d))
			}
		}
		if ans := fields(m.Ask(c.Op))["lens"]; ans != strings.Join(got, ",") {
			v.Mismatch = append(v.Mismatch, "Bar.Len table differs for denominator "+toks[1]+": model "+short(ans)+" impl "+short(strings.Join(got, ",")))
		}
		return
	case "seq.t32s":
		lo, _ := strconv.Atoi(toks[1])
		got := make([]string, 1024)
		for i := range got {
			q := lo + i
			t := smf.MetricTicks(q).Ticks32th()
			got[i] = strconv.FormatUint(uint64(t), 10)
			if q != 0 && q%8 == 0 && uint64(t) != uint64(q/8) {
				v.Oracle = append(v.Oracle, fmt.Sprintf("Ticks32th of resolution %d is %d, expected %d", q, t, q/8))
			}
		}
		if ans := fields(m.Ask(c.Op))["t32"]; ans != strings.Join(got, ",") {
			v.Mismatch = append(v.Mismatch, "Ticks32th table differs from "+toks[1]+": model "+short(ans)+" impl "+short(strings.Join(got, ",")))
		}
		return
	case "seq.meter":
		n, _ := strconv.Atoi(toks[1])
		d, _ := strconv.Atoi(toks[2])
		got := hx(smf.MetaMeter(uint8(n), uint8(d)))
		if l2, ok := log2den(d); ok {
			if want := fmt.Sprintf("FF5804%02X%02X0808", n, l2); got != want {
				v.Oracle = append(v.Oracle, fmt.Sprintf("MetaMeter(%d,%d) = %s, expected %s", n, d, got, want))
			}
		}
		if ans := fields(m.Ask(c.Op))["m"]; ans != got {
			v.Mismatch = append(v.Mismatch, fmt.Sprintf("MetaMeter(%d,%d): model %s impl %s", n, d, ans, got))
		}
		return
	}
	s, ok := parseSeqSong(c.Op)
	if !ok {
		v.Mismatch = append(v.Mismatch, "op not understood by the harness")
		return
	}
	mf := fields(m.Ask(c.Op))
	// implementation: a fresh song per export (both mutate the bars they share)
	impl := [2]string{}
	var implStarts [2][]string
	for i := 0; i < 2; i++ {
		i := i
		if p := try(func() {
			so := s.build()
			var sm smf.SMF
			if i == 0 {
				sm = so.ToSMF0()
			} else {
				sm = so.ToSMF1()
			}
			impl[i] = showSMF(&sm)
			for _, b := range so.Bars() {
				implStarts[i] = append(implStarts[i], strconv.FormatInt(b.AbsTicks, 10))
			}
		}); p != "" {
			impl[i] = "panic"
		}
	}
	x := expectSeq(s)
	// one song object exported repeatedly and in both orders gives what fresh songs give
	if x.inDomain && impl[0] != "panic" && impl[1] != "panic" {
		var seq [4]string
		if p := try(func() {
			so := s.build()
			a := so.ToSMF0()
			seq[0] = showSMF(&a)
			b := so.ToSMF1()
			seq[1] = showSMF(&b)
			a2 := so.ToSMF0()
			seq[2] = showSMF(&a2)
			b2 := so.ToSMF1()
			seq[3] = showSMF(&b2)
		}); p != "" {
			v.Oracle = append(v.Oracle, "exporting one song object repeatedly panicked: "+p)
		} else {
			for k, want := range []string{impl[0], impl[1], impl[0], impl[1]} {
				if seq[k] != want {
					v.Oracle = append(v.Oracle, fmt.Sprintf("export %d of one song object (ToSMF0, ToSMF1, ToSMF0, ToSMF1) differs from the export of a fresh song: %s vs %s", k, short(seq[k]), short(want)))
					break
				}
			}
		}
		v.Tags = append(v.Tags, "song-exported-repeatedly")
		// ... and after a bar's signature was edited through Bars() between two exports, the export is that of a song
		// built with the edited signature from the start
		if len(s.bars) > 0 && len(v.Oracle) == 0 {
			s2 := &seqSong{q: s.q, title: s.title, composer: s.composer, names: s.names}
			cur := [2]uint8{4, 4}
			for _, b := range s.bars {
				if !(b.num == 0 && b.den == 0) {
					cur = [2]uint8{b.num, b.den}
				}
				s2.bars = append(s2.bars, seqBar{num: cur[0], den: cur[1], evs: b.evs})
			}
			k := (len(c.Op) * 7) % len(s2.bars)
			oldLen := int(s2.bars[k].num) * 32 / int(s2.bars[k].den)
			var repl [2]uint8
			for _, cand := range [][2]uint8{{15, 2}, {7, 1}, {24, 4}, {5, 1}, {4, 1}, {12, 8}, {7, 8}, {4, 4}, {3, 4}} {
				if l := int(cand[0]) * 32 / int(cand[1]); l >= oldLen && cand != [2]uint8{s2.bars[k].num, s2.bars[k].den} {
					repl = cand
				}
			}
			if repl != [2]uint8{} {
				s2.bars[k].num, s2.bars[k].den = repl[0], repl[1]
				if x2 := expectSeq(s2); x2.inDomain {
					var edited, fresh [2]string
					if p := try(func() {
						so := s.build()
						a := so.ToSMF0()
						_ = a
						so.Bars()[k].TimeSig = repl
						a2 := so.ToSMF0()
						b2 := so.ToSMF1()
						edited = [2]string{showSMF(&a2), showSMF(&b2)}
						f := s2.build()
						fa := f.ToSMF0()
						fb := s2.build().ToSMF1()
						fresh = [2]string{showSMF(&fa), showSMF(&fb)}
					}); p != "" {
						v.Oracle = append(v.Oracle, "exporting after an edit through Bars() panicked: "+p)
					} else {
						for i := 0; i < 2; i++ {
							fe, ok1 := parseShown(edited[i])
							ff, ok2 := parseShown(fresh[i])
							if !ok1 || !ok2 || fe.canon() != ff.canon() {
								v.Oracle = append(v.Oracle, fmt.Sprintf("%s after bar %d was changed to %d/%d through Bars() (one export before the edit) differs from the export of a song built that way: %s vs %s",
									names2[i], k, repl[0], repl[1], short(edited[i]), short(fresh[i])))
								break
							}
						}
					}
					v.Tags = append(v.Tags, "bar-edited-between-exports")
				}
			}
		}
	}
	// bar starts (Bar.AbsTicks after an export): every bar starts where the previous one ends
	for i := 0; i < 2; i++ {
		if impl[i] == "panic" {
			continue
		}
		got := strings.Join(implStarts[i], ",")
		if got == "" {
			got = "-"
		}
		if mf["st"] != got {
			v.Mismatch = append(v.Mismatch, "bar starts differ: model "+short(mf["st"])+" impl "+short(got))
		}
		if x.inDomain {
			want := make([]string, len(x.starts))
			for k, st := range x.starts {
				want[k] = strconv.FormatUint(st, 10)
			}
			w := strings.Join(want, ",")
			if w == "" {
				w = "-"
			}
			if got != w {
				v.Oracle = append(v.Oracle, "bar starts "+short(got)+", expected "+short(w))
			}
		}
	}
	names := [2]string{"ToSMF0", "ToSMF1"}
	var files [2]seqFile
	for i := 0; i < 2; i++ {
		mod := mf[[2]string{"s0", "s1"}[i]]
		if impl[i] == "panic" || mod == "panic" {
			if impl[i] != mod {
				v.Mismatch = append(v.Mismatch, names[i]+": outcome class differs: model "+short(mod)+" impl "+short(impl[i]))
			}
			if impl[i] == "panic" {
				v.Tags = append(v.Tags, "panic")
				if x.inDomain {
					v.Oracle = append(v.Oracle, names[i]+" panicked on a song of the domain")
				}
			}
			continue
		}
		fi, ok1 := parseShown(impl[i])
		fm, ok2 := parseShown(mod)
		if !ok1 || !ok2 {
			v.Mismatch = append(v.Mismatch, names[i]+": unreadable answer: model "+short(mod)+" impl "+short(impl[i]))
			continue
		}
		files[i] = fi
		if a, b := fm.canon(), fi.canon(); a != b {
			v.Mismatch = append(v.Mismatch, names[i]+" tracks differ: model "+short(a)+" impl "+short(b))
		}
		if x.inDomain {
			checkExport(names[i], fi, x, &v)
		}
	}
	// the two exports carry the same channel messages and time signatures at the same ticks
	if x.inDomain && impl[0] != "panic" && impl[1] != "panic" && len(files[0].tracks) > 0 && len(files[1].tracks) > 0 {
		var a, b []tickMsg
		for _, t := range files[0].tracks {
			a = append(a, filterTM(t, func(m string) bool { return isEventHex(m) || isMeterHex(m) })...)
		}
		for _, t := range files[1].tracks {
			b = append(b, filterTM(t, func(m string) bool { return isEventHex(m) || isMeterHex(m) })...)
		}
		sortTM(a)
		sortTM(b)
		if showTM(a) != showTM(b) {
			v.Oracle = append(v.Oracle, "ToSMF0 and ToSMF1 differ: "+short(showTM(a))+" vs "+short(showTM(b)))
		}
	}
	return
}
