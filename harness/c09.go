package main

import (
	"errors"
	"fmt"
	"io"
	"os"
	"sort"
	"strconv"
	"strings"

	"gitlab.com/gomidi/midi/v2/smf"
)

// cutReader delivers data in pieces: a Read never crosses one of the cut points, the last bytes
// may come together with io.EOF, and from offset fault on every Read fails (sticky).
type cutReader struct {
	data        []byte
	pos         int
	cuts        map[int]bool
	eofWithData bool
	fault       int // -1 = none
	hit         bool
	reads       int
	faultErr    error // nil = errInjected
}

var errInjected = errors.New("injected I/O failure")

// faultErrors: the values a failing source may report; none of them is io.EOF (what gzip readers, HTTP bodies, pipes
// and closed files return when they break in the middle)
var faultErrors = []error{errInjected, io.ErrUnexpectedEOF, io.ErrClosedPipe, io.ErrNoProgress, os.ErrClosed}

func (f *cutReader) Read(p []byte) (int, error) {
	f.reads++
	if f.fault >= 0 && f.pos >= f.fault {
		f.hit = true
		if f.faultErr != nil {
			return 0, f.faultErr
		}
		return 0, errInjected
	}
	if len(p) == 0 {
		return 0, nil
	}
	if f.pos >= len(f.data) {
		return 0, io.EOF
	}
	n := len(p)
	if rem := len(f.data) - f.pos; n > rem {
		n = rem
	}
	if f.fault >= 0 && n > f.fault-f.pos {
		n = f.fault - f.pos
	}
	for c := f.pos + 1; c < f.pos+n; c++ {
		if f.cuts[c] {
			n = c - f.pos
			break
		}
	}
	copy(p, f.data[f.pos:f.pos+n])
	f.pos += n
	if f.pos == len(f.data) && f.eofWithData && (f.fault < 0 || f.fault > f.pos) {
		return n, io.EOF
	}
	return n, nil
}

func readClassFrom(rd io.Reader) string {
	var out string
	if p := try(func() {
		s, err := smf.ReadFrom(rd)
		if err != nil {
			out = "error"
		} else {
			out = "ok:" + showSMF(s)
		}
	}); p != "" {
		return "panic"
	}
	return out
}

func cutsString(cuts []int) string {
	if len(cuts) == 0 {
		return "-"
	}
	s := make([]string, len(cuts))
	for i, c := range cuts {
		s[i] = strconv.Itoa(c)
	}
	return strings.Join(s, ",")
}

func parseCuts(s string) map[int]bool {
	m := map[int]bool{}
	if s == "-" || s == "" {
		return m
	}
	for _, t := range strings.Split(s, ",") {
		c, _ := strconv.Atoi(t)
		m[c] = true
	}
	return m
}

// genStreamFiles yields byte strings: valid grammar files (bytes come from the Lean grammar), their
// truncations, and raw soups.
func genStreamFile(r *Rng, m *Model) []byte {
	switch r.Intn(8) {
	case 0:
		return genRawSMF(r)
	case 7:
		// a grammar file in which one chunk's declared length and its content disagree: padding behind the
		// end-of-track that the length covers, a length that reaches into the next chunk, a length that is too short
		c := genGram(r, "quick")
		b := unhx(fields(m.Ask(c.Op))["bytes"])
		return lieAboutChunkLength(r, b)
	case 1:
		// a grammar file whose MThd chunk declares another length than 6 (SMF 1.0 allows a longer header):
		// the extra bytes follow the six known ones, a shorter one cuts into them
		c := genGram(r, "quick")
		b := unhx(fields(m.Ask(c.Op))["bytes"])
		if len(b) < 14 {
			return b
		}
		l := r.Pick(0, 1, 5, 7, 8, 8, 9, 10, 12, 16, 33, 38, 40, 64, 100, 300)
		out := append([]byte{}, b[:4]...)
		out = append(out, byte(l>>24), byte(l>>16), byte(l>>8), byte(l))
		if l <= 6 {
			if r.Bool() {
				out = append(out, b[8:8+l]...) // really shorter
			} else {
				out = append(out, b[8:14]...) // only declared shorter
			}
		} else {
			out = append(out, b[8:14]...)
			out = append(out, r.Bytes(l-6)...)
		}
		out = append(out, b[14:]...)
		if r.Chance(1, 5) {
			out = out[:r.Intn(len(out))]
		}
		return out
	default:
		c := genGram(r, "quick")
		mf := fields(m.Ask(c.Op))
		b := unhx(mf["bytes"])
		if r.Chance(1, 4) && len(b) > 0 {
			b = b[:r.Intn(len(b))]
		}
		return b
	}
}

// lieAboutChunkLength edits one chunk (any but the header) of a well-formed file.
func lieAboutChunkLength(r *Rng, b []byte) []byte {
	type chunk struct{ pos, ln int }
	var chunks []chunk
	for pos := 0; pos+8 <= len(b); {
		ln := int(b[pos+4])<<24 | int(b[pos+5])<<16 | int(b[pos+6])<<8 | int(b[pos+7])
		if pos+8+ln > len(b) {
			break
		}
		if pos > 0 {
			chunks = append(chunks, chunk{pos, ln})
		}
		pos += 8 + ln
	}
	if len(chunks) == 0 {
		return b
	}
	// mostly a chunk that is not the last one
	ch := chunks[r.Intn(len(chunks))]
	if len(chunks) > 1 && r.Chance(2, 3) {
		ch = chunks[r.Intn(len(chunks)-1)]
	}
	put := func(out []byte, ln int) {
		out[ch.pos+4], out[ch.pos+5], out[ch.pos+6], out[ch.pos+7] = byte(ln>>24), byte(ln>>16), byte(ln>>8), byte(ln)
	}
	end := ch.pos + 8 + ch.ln
	out := append([]byte{}, b...)
	switch r.Intn(4) {
	case 0, 1: // padding that the length covers
		k := r.Pick(1, 1, 2, 3, 4, 7, 8, 9, 16, 100)
		pad := r.Bytes(k)
		if r.Bool() {
			for i := range pad {
				pad[i] = 0
			}
		}
		out = append(append(append([]byte{}, b[:end]...), pad...), b[end:]...)
		put(out, ch.ln+k)
	case 2: // the length reaches into what follows
		put(out, ch.ln+r.Pick(1, 2, 4, 8, 9, 20))
	default: // the length is too short
		if ch.ln > 0 {
			put(out, ch.ln-r.Range(1, min(ch.ln, 6)))
		}
	}
	return out
}

func randomCuts(r *Rng, n int) []int {
	var cuts []int
	switch r.Intn(5) {
	case 0: // one byte per Read
		for i := 1; i < n; i++ {
			cuts = append(cuts, i)
		}
	case 1: // two or three pieces
		for k := r.Range(1, 2); k > 0 && n > 1; k-- {
			cuts = append(cuts, r.Range(1, n-1))
		}
	case 2: // dense random
		for i := 1; i < n; i++ {
			if r.Chance(1, 3) {
				cuts = append(cuts, i)
			}
		}
	case 3: // sparse random
		for i := 1; i < n; i++ {
			if r.Chance(1, 17) {
				cuts = append(cuts, i)
			}
		}
	default: // none
	}
	sort.Ints(cuts)
	return cuts
}

// C09: reading does not depend on how the source delivers its bytes.
func init() {
	register(&Prop{
		ID: "C09",
		Rule: "files = valid grammar trees (bytes from the Lean grammar), truncations of them and raw byte soups; per file: every single " +
			"split point exhaustively (capped per tier), one byte per Read, random partitions, each with and without data+EOF in one call; " +
			"the fragmenting io.Reader never crosses a cut point. non-trivial = the stream is actually delivered in >= 2 pieces or with data+EOF; " +
			"distinct by op text",
		Gen: func(r *Rng, tier string, emit func(Case)) {
			n := 100
			if tier == "thorough" {
				n = 1200
			}
			for i := 0; i < n; i++ {
				emit(Case{Op: fmt.Sprintf("c09.file seed=%d", r.U64()%1000000000), Tags: []string{"file"}, NonTrivial: true})
			}
		},
		Run: runC09,
	})
}

func runC09(c Case, m *Model) (v Verdict) {
	v.Counts = map[string]int{}
	var b []byte
	var r *Rng
	if strings.HasPrefix(c.Op, "stream.read") { // replay of a single configuration
		f := strings.Fields(c.Op)
		b = unhx(f[1])
		fl := fields(strings.Join(f[2:], " "))
		judgeFrag(b, fl["cuts"], fl["eofdata"] == "1", m, &v)
		return
	}
	var seed uint64
	fmt.Sscanf(fields(c.Op)["seed"], "%d", &seed)
	r = NewRng(seed)
	b = genStreamFile(r, m)
	n := len(b)
	// every single split point (both EOF styles alternate), capped
	maxCut := 400
	if n > 8000 {
		maxCut = 50
	} else if n > 2000 {
		maxCut = 120
	}
	step := 1
	if n > maxCut {
		step = n / maxCut
	}
	for k := 1; k < n; k += step {
		judgeFrag(b, strconv.Itoa(k), k%2 == 0, m, &v)
		if len(v.Oracle)+len(v.Mismatch) > 2 {
			return
		}
	}
	for i := 0; i < 6; i++ {
		judgeFrag(b, cutsString(randomCuts(r, n)), r.Bool(), m, &v)
	}
	judgeFrag(b, "-", true, m, &v)
	if msg := otherSources(b, readClass(b)); msg != "" {
		v.Oracle = append(v.Oracle, msg+" :: "+short(hx(b)))
	}
	return
}

func judgeFrag(b []byte, cuts string, eofData bool, m *Model, v *Verdict) {
	mem := readClass(b)
	fr := &cutReader{data: b, cuts: parseCuts(cuts), eofWithData: eofData, fault: -1}
	got := readClassFrom(readerVariant(fr, len(b)+len(cuts)))
	v.Counts["configurations"]++
	v.Counts["reader:"+readerVariantNames[(len(b)+len(cuts))%5]]++
	v.Counts["class:"+strings.SplitN(mem, ":", 2)[0]]++
	ed := 0
	if eofData {
		ed = 1
	}
	op := fmt.Sprintf("stream.read %s cuts=%s eofdata=%d", hx(b), cuts, ed)
	if got != mem {
		v.Oracle = append(v.Oracle, "fragmented read differs from in-memory read: "+short(got)+" vs "+short(mem)+" :: "+short(op))
	}
	// the same with a logger configured (smf.Log): logging must not read on its own account
	frl := &cutReader{data: b, cuts: parseCuts(cuts), eofWithData: eofData, fault: -1}
	gotl := mem
	if v.Counts["configurations"]%3 == 0 {
		// (every third configuration: the offsets of one file are walked with step 1, so each region is met)
	} else if p := try(func() {
		sm, err := smf.ReadFrom(readerVariant(frl, len(b)+len(cuts)), smf.Log(smf.LogTo(io.Discard)))
		if err != nil {
			gotl = "error"
		} else {
			gotl = "ok:" + showSMF(sm)
		}
	}); p != "" {
		gotl = "panic"
	}
	v.Counts["configurations-with-logger"]++
	if gotl != mem {
		v.Oracle = append(v.Oracle, "with smf.Log set the fragmented read differs from the in-memory read: "+short(gotl)+" vs "+short(mem)+" :: "+short(op))
	}
	mf := fields(m.Ask(op))
	if mf["r"] != got || mf["mem"] != mem {
		v.Mismatch = append(v.Mismatch, "model r="+short(mf["r"])+" mem="+short(mf["mem"])+" impl r="+short(got)+" mem="+short(mem)+" :: "+short(op))
	}
}
