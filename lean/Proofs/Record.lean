import MidiModel.Record
import Proofs.Msg
import Proofs.SmfTrack
/-!
# The recording callback over an arbitrary list of listener messages

`record` is characterised by a structural recursion (`recEvents`); from it: the recorded messages are the
channel messages in arrival order, the deltas are the conversion of the stamp differences between
*recorded* messages.
-/
namespace Midi.Record
open Midi.Smf

/-- the channel messages among what the listener received (with their stamps), in arrival order -/
def chanMsgs (ms : List (Bytes × Int)) : List (Bytes × Int) := ms.filter (fun m => isChannelMsg m.1)

/-- events the callback appends for `ms` when the previously recorded stamp is `last` -/
def recEvents (ticksOf : Int → Nat) : Int → List (Bytes × Int) → List Event
  | _, [] => []
  | last, m :: r =>
    if isChannelMsg m.1 then ⟨ticksOf (wrap32 (m.2 - last)), m.1⟩ :: recEvents ticksOf m.2 r
    else recEvents ticksOf last r

/-! ### `msg.Is(midi.ChannelMsg)` -/

theorem chanType_table : ∀ b < 256,
    Msg.typeIs (Msg.typeOfStatus b) Msg.ChannelMsg = decide (0x80 ≤ b ∧ b ≤ 0xEF) := by decide +kernel

theorem unknown_not_chan : Msg.typeIs Msg.UnknownMsg Msg.ChannelMsg = false := by decide

theorem chanType_iff (b : Nat) :
    Msg.typeIs (Msg.typeOfStatus b) Msg.ChannelMsg = true ↔ 0x80 ≤ b ∧ b ≤ 0xEF := by
  by_cases h : b < 256
  · rw [chanType_table b h]; simp
  · have h1 : ¬ (b ≥ 0x80 ∧ b ≤ 0xEF) := by omega
    have h2 : ¬ (b = 0xF0 ∨ b = 0xF7) := by omega
    have h3 : ¬ b = 0xFF := by omega
    have h4 : ¬ b < 0xF7 := by omega
    have h5 : b > 0xF7 := by omega
    have e : Msg.typeOfStatus b = Msg.UnknownMsg := by
      simp only [Msg.typeOfStatus, h1, h2, h3, h4, h5, if_false, if_true, Msg.getRealtimeType, Msg.rtMessages]
      have : ¬ b = 0xF8 ∧ ¬ b = 0xF9 ∧ ¬ b = 0xFA ∧ ¬ b = 0xFB ∧ ¬ b = 0xFC ∧ ¬ b = 0xFD ∧ ¬ b = 0xFE := by omega
      simp [this]
    rw [e, unknown_not_chan]
    constructor
    · intro h; cases h
    · intro h; omega

/-- the test of the callback looks at the first byte only: a channel status -/
theorem isChannelMsg_iff (m : Bytes) :
    isChannelMsg m = true ↔ ∃ b r, m = b :: r ∧ 0x80 ≤ b ∧ b ≤ 0xEF := by
  cases m with
  | nil =>
    simp only [isChannelMsg, unknown_not_chan]
    constructor
    · intro h; cases h
    · rintro ⟨b, r, h, _⟩; cases h
  | cons b r =>
    simp only [isChannelMsg, chanType_iff]
    constructor
    · intro h; exact ⟨b, r, rfl, h⟩
    · rintro ⟨b', r', h, hb⟩; cases h; exact hb

/-- link to the `Option`-valued model of `Message.Is` that C08 ties to the code: the call never panics
    and answers `isChannelMsg` -/
theorem isChannelMsg_msgIs (m : Bytes) : Msg.msgIs .midi m Msg.ChannelMsg = some (isChannelMsg m) := by
  cases m with
  | nil => rfl
  | cons b r => simp [Msg.msgIs, Msg.typeOf, isChannelMsg]

theorem chan_ne_EOT (m : Bytes) (h : isChannelMsg m = true) : (m == EOT) = false := by
  obtain ⟨b, r, rfl, h1, h2⟩ := (isChannelMsg_iff m).1 h
  have : b ≠ 0xFF := by omega
  simp [EOT, this]

/-! ### the fold -/

theorem foldl_onMsg (ticksOf : Int → Nat) (ms : List (Bytes × Int)) :
    ∀ (t : Track) (last : Int), t.isClosed = false →
      (ms.foldl (onMsg ticksOf) ⟨t, last⟩).track = t ++ recEvents ticksOf last ms ∧
      Track.isClosed (t ++ recEvents ticksOf last ms) = false := by
  induction ms with
  | nil => intro t last h; simp [recEvents, h]
  | cons m r ih =>
    intro t last h
    by_cases hc : isChannelMsg m.1 = true
    · have hopen : Track.isClosed (t ++ [⟨ticksOf (wrap32 (m.2 - last)), m.1⟩]) = false := by
        rw [isClosed_snoc]; exact chan_ne_EOT m.1 hc
      have := ih (t ++ [⟨ticksOf (wrap32 (m.2 - last)), m.1⟩]) m.2 hopen
      simp only [List.foldl_cons, onMsg, hc, Bool.not_true, Bool.false_eq_true, if_false, recEvents, if_true,
        add_open t _ m.1 h]
      simpa [List.append_assoc] using this
    · have hc' : isChannelMsg m.1 = false := by simpa using hc
      have := ih t last h
      simp only [List.foldl_cons, onMsg, hc', Bool.not_false, if_true, recEvents, Bool.false_eq_true, if_false]
      exact this

/-- the recorded track: the tempo event at delta 0, then one event per channel message -/
theorem record_eq (ticksOf : Int → Nat) (tempoMsg : Bytes) (ms : List (Bytes × Int)) (ht : tempoMsg ≠ EOT) :
    record ticksOf tempoMsg ms = ⟨0, tempoMsg⟩ :: recEvents ticksOf 0 ms ∧
    Track.isClosed (record ticksOf tempoMsg ms) = false := by
  have h0 : Track.add [] 0 [tempoMsg] = [⟨0, tempoMsg⟩] := by simp [Track.add, Track.isClosed, addEvents]
  have hopen : Track.isClosed [⟨0, tempoMsg⟩] = false := by
    simp [Track.isClosed, ht]
  have := foldl_onMsg ticksOf ms [⟨0, tempoMsg⟩] 0 hopen
  simp only [record, start, h0]
  constructor
  · simpa using this.1
  · rw [this.1]; exact this.2

theorem recEvents_msgs (ticksOf : Int → Nat) (ms : List (Bytes × Int)) :
    ∀ last, (recEvents ticksOf last ms).map (·.msg) = (chanMsgs ms).map (·.1) := by
  induction ms with
  | nil => intro _; rfl
  | cons m r ih =>
    intro last
    by_cases hc : isChannelMsg m.1 = true
    · simp [recEvents, chanMsgs, hc]; simpa [chanMsgs] using ih m.2
    · have hc' : isChannelMsg m.1 = false := by simpa using hc
      simp [recEvents, chanMsgs, hc']; simpa [chanMsgs] using ih last

theorem recEvents_deltas (ticksOf : Int → Nat) (ms : List (Bytes × Int)) :
    ∀ last, (recEvents ticksOf last ms).map (·.delta) =
      List.zipWith (fun t p => ticksOf (wrap32 (t - p))) ((chanMsgs ms).map (·.2)) (last :: (chanMsgs ms).map (·.2)) := by
  induction ms with
  | nil => intro _; rfl
  | cons m r ih =>
    intro last
    by_cases hc : isChannelMsg m.1 = true
    · simp [recEvents, chanMsgs, hc]; simpa [chanMsgs] using ih m.2
    · have hc' : isChannelMsg m.1 = false := by simpa using hc
      simp [recEvents, chanMsgs, hc']; simpa [chanMsgs] using ih last

theorem recEvents_length (ticksOf : Int → Nat) (ms : List (Bytes × Int)) (last : Int) :
    (recEvents ticksOf last ms).length = (chanMsgs ms).length := by
  have := congrArg List.length (recEvents_msgs ticksOf ms last)
  simpa using this

theorem wrap32_id (x : Int) (h1 : -2147483648 ≤ x) (h2 : x < 2147483648) : wrap32 x = x := by
  unfold wrap32; omega

end Midi.Record
