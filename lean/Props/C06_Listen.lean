import Props.C04_Listen
/-!
# C06, tie to the source: the re-typing closure of `midi.ListenTo` as translated from `v2/listen.go` on every run follows
the model's `Live.retype` (proved in `Props/C04_Listen.lean`; repeated here because C06 rests on the same code).
-/
namespace Midi.C06
open Midi Midi.Live Midi.Go

theorem code_onMsg_follows_retype (env : midi.ListenTo.onMsg.Env) (data : Bytes) (ms : Int)
    (hs : ∀ s r, data = s :: r → 0x80 ≤ s) (hb : ∀ b ∈ data, b < 256) :
    match retype data with
    | some none => ∃ e, midi.ListenTo.onMsg env data ms = .error e
    | some (some m) => ∃ env', midi.ListenTo.onMsg env data ms = .ok env' ∧ env'.trace = env.trace ++ [.recv m ms]
    | none => ∃ env', midi.ListenTo.onMsg env data ms = .ok env' ∧ env'.trace = env.trace :=
  Midi.C04.code_onMsg_follows_retype env data ms hs hb

end Midi.C06
