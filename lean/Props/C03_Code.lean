import MidiModel.Vlq
import MidiModel.Generated.UtilsGo
import Proofs.GoLoops
/-!
# C03 (and C01, C15), tie to the source: `utils.VlqEncode` as translated from `internal/utils/utils.go` on every run
is the model's `Vlq.encode`, for every `uint32` argument — the quotient loop (a translated general `for` loop, at most
`Go.loopFuel` iterations; five suffice) and the in-place `reverse` (two-index swap loop writing into its parameter).
-/
namespace Midi.C03
open Midi Midi.Go

set_option linter.unusedSimpArgs false
set_option linter.unusedVariables false

/-- `byte(quo) | 0x80` is the low seven bits plus 128 -/
theorem digit_fin : ∀ x : Fin 256, (x.val ||| 128) = x.val % 128 + 128 := by decide +kernel
theorem digit (q : Nat) : (q % 256 ||| 128) = q % 128 + 128 := by
  have := digit_fin ⟨q % 256, Nat.mod_lt _ (by decide)⟩
  simp only at this
  rw [this]; omega

/-! ## the quotient loop -/

abbrev qCond : List Nat × Nat → Prop := fun s => s.2 > 0
def qStep (s : List Nat × Nat) : List Nat × Nat := (s.1 ++ [s.2 % 256 ||| 128], s.2 / 128)

theorem q_loop : ∀ (f : Nat) (acc : List Nat) (q : Nat), q < 128 ^ f →
    Go.iter qCond qStep f (acc, q) = (acc ++ Vlq.tailLE f q, 0) := by
  intro f
  induction f with
  | zero =>
    intro acc q h
    have : q = 0 := by simpa using h
    subst this; simp [Go.iter, Vlq.tailLE]
  | succ f ih =>
    intro acc q h
    by_cases hq : q = 0
    · subst hq; simp [Go.iter, Vlq.tailLE, qCond]
    · have hpos : q > 0 := Nat.pos_of_ne_zero hq
      have hlt : q / 128 < 128 ^ f := by
        rw [Nat.div_lt_iff_lt_mul (by decide)]; rw [Nat.pow_succ] at h; exact h
      simp only [Go.iter, qCond, hpos, if_true, qStep, Vlq.tailLE, hq, if_false]
      rw [ih _ _ hlt, digit]
      simp

theorem tail_len : ∀ (f k q : Nat), q < 128 ^ k → (Vlq.tailLE f q).length ≤ k := by
  intro f
  induction f with
  | zero => intro k q _; simp [Vlq.tailLE]
  | succ f ih =>
    intro k q h
    by_cases hq : q = 0
    · simp [Vlq.tailLE, hq]
    · cases k with
      | zero => simp at h; exact absurd h hq
      | succ k =>
        have hlt : q / 128 < 128 ^ k := by
          rw [Nat.div_lt_iff_lt_mul (by decide)]; rw [Nat.pow_succ] at h; exact h
        simp only [Vlq.tailLE, hq, if_false, List.length_cons]
        have := ih k (q / 128) hlt
        omega

/-! ## the in-place reversal -/

def revStep (s : List Nat × Int × Int) : Except String (List Nat × Int × Int) := do
  let x ← Go.idx s.1 s.2.2
  let y ← Go.idx s.1 s.2.1
  let b ← Go.setIdx s.1 s.2.1 x
  let b ← Go.setIdx b s.2.2 y
  pure (b, Go.wrapS 64 (s.2.1 + 1), Go.wrapS 64 (s.2.2 - 1))

/-- the translated `reverse` is its swap loop, at most `Go.loopFuel` swaps -/
theorem reverse_eq (l : List Nat) : utils.reverse l = (do
    let s ← Go.iterM (fun s : List Nat × Int × Int => s.2.1 < s.2.2) revStep Go.loopFuel
              (l, 0, Go.wrapS 64 ((l.length : Int) - 1))
    if s.2.1 < s.2.2 then throw "go2lean: loop fuel exhausted" else pure s.1) := by
  unfold utils.reverse
  rw [← Go.forIn_range_whileM]
  simp only []
  congr 1
  · congr 1
    funext _ st
    split
    · rfl
    · simp only [revStep, map_eq_pure_bind, bind_assoc, pure_bind]

theorem swap_step (l : List Nat) (i j : Nat) (hi : i < l.length) (hj : j < l.length) (hj' : j < 2 ^ 62) (hij : i < j) :
    revStep (l, (i : Int), (j : Int)) = .ok ((l.set i l[j]).set j l[i], ((i + 1 : Nat) : Int), ((j - 1 : Nat) : Int)) := by
  have w1 : Go.wrapS 64 ((i : Int) + 1) = ((i + 1 : Nat) : Int) := by unfold Go.wrapS; omega
  have w2 : Go.wrapS 64 ((j : Int) - 1) = ((j - 1 : Nat) : Int) := by unfold Go.wrapS; omega
  simp [revStep, Go.idx, Go.setIdx, bind, Except.bind, pure, Except.pure, hi, hj, w1, w2]

theorem iterM3 {σ : Type} (c : σ → Prop) [DecidablePred c] (step : σ → Except String σ) (s : σ) :
    Go.iterM c step 3 s = (if c s then step s >>= fun s1 => if c s1 then step s1 >>= fun s2 =>
      if c s2 then step s2 else pure s2 else pure s1 else pure s) := by
  simp only [Go.iterM]
  split
  · congr 1; funext s1; split
    · congr 1; funext s2; split
      · exact bind_pure _
      · rfl
    · rfl
  · rfl

abbrev rCond : List Nat × Int × Int → Prop := fun s => s.2.1 < s.2.2

theorem rev_done (l : List Nat) (r : List Nat) (i j : Int) (n : Int) (hn : Go.wrapS 64 ((l.length : Int) - 1) = n)
    (h3 : Go.iterM rCond revStep 3 (l, 0, n) = .ok (r, i, j)) (hij : ¬ i < j) : utils.reverse l = .ok r := by
  rw [reverse_eq, show Go.loopFuel = 3 + 1021 from rfl, Go.iterM_add, hn]
  show (Go.iterM rCond revStep 3 (l, 0, n) >>= Go.iterM rCond revStep 1021) >>= _ = _
  rw [h3]
  show (Go.iterM rCond revStep 1021 (r, i, j)) >>= _ = _
  rw [Go.iterM_stop rCond revStep 1021 (r, i, j) hij]
  show (if i < j then _ else _) = _
  rw [if_neg hij]; rfl

/-- lists of up to six bytes (all a `uint32` quantity needs) are reversed -/
theorem reverse_small (l : List Nat) (h : l.length ≤ 6) : utils.reverse l = .ok l.reverse := by
  rcases l with _ | ⟨a, _ | ⟨b, _ | ⟨c, _ | ⟨d, _ | ⟨e, _ | ⟨f, _ | ⟨g, r⟩⟩⟩⟩⟩⟩⟩
  · refine rev_done [] _ 0 (-1) (-1) (by decide) ?_ (by decide)
    rw [iterM3]; simp [rCond]; rfl
  · refine rev_done [a] _ 0 0 0 (by simp only [List.length_cons, List.length_nil]; decide) ?_ (by decide)
    rw [iterM3]; simp [rCond]; rfl
  · have s1 := swap_step [a, b] 0 1 (by simp) (by simp) (by decide) (by decide)
    refine rev_done [a, b] _ 1 0 1 (by simp only [List.length_cons, List.length_nil]; decide) ?_ (by decide)
    rw [iterM3]
    simp [rCond, bind, Except.bind, pure, Except.pure] at s1 ⊢
    simp [s1]
  · have s1 := swap_step [a, b, c] 0 2 (by simp) (by simp) (by decide) (by decide)
    refine rev_done [a, b, c] _ 1 1 2 (by simp only [List.length_cons, List.length_nil]; decide) ?_ (by decide)
    rw [iterM3]
    simp [rCond, bind, Except.bind, pure, Except.pure] at s1 ⊢
    simp [s1]
  · have s1 := swap_step [a, b, c, d] 0 3 (by simp) (by simp) (by decide) (by decide)
    have s2 := swap_step [d, b, c, a] 1 2 (by simp) (by simp) (by decide) (by decide)
    refine rev_done [a, b, c, d] _ 2 1 3 (by simp only [List.length_cons, List.length_nil]; decide) ?_ (by decide)
    rw [iterM3]
    simp [rCond, bind, Except.bind, pure, Except.pure] at s1 s2 ⊢
    simp [s1, s2]
  · have s1 := swap_step [a, b, c, d, e] 0 4 (by simp) (by simp) (by decide) (by decide)
    have s2 := swap_step [e, b, c, d, a] 1 3 (by simp) (by simp) (by decide) (by decide)
    refine rev_done [a, b, c, d, e] _ 2 2 4 (by simp only [List.length_cons, List.length_nil]; decide) ?_ (by decide)
    rw [iterM3]
    simp [rCond, bind, Except.bind, pure, Except.pure] at s1 s2 ⊢
    simp [s1, s2]
  · have s1 := swap_step [a, b, c, d, e, f] 0 5 (by simp) (by simp) (by decide) (by decide)
    have s2 := swap_step [f, b, c, d, e, a] 1 4 (by simp) (by simp) (by decide) (by decide)
    have s3 := swap_step [f, e, c, d, b, a] 2 3 (by simp) (by simp) (by decide) (by decide)
    refine rev_done [a, b, c, d, e, f] _ 3 2 5 (by simp only [List.length_cons, List.length_nil]; decide) ?_ (by decide)
    rw [iterM3]
    simp [rCond, bind, Except.bind, pure, Except.pure] at s1 s2 s3 ⊢
    simp [s1, s2, s3]
  · simp at h

/-! ## `VlqEncode` -/

/-- **`utils.VlqEncode` as it stands in the source is the model's encoder**, for every `uint32` argument: no panic,
    the loop ends within its fuel, and the bytes are `Vlq.encode n`. -/
theorem code_VlqEncode (n : Nat) (h : n < 4294967296) : utils.VlqEncode n = .ok (Vlq.encode n) := by
  unfold utils.VlqEncode
  simp only []
  have hq : n / 128 < 128 ^ 5 := by
    have : n / 128 ≤ n := Nat.div_le_self _ _
    have : (128 : Nat) ^ 5 = 34359738368 := by decide
    omega
  have hbody : (fun (_ : Nat) (s : List Nat × Nat) =>
        if ¬ s.snd > 0 then (pure (ForInStep.done (s.fst, s.snd)) : Except String (ForInStep (List Nat × Nat)))
        else pure (ForInStep.yield (s.fst ++ [s.snd % 256 ||| 128], s.snd / 128))) =
      (fun _ st => if ¬ qCond st then pure (ForInStep.done st) else pure (ForInStep.yield (qStep st))) := by
    funext _ st; rfl
  rw [hbody, Go.forIn_range_while qCond qStep]
  have hstop : ¬ qCond (Go.iter qCond qStep 5 ([] ++ [n % 128 % 256], n / 128)) := by
    rw [q_loop 5 _ _ hq]; simp [qCond]
  rw [show Go.loopFuel = 5 + 1019 from rfl, Go.iter_add_of_stop qCond qStep 5 1019 _ hstop, q_loop 5 _ _ hq]
  have hlen : ([] ++ [n % 128 % 256] ++ Vlq.tailLE 5 (n / 128)).length ≤ 6 := by
    have := tail_len 5 5 (n / 128) hq
    simp; omega
  simp only [pure_bind, gt_iff_lt, Nat.lt_irrefl, if_false]
  rw [reverse_small _ hlen]
  have : n % 128 % 256 = n % 128 := by omega
  simp [Vlq.encode, this]

end Midi.C03
