import MidiModel.Smf
namespace Midi.C01
theorem placeholder : True := trivial
end Midi.C01
