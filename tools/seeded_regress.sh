#!/bin/bash
# usage: seeded_regress.sh [ids...]   re-runs the quick check against every kept seeded change (scratch worktrees under $SEED_DIR)
export GOFLAGS=-mod=mod GOPROXY=off GOSUMDB=off GOTOOLCHAIN=local VERIF_DRIFT_SEARCH_S=${VERIF_DRIFT_SEARCH_S:-60}
SD=${SEED_DIR:-/tmp/seed4}
cd "$(dirname "$0")/.."
ids="$@"; [ -z "$ids" ] && ids=$(ls seeded | grep -v REVERTS)
for id in $ids; do
  prop=${id:0:3}; wt=$SD/$prop
  git -C $wt checkout -q -- . ; git -C $wt clean -fdq
  git -C $wt apply /verif/seeded/$id/patch.diff || { echo "$id :: PATCH DOES NOT APPLY"; continue; }
  out=$(VERIF_REPO=$wt ./check $prop 2>&1 | grep -E "^(OK|VIOLATION)" | head -1 | cut -c1-120)
  echo "$id :: $out"
  git -C $wt checkout -q -- .
done
