import MidiModel.Convert
/-!
# Vocabulary of property C16 (not the model of the code)

How a consumer reads a track: absolute tick of an event = running sum of the deltas; the *payload* of a
track = its events other than end-of-track, with absolute ticks; channel message / non-channel message
as MIDI 1.0 defines them (status byte `0x80..0xEF`, channel = low nibble).
-/
namespace Midi.Convert
open Midi.Smf

/-- events with absolute ticks, counting from `a` -/
def timedFrom : Nat → Track → List (Nat × Msg)
  | _, [] => []
  | a, e :: r => (a + e.delta, e.msg) :: timedFrom (a + e.delta) r

/-- events of a track with absolute ticks -/
def timed (t : Track) : List (Nat × Msg) := timedFrom 0 t

/-- the (absolute tick, message) pairs of a track other than end-of-track -/
def payload (t : Track) : List (Nat × Msg) := (timed t).filter (fun p => p.2 != EOT)

/-- `m` is a channel message of channel `c` -/
def IsChanMsg (m : Msg) (c : Nat) : Prop :=
  ∃ b rest, m = b :: rest ∧ 0x80 ≤ b ∧ b ≤ 0xEF ∧ c = b % 16

/-- `m` is not a channel message (meta, sysex, anything else) -/
def IsNonChan (m : Msg) : Prop := ∀ c, ¬ IsChanMsg m c

/-- end-of-track occurs at most as the last event of the track -/
def EOTOnlyLast (t : Track) : Prop := ∀ e ∈ t.dropLast, e.msg ≠ EOT

/-- properly terminated: ends with an end-of-track event and contains none before it -/
def ClosedOnce (t : Track) : Prop :=
  ∃ init δ, t = init ++ [⟨δ, EOT⟩] ∧ ∀ e ∈ init, e.msg ≠ EOT

/-- decidable selectors used in the statements -/
def onChan (c : Nat) (p : Nat × Msg) : Bool := getChannel p.2 == some c
def offChan (p : Nat × Msg) : Bool := getChannel p.2 == none

/-- the channels that occur in a track, ascending -/
def channelsOf (t : Track) : List Nat :=
  (List.range 16).filter (fun c => t.any (fun e => getChannel e.msg == some c))

/-- (tick, message) pairs non-decreasing from `lo`, every step (the first one from `lo`) below `2^32`: exactly what
    `uint32` delta times can express -/
def GapsP : Nat → List (Nat × Msg) → Prop
  | _, [] => True
  | lo, p :: r => lo ≤ p.1 ∧ p.1 - lo < 4294967296 ∧ GapsP p.1 r

instance GapsP.dec : (lo : Nat) → (l : List (Nat × Msg)) → Decidable (GapsP lo l)
  | _, [] => isTrue trivial
  | lo, p :: r =>
    have := GapsP.dec p.1 r
    by unfold GapsP; exact inferInstance

/-- domain of C16 (DESIGN §8): a single-track file that is not format 1 already, end-of-track only where
    `Track.Close` puts it, and — because the recomputed deltas are `uint32` — on every resulting track (the
    non-channel events; each channel) every step from one event to the next, the first one from tick 0, below `2^32`
    ticks. The total length is only bounded by `int64` (the code's accumulator); a source shorter than `2^32` ticks
    is in the domain whatever its events (`Dom.ofTotal`). -/
structure Dom (f : File) (t : Track) : Prop where
  single : f.tracks = [t]
  fmt : f.format ≠ 1
  ticks63 : totalTicks t < 9223372036854775808
  gapsMeta : GapsP 0 ((timed t).filter offChan)
  gapsChan : ∀ c, GapsP 0 ((timed t).filter (onChan c))
  eot : EOTOnlyLast t

end Midi.Convert
