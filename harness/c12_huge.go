package main

import (
	"bytes"
	"fmt"
	"strconv"

	"gitlab.com/gomidi/midi/v2/drivers"
	"gitlab.com/gomidi/midi/v2/smf"
)

// C12, very many events per tick: two tracks with n channel messages in all, nearly all of them on the same tick (an odd
// number of microseconds after the start) and a few on the ticks before and after.  Oracle (no model question, the
// theorems cover every length): each track's messages leave in file order, every message once, times never decrease.
// op: c12.huge n=<events> via=<play|multi>

func c12HugeMsg(track, i int) []byte {
	// neighbours differ, the period is long (16*128*127 per track), the track is recognisable by the channel's parity
	ch := byte((i%8)*2 + track)
	return []byte{0x90 | ch, byte((i / 8) % 128), byte(1 + (i/1024)%127)}
}

func runC12Huge(c Case, m *Model) (v Verdict) {
	f := fields(c.Op)
	n, _ := strconv.Atoi(f["n"])
	if n < 10 {
		v.Mismatch = append(v.Mismatch, "bad op")
		return
	}
	per := [2]int{n / 2, n - n/2}
	var file bytes.Buffer
	var werr error
	if p := try(func() {
		s := smf.NewSMF1()
		s.TimeFormat = smf.MetricTicks(960)
		for k := 0; k < 2; k++ {
			var tr smf.Track
			for i := 0; i < per[k]; i++ {
				var d uint32
				switch {
				case i == 1:
					d = 2 // the shared tick: 1041 µs at 120 BPM
				case i == per[k]-2 || i == per[k]-1:
					d = 1
				}
				tr.Add(d, c12HugeMsg(k, i))
			}
			tr.Close(0)
			s.Add(tr)
		}
		_, werr = s.WriteTo(&file)
	}); p != "" || werr != nil {
		v.Mismatch = append(v.Mismatch, fmt.Sprintf("the file could not be built/written (panic %q, error %v)", p, werr))
		return
	}
	rec := &c12Recorder{}
	var perr error
	if p := try(func() {
		rd := smf.ReadTracksFrom(bytes.NewReader(file.Bytes()))
		if f["via"] == "multi" {
			perr = rd.MultiPlay(map[int]drivers.Out{0: &c12Out{id: 0, rec: rec, opened: true}, 1: &c12Out{id: 1, rec: rec, opened: true}})
		} else {
			perr = rd.Play(&c12Out{id: 0, rec: rec, opened: true})
		}
	}); p != "" || perr != nil {
		v.Oracle = append(v.Oracle, fmt.Sprintf("playing a file of %d events: panic %q, error %v", n, p, perr))
		return
	}
	next := [2]int{}
	for j, s := range rec.sends {
		if len(s.data) != 3 || s.data[0]&0xF0 != 0x90 {
			v.Oracle = append(v.Oracle, fmt.Sprintf("send #%d is % X, which is not in the file", j, s.data))
			return
		}
		k := int(s.data[0] & 1)
		if next[k] >= per[k] || !bytes.Equal(s.data, c12HugeMsg(k, next[k])) {
			v.Oracle = append(v.Oracle, fmt.Sprintf("send #%d of %d: track %d's message % X left although the next message of that track in file order is #%d (% X): file order is not kept within the track", j, n, k, s.data, next[k], c12HugeMsg(k, next[k]%per[k])))
			return
		}
		if f["via"] == "multi" && s.port != k {
			v.Oracle = append(v.Oracle, fmt.Sprintf("send #%d: a message of track %d went to port %d", j, k, s.port))
			return
		}
		next[k]++
	}
	if next != per {
		v.Oracle = append(v.Oracle, fmt.Sprintf("%d + %d messages sent, the file has %d + %d", next[0], next[1], per[0], per[1]))
	}
	v.Counts = map[string]int{"c12-huge-events": n}
	return
}
