import MidiModel.Live
import MidiModel.Generated.TestdrvGo
import MidiModel.Generated.MidicatdrvGo
import Props.C08_Code
/-!
# C14, tie to the source: the option filter of the test driver

`Generated/TestdrvGo.lean` carries, regenerated on every run, the translation of the function literal that
`(*in).Listen` (`v2/drivers/testdrv/driver.go`) hands to `drivers.NewReader`: it captures the listen configuration and
the listener `onMsg`. The theorem: for every configuration and every frame, the closure calls the listener iff the
model's `Live.keep` says so (and never panics). With `Props/C04_Code` (reader) and `Props/C04_Listen` (re-typing) the
three stages of the live input path — decoder, option filter, re-typing — are each tied to the translated source.
-/
namespace Midi.C14
open Midi Midi.Live Midi.Go Midi.Msg Midi.C08

set_option linter.unusedSimpArgs false

def toConf (c : Cfg) : drivers.ListenConfig :=
  { TimeCode := c.tc, ActiveSense := c.as, SysEx := c.sysex, SysExBufferSize := c.buf }

theorem type_fin : ∀ b : Fin 256,
    typeIs (typeOfStatus b.val) 6 = decide (b.val = 254) ∧
    typeIs (typeOfStatus b.val) 2 = decide (b.val = 248) ∧
    typeIs (typeOfStatus b.val) (-4) = decide (b.val = 240 ∨ b.val = 247) := by decide +kernel

theorem rt_none_of_ge (b : Nat) (h : 256 ≤ b) : rtMessages b = none := by
  unfold rtMessages
  have : b ≠ 248 ∧ b ≠ 249 ∧ b ≠ 250 ∧ b ≠ 251 ∧ b ≠ 252 ∧ b ≠ 253 ∧ b ≠ 254 ∧ b ≠ 255 := by omega
  simp [this]

theorem typeOfStatus_big (b : Nat) (h : 256 ≤ b) : typeOfStatus b = 0 := by
  unfold typeOfStatus getRealtimeType
  have h1 : ¬ (b ≥ 128 ∧ b ≤ 239) := by omega
  have h2 : ¬ (b = 240 ∨ b = 247) := by omega
  have h3 : ¬ b = 255 := by omega
  have h4 : ¬ b < 247 := by omega
  have h5 : b > 247 := by omega
  simp only [h1, h2, h3, h4, h5, ↓reduceIte, rt_none_of_ge b h]

/-- the three classes the options filter, read off the first byte (any natural number) -/
theorem type_classes (b : Nat) :
    typeIs (typeOfStatus b) 6 = decide (b = 254) ∧
    typeIs (typeOfStatus b) 2 = decide (b = 248) ∧
    typeIs (typeOfStatus b) (-4) = decide (b = 240 ∨ b = 247) := by
  by_cases h : b < 256
  · exact type_fin ⟨b, h⟩
  · have hb : 256 ≤ b := by omega
    rw [typeOfStatus_big b hb]
    have n1 : ¬ b = 254 := by omega
    have n2 : ¬ b = 248 := by omega
    have n3 : ¬ (b = 240 ∨ b = 247) := by omega
    simp only [n1, n2, n3, decide_false]
    decide

/-- `Message.Is` on a non-empty message looks at the first byte only -/
theorem is_cons (b : Nat) (r : Bytes) (c : Int) : midi.Message.Is (b :: r) c = .ok (typeIs (typeOfStatus b) c) := by
  obtain ⟨t, h1, h2⟩ := code_Is (b :: r) c
  rw [h2]
  have : getType (b :: r) = some (typeOfStatus b) := by simp [getType]
  rw [this] at h1
  cases h1; rfl

theorem is_nil (c : Int) : midi.Message.Is [] c = .ok (typeIs 0 c) := by
  obtain ⟨t, h1, h2⟩ := code_Is [] c
  rw [h2]
  have : getType ([] : Bytes) = some 0 := rfl
  rw [this] at h1
  cases h1; rfl

/-- The translated filter closure calls the listener iff the model keeps the frame, for every configuration. -/
theorem code_filter_is_keep (c : Cfg) (tr : List testdrv.in'.Listen.arg_NewReader.Ev) (m : Bytes) (ms : Int) :
    testdrv.in'.Listen.arg_NewReader { conf := toConf c, trace := tr } m ms =
      .ok { conf := toConf c, trace := if keep c (m, ms) then tr ++ [.onMsg m ms] else tr } := by
  obtain ⟨sx, buf, as, tc⟩ := c
  unfold testdrv.in'.Listen.arg_NewReader keep
  have okb : ∀ {α β : Type} (x : α) (f : α → Except String β), (Except.ok x >>= f) = f x := fun _ _ => rfl
  cases m with
  | nil =>
    simp only [is_nil, okb, toConf]
    simp [typeIs, UnknownMsg]
    rfl
  | cons b r =>
    obtain ⟨k1, k2, k3⟩ := type_classes b
    simp only [is_cons, okb, toConf, k1, k2, k3]
    cases as <;> cases tc <;> cases sx <;>
      by_cases h1 : b = 254 <;> by_cases h2 : b = 248 <;> by_cases h3 : b = 240 <;> by_cases h4 : b = 247 <;>
      simp [h1, h2, h3, h4] <;> first | rfl | omega

/-- the process-backed driver carries a textual copy of the filter (`v2/drivers/midicatdrv/in.go`, the function literal
    stored in `listener`): the same theorem for its translation -/
theorem code_midicatdrv_filter_is_keep (c : Cfg) (tr : List midicatdrv.in'.Listen.listener.Ev) (m : Bytes) (ms : Int) :
    midicatdrv.in'.Listen.listener { conf := toConf c, trace := tr } m ms =
      .ok { conf := toConf c, trace := if keep c (m, ms) then tr ++ [.onMsg m ms] else tr } := by
  obtain ⟨sx, buf, as, tc⟩ := c
  unfold midicatdrv.in'.Listen.listener keep
  have okb : ∀ {α β : Type} (x : α) (f : α → Except String β), (Except.ok x >>= f) = f x := fun _ _ => rfl
  cases m with
  | nil =>
    simp only [is_nil, okb, toConf]
    simp [typeIs, UnknownMsg]
    rfl
  | cons b r =>
    obtain ⟨k1, k2, k3⟩ := type_classes b
    simp only [is_cons, okb, toConf, k1, k2, k3]
    cases as <;> cases tc <;> cases sx <;>
      by_cases h1 : b = 254 <;> by_cases h2 : b = 248 <;> by_cases h3 : b = 240 <;> by_cases h4 : b = 247 <;>
      simp [h1, h2, h3, h4] <;> first | rfl | omega

end Midi.C14
