package main

import (
	"bytes"
	"fmt"
	"strconv"
	"strings"

	"gitlab.com/gomidi/midi/v2"
	"gitlab.com/gomidi/midi/v2/drivers"
	"gitlab.com/gomidi/midi/v2/drivers/testdrv"
)

// C17, payload sessions on the in-memory driver: within listening sessions that accept system exclusive messages a
// sequence of messages of very different sizes is sent (short messages, sysex of a few bytes, of about the receive buffer,
// far beyond it), with a stop + listen-again between some of them.  Contract: every message that fits the receive
// buffer (drivers.Reader documents that larger sysex are ignored) reaches the active listener exactly once, intact and
// in order; a larger one is either ignored or delivered intact; nothing else is delivered.
// items: n>0 a sysex of n bytes in all; 0 a note-on; -1 stop and listen again.

const p17SysexBuf = 1024 // drivers.Reader's default SysExBufferSize

func p17SysexMsg(i, n int) []byte {
	if n <= 0 {
		return []byte{0x90, byte(i & 0x7F), byte(1 + (i>>7)&0x3F)}
	}
	if n < 4 {
		n = 4
	}
	m := make([]byte, 0, n)
	m = append(m, 0xF0, byte(i&0x7F), byte((i>>7)&0x7F))
	for k := 3; k < n-1; k++ {
		m = append(m, byte((k*29+i*7)&0x7F))
	}
	return append(m, 0xF7)
}

func p17GenSysex(r *Rng, tier string, emit func(Case)) {
	n := 150
	if tier == "thorough" {
		n = 4000
	}
	small := []int{4, 5, 6, 7, 8, 9, 10, 12, 15, 16, 17, 31, 32, 33, 64, 100, 255, 256, 257, 500, 511, 512, 513}
	edge := []int{1000, 1022, 1023, 1024}
	big := []int{1025, 1026, 1027, 1500, 2047, 2048, 2049, 3000, 4096, 5000, 9000}
	for c := 0; c < n; c++ {
		k := r.Range(3, 14)
		var items []string
		tags := map[string]bool{}
		for i := 0; i < k; i++ {
			switch x := r.Intn(10); {
			case x < 2:
				items = append(items, "0")
			case x < 5:
				items = append(items, strconv.Itoa(small[r.Intn(len(small))]))
				tags["c17-sysex-small"] = true
			case x < 6:
				items = append(items, strconv.Itoa(edge[r.Intn(len(edge))]))
				tags["c17-sysex-edge"] = true
			case x < 8:
				items = append(items, strconv.Itoa(big[r.Intn(len(big))]))
				tags["c17-sysex-oversize"] = true
			case x < 9:
				items = append(items, strconv.Itoa(r.Range(4, 1400)))
			default:
				items = append(items, "-1")
				tags["c17-sysex-relisten"] = true
			}
		}
		via := "drv"
		if r.Chance(1, 2) {
			via = "lib"
		}
		// the receive buffer: the default (0 = 1024 bytes) or one the listener asks for
		buf := r.Pick(0, 0, 16, 100, 1024, 1025, 2048, 4096, 10000)
		var tl []string
		for t := range tags {
			tl = append(tl, t)
		}
		emit(Case{Op: "ports.sysex via=" + via + " buf=" + strconv.Itoa(buf) + " items=" + strings.Join(items, ","), Tags: append(tl, "testdrv-sysex-"+via), NonTrivial: true})
	}
}

func p17RunSysex(c Case, m *Model) (v Verdict) {
	f := fields(c.Op)
	var items []int
	for _, s := range strings.Split(f["items"], ",") {
		x, err := strconv.Atoi(s)
		if err != nil {
			v.Mismatch = append(v.Mismatch, "unparsable op")
			return
		}
		items = append(items, x)
	}
	bufOpt, _ := strconv.Atoi(f["buf"])
	limit := p17SysexBuf
	if bufOpt > 0 {
		limit = bufOpt
	}
	var sent, got [][]byte
	var fail string
	if p := try(func() {
		drv := testdrv.New("c17sx")
		ins, _ := drv.Ins()
		outs, _ := drv.Outs()
		in, out := ins[0], outs[0]
		if in.Open() != nil || out.Open() != nil {
			fail = "open failed"
			return
		}
		listen := func() (func(), error) {
			if f["via"] == "lib" {
				opts := []midi.Option{midi.UseSysEx()}
				if bufOpt > 0 {
					opts = append(opts, midi.SysExBufferSize(uint32(bufOpt)))
				}
				return midi.ListenTo(in, func(msg midi.Message, ms int32) {
					got = append(got, append([]byte{}, msg.Bytes()...))
				}, opts...)
			}
			return in.Listen(func(b []byte, ms int32) {
				bb := append([]byte{}, b...)
				// the raw callback pads short messages to three bytes
				got = append(got, bb)
			}, drivers.ListenConfig{SysEx: true, SysExBufferSize: uint32(bufOpt)})
		}
		stop, err := listen()
		if err != nil || stop == nil {
			fail = fmt.Sprintf("Listen: %v", err)
			return
		}
		for i, n := range items {
			if n < 0 {
				stop()
				if stop, err = listen(); err != nil || stop == nil {
					fail = fmt.Sprintf("Listen after stop: %v", err)
					return
				}
				continue
			}
			msg := p17SysexMsg(i, n)
			sent = append(sent, msg)
			if err := out.Send(msg); err != nil {
				fail = fmt.Sprintf("Send of message %d (%d bytes): %v", i, len(msg), err)
				return
			}
		}
		stop()
		in.Close()
		out.Close()
	}); p != "" {
		v.Oracle = append(v.Oracle, "a call panicked: "+p)
		return
	}
	if fail != "" {
		v.Oracle = append(v.Oracle, fail)
		return
	}
	j := 0
	for i, msg := range sent {
		if j < len(got) && bytes.Equal(got[j], msg) {
			j++
			continue
		}
		if len(msg) > limit {
			continue
		}
		what := "nothing more"
		if j < len(got) {
			what = fmt.Sprintf("%d bytes %s", len(got[j]), short(fmt.Sprintf("% X", got[j])))
		}
		v.Oracle = append(v.Oracle, fmt.Sprintf("message #%d of the session (%d bytes, fits the receive buffer of %d) did not reach the active listener in order: listener got %s (%d of %d messages delivered so far)", i, len(msg), limit, what, j, len(sent)))
		return
	}
	if j < len(got) {
		v.Oracle = append(v.Oracle, fmt.Sprintf("listener got a message that was not sent: %d bytes %s", len(got[j]), short(fmt.Sprintf("% X", got[j]))))
	}
	v.Counts = map[string]int{"c17-sysex-delivered": j, "c17-sysex-sent": len(sent)}
	return
}
