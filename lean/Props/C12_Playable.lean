import MidiModel.Play
import Props.C08_Smf
import Props.C14_Filter
/-!
# C12, tie to the source: `smf.Message.IsPlayable` (`smf/message.go`) — the filter `MultiPlay` applies to every event — as
translated by `tools/go2lean` on every run is the model's `Play.isPlayable`, for every byte string: no meta event, and
only messages whose first byte has a type above `UnknownMsg`.
-/
namespace Midi.C12
open Midi Midi.Go Midi.Msg

set_option linter.unusedSimpArgs false

theorem known_fin : ∀ b : Fin 256, decide (typeOfStatus b.val ≤ 0) = !Play.typeKnown b.val := by decide +kernel

theorem known (b : Nat) : decide (typeOfStatus b ≤ 0) = !Play.typeKnown b := by
  by_cases h : b < 256
  · exact known_fin ⟨b, h⟩
  · rw [Midi.C14.typeOfStatus_big b (by omega)]
    have : Play.typeKnown b = false := by
      unfold Play.typeKnown
      simp
      omega
    simp [this]

theorem code_smf_IsPlayable (m : Bytes) : smf.Message.IsPlayable m = .ok (Play.isPlayable m) := by
  unfold smf.Message.IsPlayable smf.Message.IsMeta Play.isPlayable Play.isMeta
  rcases m with _ | ⟨b, r⟩
  · obtain ⟨t, h1, h2⟩ := Midi.C08.code_smf_Type []
    have : t = 0 := by simpa [smfGetType] using h1.symm
    subst this
    simp [h2, bind, Except.bind, pure, Except.pure]
  · have n0 : ¬ ((r.length : Int) + 1 = 0) := by omega
    by_cases hb : b = 255
    · subst hb
      simp [Go.idx, n0, bind, Except.bind, pure, Except.pure]
    · obtain ⟨t, h1, h2⟩ := Midi.C08.code_smf_Type (b :: r)
      have ht : t = typeOfStatus b := by
        have : smfGetType (b :: r) = some (typeOfStatus b) := by
          simp [smfGetType, smfIsMeta, hb, getType]
        rw [this] at h1; exact (Option.some.inj h1).symm
      subst ht
      have hk := known b
      simp [Go.idx, n0, hb, h2, bind, Except.bind, pure, Except.pure]
      by_cases hle : typeOfStatus b ≤ 0 <;> simp [hle] at hk ⊢ <;> simp [hk]

end Midi.C12
