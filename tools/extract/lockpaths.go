package main

// lockpaths: for every method and function literal of drivers/midicatdrv/in.go and out.go, the
// Lock/Unlock/RLock/RUnlock/return events on each control path, as a Lean table (C17, `lockpaths_ok`).
//
// Read with go/parser only.  What is trusted: that the statements below are recognised correctly.
//   event kinds  (0,m) X.Lock()   (1,m) X.Unlock()   (2,m) X.RLock()   (3,m) X.RUnlock()
//                (4,f) call of method f of the same receiver (f = id in the table)
//                (5,0) return (explicit or end of body) — deferred unlocks are emitted just before it
//                (6,0) cut: the path was followed through two iterations of an endless loop, or ends in panic
//   mutex m      0 = the receiver itself (embedded sync.RWMutex); others numbered by selector path
//   loops        every loop is unrolled 0, 1 and 2 times (a loop without condition: 1 and 2 times, then cut)
//   branches     if/else, switch and select clauses each give a path; `break`/`continue` are followed
//   closures     function literals are functions of their own (`<method>$n`), they run in other
//                goroutines or later; events inside them do not belong to the enclosing path
// Unsupported constructs (labels, goto, fallthrough) make the extractor fail rather than guess.

import (
	"fmt"
	"go/ast"
	"go/parser"
	"go/token"
	"path/filepath"
	"sort"
	"strings"
)

func init() { extractors = append(extractors, lockPaths) }

type lpEv struct{ kind, arg int }

type lpPath struct {
	ev     []lpEv
	defers []lpEv
	st     int // 0 running, 1 ended, 2 break, 3 continue
}

func (p lpPath) clone() lpPath {
	return lpPath{append([]lpEv{}, p.ev...), append([]lpEv{}, p.defers...), p.st}
}

type lpFunc struct {
	name string
	typ  string // receiver type
	recv string // receiver identifier
	body *ast.BlockStmt
	id   int
}

type lpExt struct {
	funcs   []*lpFunc
	byName  map[string]int // "<type>.<method>" -> id
	mutexes []string
	cur     *lpFunc
	lits    map[*ast.FuncLit]bool
	err     error
	nlit    map[string]int
}

func (x *lpExt) mutex(path string) int {
	for i, m := range x.mutexes {
		if m == path {
			return i
		}
	}
	x.mutexes = append(x.mutexes, path)
	return len(x.mutexes) - 1
}

// selector path of an expression rooted at the receiver: "" for the receiver itself, "driver" for recv.driver;
// other roots keep their name ("mu", "x.y")
func (x *lpExt) selPath(e ast.Expr) (string, bool) {
	switch v := e.(type) {
	case *ast.Ident:
		if v.Name == x.cur.recv {
			return "", true
		}
		return "~" + v.Name, true
	case *ast.SelectorExpr:
		p, ok := x.selPath(v.X)
		if !ok {
			return "", false
		}
		if p == "" {
			return v.Sel.Name, true
		}
		return p + "." + v.Sel.Name, true
	case *ast.ParenExpr:
		return x.selPath(v.X)
	case *ast.StarExpr:
		return x.selPath(v.X)
	}
	return "", false
}

func (x *lpExt) addLit(l *ast.FuncLit) {
	if x.lits[l] {
		return
	}
	x.lits[l] = true
	base := x.cur.name
	if i := strings.IndexByte(base, '$'); i >= 0 {
		base = base[:i]
	}
	x.nlit[base]++
	f := &lpFunc{name: fmt.Sprintf("%s$%d", base, x.nlit[base]), typ: x.cur.typ, recv: x.cur.recv, body: l.Body, id: len(x.funcs)}
	x.funcs = append(x.funcs, f)
}

// lockCall: is this call X.Lock() / X.Unlock() / X.RLock() / X.RUnlock()?
func (x *lpExt) lockCall(c *ast.CallExpr) (lpEv, bool) {
	s, ok := c.Fun.(*ast.SelectorExpr)
	if !ok || len(c.Args) != 0 {
		return lpEv{}, false
	}
	kind := map[string]int{"Lock": 0, "Unlock": 1, "RLock": 2, "RUnlock": 3}
	k, ok := kind[s.Sel.Name]
	if !ok {
		return lpEv{}, false
	}
	p, ok := x.selPath(s.X)
	if !ok {
		x.err = fmt.Errorf("lock call on an expression that is not a selector path in %s", x.cur.name)
		return lpEv{}, false
	}
	return lpEv{k, x.mutex(p)}, true
}

// events of an expression, in evaluation order (operands before the call)
func (x *lpExt) expr(e ast.Node) []lpEv {
	var out []lpEv
	if e == nil {
		return nil
	}
	ast.Inspect(e, func(n ast.Node) bool {
		switch v := n.(type) {
		case *ast.FuncLit:
			x.addLit(v)
			return false
		case *ast.CallExpr:
			if ev, ok := x.lockCall(v); ok {
				out = append(out, ev)
				return false
			}
			for _, a := range v.Args {
				out = append(out, x.expr(a)...)
			}
			if s, ok := v.Fun.(*ast.SelectorExpr); ok {
				if id, ok2 := s.X.(*ast.Ident); ok2 && id.Name == x.cur.recv {
					if f, ok3 := x.byName[x.cur.typ+"."+s.Sel.Name]; ok3 {
						out = append(out, lpEv{4, f})
					}
				} else {
					out = append(out, x.expr(s.X)...)
				}
			} else {
				out = append(out, x.expr(v.Fun)...)
			}
			if id, ok := v.Fun.(*ast.Ident); ok && id.Name == "panic" {
				out = append(out, lpEv{6, 0})
			}
			return false
		}
		return true
	})
	return out
}

func (x *lpExt) add(p lpPath, evs []lpEv) lpPath {
	for _, e := range evs {
		if p.st != 0 {
			break
		}
		p.ev = append(p.ev, e)
		if e.kind == 6 {
			p.st = 1
		}
	}
	return p
}

func (x *lpExt) finish(p lpPath) lpPath {
	for i := len(p.defers) - 1; i >= 0; i-- {
		p.ev = append(p.ev, p.defers[i])
	}
	p.ev = append(p.ev, lpEv{5, 0})
	p.st = 1
	return p
}

func (x *lpExt) block(list []ast.Stmt, ps []lpPath) []lpPath {
	for _, s := range list {
		var out []lpPath
		for _, p := range ps {
			if p.st != 0 {
				out = append(out, p)
				continue
			}
			out = append(out, x.stmt(s, p)...)
		}
		ps = out
		if len(ps) > 20000 {
			x.err = fmt.Errorf("too many paths in %s", x.cur.name)
			return nil
		}
	}
	return ps
}

// clause bodies of switch/select: a `break` leaves the statement, everything else propagates
func (x *lpExt) clause(body []ast.Stmt, p lpPath) []lpPath {
	ps := x.block(body, []lpPath{p})
	for i := range ps {
		if ps[i].st == 2 {
			ps[i].st = 0
		}
	}
	return ps
}

func (x *lpExt) loop(cond ast.Expr, post ast.Stmt, body *ast.BlockStmt, p lpPath) []lpPath {
	var result []lpPath
	cur := []lpPath{p}
	for iter := 0; ; iter++ {
		var next []lpPath
		for _, q := range cur {
			q = x.add(q.clone(), x.expr(cond))
			if q.st != 0 {
				result = append(result, q)
				continue
			}
			if cond != nil || body == nil {
				result = append(result, q.clone()) // the condition is false: leave the loop
			}
			if iter == 2 {
				if cond == nil {
					c := q.clone()
					c.ev = append(c.ev, lpEv{6, 0})
					c.st = 1
					result = append(result, c)
				}
				continue
			}
			for _, r := range x.block(body.List, []lpPath{q.clone()}) {
				switch r.st {
				case 1:
					result = append(result, r)
				case 2:
					r.st = 0
					result = append(result, r)
				default:
					r.st = 0
					if post != nil {
						for _, r2 := range x.stmt(post, r) {
							next = append(next, r2)
						}
					} else {
						next = append(next, r)
					}
				}
			}
		}
		if iter == 2 {
			break
		}
		cur = next
	}
	return result
}

func (x *lpExt) stmt(s ast.Stmt, p lpPath) []lpPath {
	if x.err != nil {
		return nil
	}
	switch v := s.(type) {
	case nil:
		return []lpPath{p}
	case *ast.ExprStmt:
		return []lpPath{x.add(p, x.expr(v.X))}
	case *ast.AssignStmt:
		var evs []lpEv
		for _, e := range v.Rhs {
			evs = append(evs, x.expr(e)...)
		}
		for _, e := range v.Lhs {
			evs = append(evs, x.expr(e)...)
		}
		return []lpPath{x.add(p, evs)}
	case *ast.DeclStmt:
		return []lpPath{x.add(p, x.expr(v.Decl))}
	case *ast.IncDecStmt:
		return []lpPath{x.add(p, x.expr(v.X))}
	case *ast.SendStmt:
		return []lpPath{x.add(p, append(x.expr(v.Chan), x.expr(v.Value)...))}
	case *ast.EmptyStmt:
		return []lpPath{p}
	case *ast.GoStmt:
		var evs []lpEv
		for _, a := range v.Call.Args {
			evs = append(evs, x.expr(a)...)
		}
		if l, ok := v.Call.Fun.(*ast.FuncLit); ok {
			x.addLit(l)
		}
		return []lpPath{x.add(p, evs)}
	case *ast.DeferStmt:
		if ev, ok := x.lockCall(v.Call); ok {
			p.defers = append(p.defers, ev)
			return []lpPath{p}
		}
		var evs []lpEv
		for _, a := range v.Call.Args {
			evs = append(evs, x.expr(a)...)
		}
		if l, ok := v.Call.Fun.(*ast.FuncLit); ok {
			x.addLit(l)
		}
		return []lpPath{x.add(p, evs)}
	case *ast.ReturnStmt:
		var evs []lpEv
		for _, e := range v.Results {
			evs = append(evs, x.expr(e)...)
		}
		p = x.add(p, evs)
		if p.st != 0 {
			return []lpPath{p}
		}
		return []lpPath{x.finish(p)}
	case *ast.BlockStmt:
		return x.block(v.List, []lpPath{p})
	case *ast.IfStmt:
		var out []lpPath
		for _, q := range x.stmt(v.Init, p) {
			if q.st != 0 {
				out = append(out, q)
				continue
			}
			q = x.add(q, x.expr(v.Cond))
			if q.st != 0 {
				out = append(out, q)
				continue
			}
			out = append(out, x.block(v.Body.List, []lpPath{q.clone()})...)
			if v.Else != nil {
				out = append(out, x.stmt(v.Else, q.clone())...)
			} else {
				out = append(out, q.clone())
			}
		}
		return out
	case *ast.ForStmt:
		var out []lpPath
		for _, q := range x.stmt(v.Init, p) {
			if q.st != 0 {
				out = append(out, q)
				continue
			}
			out = append(out, x.loop(v.Cond, v.Post, v.Body, q)...)
		}
		return out
	case *ast.RangeStmt:
		p = x.add(p, x.expr(v.X))
		if p.st != 0 {
			return []lpPath{p}
		}
		// a range loop ends: model it as a loop with an (event-free) condition
		return x.loop(ast.NewIdent("_"), nil, v.Body, p)
	case *ast.SelectStmt:
		var out []lpPath
		for _, c := range v.Body.List {
			cc := c.(*ast.CommClause)
			for _, q := range x.stmt(cc.Comm, p.clone()) {
				if q.st != 0 {
					out = append(out, q)
					continue
				}
				out = append(out, x.clause(cc.Body, q)...)
			}
		}
		return out
	case *ast.SwitchStmt, *ast.TypeSwitchStmt:
		var init ast.Stmt
		var tag ast.Node
		var body *ast.BlockStmt
		if sw, ok := v.(*ast.SwitchStmt); ok {
			init, body = sw.Init, sw.Body
			if sw.Tag != nil {
				tag = sw.Tag
			}
		} else {
			ts := v.(*ast.TypeSwitchStmt)
			init, tag, body = ts.Init, ts.Assign, ts.Body
		}
		var out []lpPath
		for _, q := range x.stmt(init, p) {
			if q.st != 0 {
				out = append(out, q)
				continue
			}
			if tag != nil {
				q = x.add(q, x.expr(tag))
			}
			hasDefault := false
			for _, c := range body.List {
				cc := c.(*ast.CaseClause)
				if cc.List == nil {
					hasDefault = true
				}
				r := q.clone()
				for _, e := range cc.List {
					r = x.add(r, x.expr(e))
				}
				for _, st := range cc.Body {
					if b, ok := st.(*ast.BranchStmt); ok && b.Tok == token.FALLTHROUGH {
						x.err = fmt.Errorf("fallthrough in %s is not supported", x.cur.name)
						return nil
					}
				}
				out = append(out, x.clause(cc.Body, r)...)
			}
			if !hasDefault {
				out = append(out, q.clone())
			}
		}
		return out
	case *ast.BranchStmt:
		if v.Label != nil || v.Tok == token.GOTO || v.Tok == token.FALLTHROUGH {
			x.err = fmt.Errorf("labelled branch / goto in %s is not supported", x.cur.name)
			return nil
		}
		if v.Tok == token.BREAK {
			p.st = 2
		} else {
			p.st = 3
		}
		return []lpPath{p}
	case *ast.LabeledStmt:
		x.err = fmt.Errorf("label in %s is not supported", x.cur.name)
		return nil
	}
	x.err = fmt.Errorf("statement %T in %s is not supported", s, x.cur.name)
	return nil
}

func lockPaths(root string) (string, error) {
	x := &lpExt{byName: map[string]int{}, lits: map[*ast.FuncLit]bool{}, nlit: map[string]int{}}
	x.mutex("") // id 0: the port's own mutex
	fset := token.NewFileSet()
	for _, fn := range []string{"in.go", "out.go"} {
		path := filepath.Join(root, "drivers", "midicatdrv", fn)
		f, err := parser.ParseFile(fset, path, nil, 0)
		if err != nil {
			return "", err
		}
		for _, d := range f.Decls {
			fd, ok := d.(*ast.FuncDecl)
			if !ok || fd.Recv == nil || len(fd.Recv.List) != 1 || fd.Body == nil {
				continue
			}
			r := fd.Recv.List[0]
			recv := "_"
			if len(r.Names) == 1 {
				recv = r.Names[0].Name
			}
			t := r.Type
			if st, ok := t.(*ast.StarExpr); ok {
				t = st.X
			}
			id, ok := t.(*ast.Ident)
			if !ok {
				continue
			}
			lf := &lpFunc{name: id.Name + "." + fd.Name.Name, typ: id.Name, recv: recv, body: fd.Body, id: len(x.funcs)}
			x.byName[lf.name] = lf.id
			x.funcs = append(x.funcs, lf)
		}
	}
	for _, need := range []string{"in.fireCmd", "out.fireCmd"} {
		if _, ok := x.byName[need]; !ok {
			return "", fmt.Errorf("lockpaths: method %s not found in drivers/midicatdrv", need)
		}
	}
	type entry struct {
		f     *lpFunc
		paths [][]lpEv
	}
	var table []entry
	for i := 0; i < len(x.funcs); i++ { // grows while function literals are discovered
		f := x.funcs[i]
		x.cur = f
		ps := x.block(f.body.List, []lpPath{{}})
		if x.err != nil {
			return "", fmt.Errorf("lockpaths: %v", x.err)
		}
		seen := map[string]bool{}
		var paths [][]lpEv
		interesting := false
		for _, p := range ps {
			if p.st == 0 {
				p = x.finish(p)
			} else if p.st != 1 {
				return "", fmt.Errorf("lockpaths: break/continue outside a loop in %s", f.name)
			}
			key := fmt.Sprint(p.ev)
			if seen[key] && len(ps) > 48 { // many unrolled loop paths: keep one of each shape
				continue
			}
			seen[key] = true
			paths = append(paths, p.ev)
			for _, e := range p.ev {
				if e.kind <= 4 {
					interesting = true
				}
			}
		}
		if interesting || f.name == "in.fireCmd" || f.name == "out.fireCmd" {
			sort.SliceStable(paths, func(a, b int) bool { return fmt.Sprint(paths[a]) < fmt.Sprint(paths[b]) })
			table = append(table, entry{f, paths})
		}
	}
	var b strings.Builder
	b.WriteString("/-- control paths of the methods and function literals of drivers/midicatdrv/in.go and out.go that lock or call\n")
	b.WriteString("    a method of the receiver, as (kind, arg) events: 0 Lock 1 Unlock 2 RLock 3 RUnlock (arg = mutex), 4 call (arg = function id),\n")
	b.WriteString("    5 return, 6 cut (tools/extract/lockpaths.go).  ids: ")
	for i, f := range x.funcs {
		if i > 0 {
			b.WriteString(", ")
		}
		fmt.Fprintf(&b, "%d=%s", f.id, f.name)
	}
	b.WriteString("; mutexes: ")
	for i, m := range x.mutexes {
		if m == "" {
			m = "<receiver>"
		}
		if i > 0 {
			b.WriteString(", ")
		}
		fmt.Fprintf(&b, "%d=%s", i, m)
	}
	b.WriteString(" -/\n")
	b.WriteString("def lockPaths : List (Nat × List (List (Nat × Nat))) := [\n")
	for i, e := range table {
		fmt.Fprintf(&b, "  -- %s\n  (%d, [", e.f.name, e.f.id)
		for j, p := range e.paths {
			if j > 0 {
				b.WriteString(",\n    ")
			}
			b.WriteString("[")
			for k, ev := range p {
				if k > 0 {
					b.WriteString(", ")
				}
				fmt.Fprintf(&b, "(%d, %d)", ev.kind, ev.arg)
			}
			b.WriteString("]")
		}
		b.WriteString("])")
		if i < len(table)-1 {
			b.WriteString(",")
		}
		b.WriteString("\n")
	}
	b.WriteString("]\n")
	fmt.Fprintf(&b, "def lockPathsInFireCmd : Nat := %d\n", x.byName["in.fireCmd"])
	fmt.Fprintf(&b, "def lockPathsOutFireCmd : Nat := %d\n", x.byName["out.fireCmd"])
	return b.String(), nil
}
