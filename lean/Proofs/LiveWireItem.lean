import Proofs.LiveWireStep
import Proofs.LiveWireRetype
/-!
# One wire item through the decoder, then an item sequence

`Item.raw` = the raw frames `drivers.Reader` hands over for an item (fixed three-byte frames for channel /
system common messages); `feed_item`: from a state between messages (`Clean`) a legal item yields exactly
`Item.raw` and leaves the decoder between messages with the running status MIDI 1.0 prescribes;
`feed_item_explicit`: for a message that carries its own status byte the same holds from ANY state.
-/
namespace Midi.LiveWire
open Midi.Live

def Item.raw (t : Int) : Item → List Frame
  | .chan st _ body => bodyMsgs t body ++ [(pad3 (st :: bodyData body), t + bodyTime body)]
  | .sysc st body => bodyMsgs t body ++ [(pad3 (st :: bodyData body), t + bodyTime body)]
  | it => it.msgs t

def rawFrom (t : Int) : List Item → List Frame
  | [] => []
  | it :: r => it.raw t ++ rawFrom (t + it.time) r

theorem pair_witness {α β : Type} {p : α × β} {b : β} {P : α → Prop} (h2 : p.2 = b) (h1 : P p.1) :
    ∃ a, p = (a, b) ∧ P a := ⟨p.1, by rw [← h2], h1⟩

/-- a gap, then one byte, then more -/
theorem feed_gap_byte (c : Cfg) (s : St) (g : Gap) (b : Nat) (rest : List Tok) (h : gapOk g = true) :
    feed c s (g ++ .byte b :: rest) =
      ((feed c (step c (adv s (tickSum g)) b).1 rest).1,
       gapMsgs s.ts g ++ ((step c (adv s (tickSum g)) b).2 ++ (feed c (step c (adv s (tickSum g)) b).1 rest).2)) := by
  rw [feed_gap_then c s g _ h, feed_cons]
  rfl

theorem bodyOk_cons {g : Gap} {d : Nat} {r : Body} (h : bodyOk ((g, d) :: r) = true) :
    gapOk g = true ∧ d < 0x80 ∧ bodyOk r = true := by
  simpa [bodyOk, and_assoc] using h

/-- the data bytes of a channel message (with their gaps) from a decoder that has its status -/
theorem feed_chan_body (c : Cfg) (s : St) (st : Nat) (t : Int) (body : Body) (h : WaitC s st none t)
    (h1 : 0x80 ≤ st) (h2 : st ≤ 0xEF) (hlen : body.length = chanLen st) (hb : bodyOk body = true) :
    ∃ s', feed c s (bodyToks body) = (s', bodyMsgs t body ++ [(pad3 (st :: bodyData body), t + bodyTime body)]) ∧
      Clean s' st (t + bodyTime body) := by
  have hcl : chanLen st = 1 ∨ chanLen st = 2 := by unfold chanLen; split <;> simp
  rcases hcl with hl | hl
  · rw [hl] at hlen
    match body, hlen, hb with
    | [(g1, d1)], _, hb =>
      obtain ⟨hg1, hd1, _⟩ := bodyOk_cons hb
      obtain ⟨f1, c1⟩ := step_chan_only c _ st d1 _ (h.adv (tickSum g1)) hl hd1
      apply pair_witness
      · simp only [bodyToks]
        rw [feed_gap_byte c s g1 d1 [] hg1, f1, feed_nil, h.ts]
        simp [bodyMsgs, bodyData, bodyTime, pad3]
      · simp only [bodyToks]
        rw [feed_gap_byte c s g1 d1 [] hg1, feed_nil]
        simpa [bodyTime] using c1
  · rw [hl] at hlen
    match body, hlen, hb with
    | [(g1, d1), (g2, d2)], _, hb =>
      obtain ⟨hg1, hd1, hb2⟩ := bodyOk_cons hb
      obtain ⟨hg2, hd2, _⟩ := bodyOk_cons hb2
      obtain ⟨f1, w1⟩ := step_chan_first c _ st d1 _ (h.adv (tickSum g1)) h1 h2 hl hd1
      obtain ⟨f2, c2⟩ := step_chan_second c _ st d1 d2 _ (w1.adv (tickSum g2)) h1 h2 hl hd2
      apply pair_witness
      · simp only [bodyToks]
        rw [feed_gap_byte c s g1 d1 _ hg1, f1, feed_gap_byte c _ g2 d2 [] hg2, f2, feed_nil, h.ts, w1.ts]
        simp [bodyMsgs, bodyData, bodyTime, pad3, Int.add_assoc]
      · simp only [bodyToks]
        rw [feed_gap_byte c s g1 d1 _ hg1, feed_gap_byte c _ g2 d2 [] hg2, feed_nil]
        simpa [bodyTime, Int.add_assoc] using c2

/-- running status: the first data byte finds the decoder as if the status byte had just been sent -/
theorem feed_elided (c : Cfg) (s : St) (st : Nat) (t : Int) (body : Body) (h : Clean s st t) (hst : st ≠ 0)
    (hne : body ≠ []) (hb : bodyOk body = true) :
    feed c s (bodyToks body) = feed c { s with mode := .chan } (bodyToks body) ∧
      WaitC { s with mode := .chan } st none t := by
  match body, hne, hb with
  | (g1, d1) :: r, _, hb =>
    obtain ⟨hg1, hd1, _⟩ := bodyOk_cons hb
    obtain ⟨e, _⟩ := clean_running c _ st d1 _ (h.adv (tickSum g1)) hst hd1
    refine ⟨?_, rfl, h.status, h.typ hst, h.pend hst, h.ts⟩
    simp only [bodyToks]
    rw [feed_gap_byte c s g1 d1 _ hg1, feed_gap_byte c _ g1 d1 _ hg1, e]
    rfl

/-- the data bytes of a sysex (with their gaps) while they fit into the buffer -/
theorem feed_sx_body (c : Cfg) (hc : c.sysex = true) (body : Body) (rest : List Tok) :
    ∀ (s : St) (data : Bytes) (t0 t : Int), InSx s data t0 t → bodyOk body = true →
      data.length + body.length + 1 < c.bufSize →
      ∃ s', feed c s (bodyToks body ++ rest) = ((feed c s' rest).1, bodyMsgs t body ++ (feed c s' rest).2) ∧
        InSx s' (data ++ bodyData body) t0 (t + bodyTime body) := by
  induction body with
  | nil =>
    intro s data t0 t h _ _
    exact ⟨s, by simp [bodyToks, bodyMsgs], by simpa [bodyData, bodyTime] using h⟩
  | cons p r ih =>
    obtain ⟨g, d⟩ := p
    intro s data t0 t h hb hlen
    obtain ⟨hg, hd, hr⟩ := bodyOk_cons hb
    simp only [List.length_cons] at hlen
    obtain ⟨f1, w1⟩ := step_sx_data c _ data d t0 _ (h.adv (tickSum g)) hc (by omega) hd
    obtain ⟨s', e, w'⟩ := ih _ (data ++ [d]) t0 _ w1 hr (by simp; omega)
    refine ⟨s', ?_, ?_⟩
    · simp only [bodyToks, List.cons_append, List.append_assoc]
      rw [feed_gap_byte c s g d _ hg, f1, e, h.ts]
      simp [bodyMsgs]
    · simpa [bodyData, bodyTime, Int.add_assoc] using w'

theorem syscLen_cases {st n : Nat} (h : syscLen st = some n) :
    ((st = 0xF1 ∨ st = 0xF3) ∧ n = 1) ∨ (st = 0xF2 ∧ n = 2) ∨ (st = 0xF6 ∧ n = 0) := by
  unfold syscLen at h
  split at h
  · left; exact ⟨by assumption, by simpa using h.symm⟩
  · split at h
    · right; left; exact ⟨by assumption, by simpa using h.symm⟩
    · split at h
      · right; right; exact ⟨by assumption, by simpa using h.symm⟩
      · simp at h

/-- a message that carries its own status byte, from ANY decoder state -/
theorem feed_item_explicit (c : Cfg) (hc : c.sysex = true) (s : St) (run : Nat) (it : Item)
    (hex : startsExplicit [it] = true) (hok : it.ok c.bufSize run = true) :
    ∃ s', feed c s it.toks = (s', it.raw s.ts) ∧ Clean s' (it.runAfter run) (s.ts + it.time) := by
  cases it with
  | rt b => simp [startsExplicit] at hex
  | tick d => simp [startsExplicit] at hex
  | chan st e body =>
    simp only [startsExplicit, Bool.not_eq_true'] at hex
    subst hex
    simp only [Item.ok, Bool.and_eq_true, decide_eq_true_eq] at hok
    obtain ⟨⟨⟨⟨h1, h2⟩, _⟩, hlen⟩, hb⟩ := hok
    obtain ⟨f0, w0⟩ := step_chanStatus c s st h1 h2
    obtain ⟨s', e, cl⟩ := feed_chan_body c _ st _ body w0 h1 h2 hlen hb
    refine ⟨s', ?_, cl⟩
    simp only [Item.toks, Bool.false_eq_true, if_false, List.singleton_append]
    rw [feed_cons, stepTok, f0, e]
    rfl
  | sysc st body =>
    simp only [Item.ok, Bool.and_eq_true, decide_eq_true_eq] at hok
    obtain ⟨hl, hb⟩ := hok
    simp only [Item.toks, Item.raw, Item.runAfter, Item.time]
    rcases syscLen_cases hl with ⟨hst, hn⟩ | ⟨hst, hn⟩ | ⟨hst, hn⟩
    · match body, hn, hb with
      | [(g1, d1)], _, hb =>
        obtain ⟨hg1, hd1, _⟩ := bodyOk_cons hb
        obtain ⟨f0, w0⟩ := step_syscStatus c s st (by omega)
        obtain ⟨f1, c1⟩ := step_sysc_only c _ st d1 _ (w0.adv (tickSum g1)) hst hd1
        apply pair_witness
        · simp only [bodyToks]
          rw [feed_cons, stepTok, f0, feed_gap_byte c _ g1 d1 [] hg1, f1, feed_nil, w0.ts]
          simp [bodyMsgs, bodyData, bodyTime, pad3]
        · simp only [bodyToks]
          rw [feed_cons, stepTok, feed_gap_byte c _ g1 d1 [] hg1, feed_nil]
          simpa [bodyTime] using c1
    · subst hst
      match body, hn, hb with
      | [(g1, d1), (g2, d2)], _, hb =>
        obtain ⟨hg1, hd1, hb2⟩ := bodyOk_cons hb
        obtain ⟨hg2, hd2, _⟩ := bodyOk_cons hb2
        obtain ⟨f0, w0⟩ := step_syscStatus c s 0xF2 (by omega)
        obtain ⟨f1, w1⟩ := step_spp_first c _ d1 _ (w0.adv (tickSum g1)) hd1
        obtain ⟨f2, c2⟩ := step_spp_second c _ d1 d2 _ (w1.adv (tickSum g2)) hd2
        apply pair_witness
        · simp only [bodyToks]
          rw [feed_cons, stepTok, f0, feed_gap_byte c _ g1 d1 _ hg1, f1, feed_gap_byte c _ g2 d2 [] hg2, f2,
            feed_nil, w0.ts, w1.ts]
          simp [bodyMsgs, bodyData, bodyTime, pad3, Int.add_assoc]
        · simp only [bodyToks]
          rw [feed_cons, stepTok, feed_gap_byte c _ g1 d1 _ hg1, feed_gap_byte c _ g2 d2 [] hg2, feed_nil]
          simpa [bodyTime, Int.add_assoc] using c2
    · subst hst
      match body, hn with
      | [], _ =>
        obtain ⟨f0, c0⟩ := step_tune c s
        apply pair_witness
        · simp only [bodyToks]
          rw [feed_cons, stepTok, f0, feed_nil]
          simp [bodyMsgs, bodyData, bodyTime, pad3]
        · simp only [bodyToks]
          rw [feed_cons, stepTok, feed_nil]
          simpa [bodyTime] using c0
  | sysex body last =>
    simp only [Item.ok, Bool.and_eq_true, decide_eq_true_eq] at hok
    obtain ⟨⟨hb, hg⟩, hlen⟩ := hok
    obtain ⟨f0, w0⟩ := step_sxStart c s
    obtain ⟨s1, e1, w1⟩ := feed_sx_body c hc body (last ++ [.byte 0xF7]) _ [] _ _ w0 hb (by simp; omega)
    simp only [List.nil_append] at w1
    have hl2 : (bodyData body).length + 1 < c.bufSize := by simp [bodyData]; omega
    obtain ⟨f2, c2⟩ := step_sx_end c _ (bodyData body) _ _ (w1.adv (tickSum last)) hc hl2
    apply pair_witness
    · simp only [Item.toks]
      rw [feed_cons, stepTok, f0, e1, feed_gap_byte c s1 last 0xF7 [] hg, f2, feed_nil, w1.ts]
      simp [Item.raw, Item.msgs]
    · simp only [Item.toks]
      rw [feed_cons, stepTok, e1, feed_gap_byte c s1 last 0xF7 [] hg, feed_nil]
      simpa [Item.runAfter, Item.time, Int.add_assoc] using c2

/-- any legal item, from a decoder between messages whose running status is `run` -/
theorem feed_item (c : Cfg) (hc : c.sysex = true) (s : St) (run : Nat) (t : Int) (it : Item)
    (hs : Clean s run t) (hok : it.ok c.bufSize run = true) :
    ∃ s', feed c s it.toks = (s', it.raw t) ∧ Clean s' (it.runAfter run) (t + it.time) := by
  cases it with
  | rt b =>
    simp only [Item.ok, decide_eq_true_eq] at hok
    refine ⟨s, ?_, by simpa [Item.runAfter, Item.time] using hs⟩
    simp only [Item.toks]
    rw [feed_cons, stepTok, step_rt c s b hok, feed_nil, hs.ts]
    rfl
  | tick d =>
    refine ⟨adv s d, ?_, by simpa [Item.runAfter, Item.time] using hs.adv d⟩
    simp only [Item.toks]
    rw [feed_cons, stepTok_tick, feed_nil]
    rfl
  | chan st e body =>
    cases e with
    | false =>
      have := feed_item_explicit c hc s run (.chan st false body) rfl hok
      rwa [hs.ts] at this
    | true =>
      simp only [Item.ok, Bool.and_eq_true, decide_eq_true_eq, Bool.not_true, Bool.false_or] at hok
      obtain ⟨⟨⟨⟨h1, h2⟩, hrun⟩, hlen⟩, hb⟩ := hok
      subst hrun
      have hne : body ≠ [] := by
        intro h; rw [h] at hlen; unfold chanLen at hlen; split at hlen <;> simp at hlen
      obtain ⟨e, w0⟩ := feed_elided c s run t body hs (by omega) hne hb
      obtain ⟨s', e2, cl⟩ := feed_chan_body c _ run t body w0 h1 h2 hlen hb
      refine ⟨s', ?_, cl⟩
      simp only [Item.toks, if_true, List.nil_append]
      rw [e, e2]
      rfl
  | sysc st body =>
    have := feed_item_explicit c hc s run (.sysc st body) rfl hok
    rwa [hs.ts] at this
  | sysex body last =>
    have := feed_item_explicit c hc s run (.sysex body last) rfl hok
    rwa [hs.ts] at this

/-- a legal item sequence from a decoder between messages -/
theorem feed_items (c : Cfg) (hc : c.sysex = true) (items : List Item) :
    ∀ (s : St) (run : Nat) (t : Int), Clean s run t → wfFrom c.bufSize run items = true →
      (feed c s (wireToks items)).2 = rawFrom t items := by
  induction items with
  | nil => intro s run t _ _; rfl
  | cons it r ih =>
    intro s run t hs hwf
    simp only [wfFrom, Bool.and_eq_true] at hwf
    obtain ⟨s', e, cl⟩ := feed_item c hc s run t it hs hwf.1
    simp only [wireToks, rawFrom]
    rw [feed_append, e, ih s' _ _ cl hwf.2]

/-- a legal item sequence whose first item carries its own status byte, from ANY decoder state -/
theorem feed_items_explicit (c : Cfg) (hc : c.sysex = true) (items : List Item) (s : St) (run : Nat)
    (hex : startsExplicit items = true) (hwf : wfFrom c.bufSize run items = true) :
    (feed c s (wireToks items)).2 = rawFrom s.ts items := by
  match items, hex, hwf with
  | it :: r, hex, hwf =>
    simp only [wfFrom, Bool.and_eq_true] at hwf
    have hex' : startsExplicit [it] = true := by
      cases it <;> exact hex
    obtain ⟨s', e, cl⟩ := feed_item_explicit c hc s run it hex' hwf.1
    simp only [wireToks, rawFrom]
    rw [feed_append, e, feed_items c hc r s' _ _ cl hwf.2]

end Midi.LiveWire
