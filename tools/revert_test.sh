#!/bin/bash
# usage: revert_test.sh <fix-commit-subject-grep> <Cxx> [tier]
# Builds a scratch worktree of /repo with one fix commit reverted and runs a check against it.
set -u
pat="$1"; prop="$2"; tier="${3:-quick}"
sha=$(git -C /repo log --format='%h %s' | grep -i -- "$pat" | head -1 | cut -d' ' -f1)
[ -z "$sha" ] && { echo "no commit matches $pat"; exit 2; }
wt=/root/wt-revert-$$
git -C /repo worktree add -q --detach "$wt" HEAD || exit 2
( cd "$wt" && git revert --no-commit "$sha" >/dev/null 2>&1 ) || echo "revert had conflicts"
echo "reverted $sha ($(git -C /repo log -1 --format=%s $sha))"
( cd /verif && VERIF_REPO="$wt" ./check "$prop" --tier "$tier" ); rc=$?
git -C /repo worktree remove --force "$wt"
echo "exit=$rc"
