import Proofs.SmfFile
/-! Domain of the SMF round-trip theorems and its closure under the API operations. -/
namespace Midi.Smf
open Midi.Vlq

/-- a track as the API can build it from well-formed messages: a valid body, possibly closed -/
def TrackOK (t : Track) : Prop :=
  ∃ body : ATrack, BodyOK body ∧
    (t = body.map evOf ∨ ∃ δe, δe < 4294967296 ∧ t = body.map evOf ++ [⟨δe, EOT⟩])

structure Dom (s : File) : Prop where
  fmt : s.format ≤ 2
  tf : ValidTF s.tf
  nonempty : s.tracks ≠ []
  count : s.tracks.length < 65536
  tracks : ∀ t ∈ s.tracks, TrackOK t

theorem body_open (body : ATrack) (hb : BodyOK body) : Track.isClosed (body.map evOf) = false := by
  have := isClosed_append_body [] body (by simp [Track.isClosed]) hb
  simpa using this

theorem close_of_TrackOK (t : Track) (h : TrackOK t) :
    ∃ c : CTrack, CTrackOK c ∧ t.close 0 = prepTrack c := by
  obtain ⟨body, hb, h | ⟨δe, hδ, h⟩⟩ := h
  · subst h
    exact ⟨(body, 0), ⟨hb, by omega⟩, by simp [close_open _ _ (body_open body hb), prepTrack]⟩
  · subst h
    refine ⟨(body, δe), ⟨hb, hδ⟩, ?_⟩
    have : Track.isClosed (body.map evOf ++ [⟨δe, EOT⟩]) = true := by rw [isClosed_snoc]; simp
    simp [Track.close, this, prepTrack]

theorem map_choice {α β γ} (P : β → Prop) (f : α → γ) (g : β → γ) (l : List α)
    (h : ∀ a ∈ l, ∃ b, P b ∧ f a = g b) : ∃ bs : List β, (∀ b ∈ bs, P b) ∧ l.map f = bs.map g ∧ bs.length = l.length := by
  induction l with
  | nil => exact ⟨[], by simp, rfl, rfl⟩
  | cons a l ih =>
    obtain ⟨b, hb, hab⟩ := h a (by simp)
    obtain ⟨bs, h1, h2, h3⟩ := ih (fun a ha => h a (by simp [ha]))
    exact ⟨b :: bs, by intro x hx; simp at hx; rcases hx with rfl | hx; exact hb; exact h1 x hx, by simp [hab, h2], by simp [h3]⟩

theorem writeCalls_go (rsOn : Bool) (cs : List CTrack) (h : ∀ c ∈ cs, CTrackOK c) :
    writeCalls.go rsOn (cs.map prepTrack) = some (cs.map (chunkBytes rsOn)) := by
  induction cs with
  | nil => simp [writeCalls.go]
  | cons c cs ih =>
    obtain ⟨body, δe⟩ := c
    obtain ⟨hb, hδ⟩ := h (body, δe) (by simp)
    have := ih (fun c hc => h c (by simp [hc]))
    simp [writeCalls.go, encTrackBody_prep rsOn body δe hb hδ 0, this, chunkBytes]

theorem writeTo_of_cs (rsOn : Bool) (s : File) (cs : List CTrack) (h1 : ∀ c ∈ cs, CTrackOK c)
    (hp : s.prepared.tracks = cs.map prepTrack) (hcount : s.tracks.length < 65536) (hne : s.tracks ≠ []) :
    writeTo rsOn s = .ok (encHeader s.prepared.format s.tracks.length s.tf ++ (cs.map (chunkBytes rsOn)).flatten) := by
  have hlen : s.tracks.length % 65536 = s.tracks.length := Nat.mod_eq_of_lt hcount
  have hne' : s.tracks.length ≠ 0 := by
    intro h0; exact hne (List.eq_nil_of_length_eq_zero h0)
  have htf : s.prepared.tf = s.tf := by simp [File.prepared]
  simp [writeTo, hlen, hne', writeCalls, hp, htf, writeCalls_go rsOn cs h1]

/-- the bytes `WriteTo` emits for a value of the domain, in AST terms -/
theorem writeTo_dom (rsOn : Bool) (s : File) (h : Dom s) :
    ∃ cs : List CTrack, (∀ c ∈ cs, CTrackOK c) ∧ cs.length = s.tracks.length ∧
      s.prepared.tracks = cs.map prepTrack ∧
      writeTo rsOn s = .ok (encHeader s.prepared.format s.tracks.length s.tf ++ (cs.map (chunkBytes rsOn)).flatten) := by
  obtain ⟨cs, h1, h2, h3⟩ := map_choice CTrackOK (fun t : Track => t.close 0) prepTrack s.tracks
    (fun t ht => close_of_TrackOK t (h.tracks t ht))
  have hp : s.prepared.tracks = cs.map prepTrack := by simp [File.prepared, h2]
  exact ⟨cs, h1, h3, hp, writeTo_of_cs rsOn s cs h1 hp h.count h.nonempty⟩

end Midi.Smf
