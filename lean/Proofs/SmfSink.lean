import MidiModel.Smf
/-! C10 (write side): a failing destination makes `WriteTo` return an error; `nil` only if every byte was accepted. -/
namespace Midi.Smf

theorem sink_go (k : Nat) : ∀ (cs : List Bytes) (first : Bool) (acc : Bytes), acc.length ≤ k →
    (k < (acc ++ cs.flatten).length → (writeToSink.go (some k) first acc cs).1 = true) ∧
    ((acc ++ cs.flatten).length ≤ k →
      writeToSink.go (some k) first acc cs = (false, (acc ++ cs.flatten).length, acc ++ cs.flatten)) := by
  intro cs
  induction cs with
  | nil => intro first acc h; simp [writeToSink.go]; omega
  | cons c r ih =>
    intro first acc h
    simp only [writeToSink.go, List.flatten_cons]
    by_cases hc : acc.length + c.length ≤ k
    · simp only [hc, if_true]
      have := ih false (acc ++ c) (by simp; omega)
      simp only [List.append_assoc] at this
      exact this
    · simp only [hc, if_false]
      constructor
      · intro _; trivial
      · intro h; simp only [List.length_append] at h; omega

theorem sink_go_acc (k : Nat) : ∀ (cs : List Bytes) (first : Bool) (acc : Bytes), acc.length ≤ k →
    (writeToSink.go (some k) first acc cs).2.2.length ≤ k ∧
    ∃ t, (acc ++ cs.flatten) = (writeToSink.go (some k) first acc cs).2.2 ++ t := by
  intro cs
  induction cs with
  | nil => intro first acc h; simp [writeToSink.go, h]
  | cons c r ih =>
    intro first acc h
    simp only [writeToSink.go, List.flatten_cons]
    by_cases hc : acc.length + c.length ≤ k
    · simp only [hc, if_true]
      have := ih false (acc ++ c) (by simp; omega)
      simp only [List.append_assoc] at this
      exact this
    · simp only [hc, if_false]
      refine ⟨by simp; omega, c.drop (k - acc.length) ++ r.flatten, ?_⟩
      simp only [List.append_assoc]
      congr 1
      rw [← List.append_assoc, List.take_append_drop]

end Midi.Smf
