import MidiModel.Smf
/-!
# The SMF reader over an abstract byte source (C09, C10)

`smf.ReadFrom` touches its `io.Reader` only through four primitives of `internal/utils` and `io`:
`ReadNBytes` (= `io.ReadFull` / `io.CopyN` into a buffer), the single 1-byte `Read` of
`ReadVarLength` (whose error is ignored), and `io.CopyN(ioutil.Discard, …)` for alien chunks.
The reader is therefore written once as a *program* over these primitives (`Prog`, a free monad
whose continuations also receive the primitive's error, because the code swallows one of them) and
interpreted over different sources: the in-memory list (`listOps`) and a source that cuts the stream
into arbitrary `Read` results, may return its last bytes together with EOF, and may start failing
at some offset (`srcOps`).
-/
namespace Midi.Stream
open Midi.Smf

inductive Err
  | eof | ueof | io | missing | finished | other | fuel
deriving Repr, DecidableEq

/-- reader programs over the stream primitives -/
inductive Prog (α : Type) : Type
  | pure : α → Prog α
  | fail : Err → Prog α
  | readFull : Nat → (Except Err Bytes → Prog α) → Prog α     -- utils.ReadNBytes
  | readRaw : (Option Nat → Prog α) → Prog α                   -- one Read into a 1-byte buffer, error ignored
  | discard : Nat → (Except Err Unit → Prog α) → Prog α        -- io.CopyN(ioutil.Discard, rd, n)

def Prog.bind {α β : Type} : Prog α → (α → Prog β) → Prog β
  | .pure a, f => f a
  | .fail e, _ => .fail e
  | .readFull n k, f => .readFull n (fun r => (k r).bind f)
  | .readRaw k, f => .readRaw (fun r => (k r).bind f)
  | .discard n k, f => .discard n (fun r => (k r).bind f)

instance : Monad Prog where
  pure := Prog.pure
  bind := Prog.bind

/-- `ReadNBytes` whose error ends the program (the usual case) -/
def readN (n : Nat) : Prog Bytes := .readFull n (fun r => match r with | .ok b => .pure b | .error e => .fail e)

def readByte : Prog Nat := .readFull 1 (fun r => match r with
  | .ok [b] => .pure b
  | .ok _ => .fail .other
  | .error e => .fail e)

/-- `utils.ReadVarLength`: byte-wise, read errors are ignored, no byte = `ErrUnexpectedEOF` -/
def readVlq : Nat → Nat → Prog Nat
  | 0, _ => .fail .fuel
  | f+1, acc => .readRaw (fun r => match r with
    | none => .fail .ueof
    | some b =>
      let acc' := (acc * 128) % 4294967296 + b % 128
      if b < 128 then .pure acc' else readVlq f acc')

/-- decoded event: delta, message, new running status -/
structure Ev where
  delta : Nat
  msg : Msg
  rs : Nat
deriving Repr, DecidableEq

/-- `midi.ReadChannelMessage`: the error of the second data byte is swallowed by `_readEvent` -/
def finishChan (δ status a1 : Nat) : Prog Ev :=
  if status / 16 = 0xC ∨ status / 16 = 0xD then .pure ⟨δ, [status, a1], status⟩
  else .readFull 1 (fun r => match r with
    | .ok [a2] => .pure ⟨δ, [status, a1, a2], status⟩
    | _ => .pure ⟨δ, [], status⟩)

/-- `readEvent` + `_readEvent` -/
def readEvent (vfuel rr : Nat) : Prog Ev := do
  let δ ← readVlq vfuel 0
  let c ← readByte
  if c = 0xFF then
    let t ← readByte
    let n ← readVlq vfuel 0
    let d ← readN n
    pure ⟨δ, [0xFF, t] ++ Vlq.encode d.length ++ d, 0⟩
  else if c = 0xF0 ∨ c = 0xF7 then
    let n ← readVlq vfuel 0
    let d ← readN n
    pure ⟨δ, c :: d, 0⟩
  else if isChanStatus c then
    let a1 ← readByte
    finishChan δ c a1
  else if rr = 0 then .fail .other
  else finishChan δ rr c

/-- the chunk loop: skip alien chunks until a track chunk starts; returns the new `started` -/
def chunkLoop : Nat → Nat → Prog Nat
  | 0, _ => .fail .fuel
  | f+1, started => do
    let typ ← readN 4
    let len4 ← readN 4
    if typ = MTrk then pure (started + 1)
    else .discard (lenOf4 len4) (fun r => match r with
      | .ok _ => chunkLoop f started
      | .error e => .fail e)

/-- result of `ReadTracks`: final state and the error that ended the loop -/
abbrev LoopRes := RState × Err

/-- run a program whose failure must be observed by the caller -/
def Prog.catch {α β : Type} : Prog α → (Except Err α → Prog β) → Prog β
  | .pure a, f => f (.ok a)
  | .fail e, f => f (.error e)
  | .readFull n k, f => .readFull n (fun r => (k r).catch f)
  | .readRaw k, f => .readRaw (fun r => (k r).catch f)
  | .discard n k, f => .discard n (fun r => (k r).catch f)

/-- what `ReadTracks` does with a decoded event (or the decoder's error); `k` continues the loop -/
def afterEvent (k : RState → Prog LoopRes) (s1 : RState) (r2 : Except Err Ev) : Prog LoopRes :=
  match r2 with
  | .error e => .pure (s1, if e = .eof ∧ s1.missing then .missing else e)
  | .ok ev =>
    let eot := isEOTMsg ev.msg
    let s2 := { s1 with rs := ev.rs,
                        done := eot && s1.started == s1.numTracks,
                        expectChunk := eot && !(s1.started == s1.numTracks) }
    let tr := s1.started - 1
    if s1.tracks.length ≤ tr then .pure (s2, .other)
    else
      let ts := setTrack s2.tracks tr
        (fun t => if eot then t.close ev.delta else t.add ev.delta [ev.msg])
      k { s2 with tracks := ts }

/-- after the chunk loop: decode one event -/
def afterChunk (vfuel : Nat) (k : RState → Prog LoopRes) (s : RState) (r1 : Except Err Nat) : Prog LoopRes :=
  match r1 with
  | .error e => .pure (s, if e = .eof ∧ s.missing then .missing else e)
  | .ok started =>
    let s1 := { s with started := started, expectChunk := false }
    (readEvent vfuel s1.rs).catch (afterEvent k s1)

def readLoop : Nat → Nat → RState → Prog LoopRes
  | 0, _, s => .pure (s, .fuel)
  | f+1, vfuel, s =>
    if s.done then .pure (s, .finished) else
    (if s.expectChunk then chunkLoop vfuel s.started else .pure s.started).catch
      (afterChunk vfuel (readLoop f vfuel) s)

inductive Res
  | ok (f : File)
  | error (e : Err)
deriving Repr, DecidableEq

/-- `smf.ReadFrom` as a program; `fuel` bounds the loops (|input| + 2 suffices) -/
def readFrom (fuel : Nat) : Prog Res :=
  (do
    let typ ← readN 4
    let _ ← readN 4
    if typ ≠ MThd then Prog.fail .other else
    let fm ← readN 2
    if val16 fm > 2 then Prog.fail .other else
    let nt ← readN 2
    let dv ← readN 2
    pure (val16 fm, val16 nt, tfOf2 dv) : Prog (Nat × Nat × TimeFormat)).catch fun h =>
  match h with
  | .error e => .pure (.error e)
  | .ok (format, numTracks, tf) =>
    (readLoop fuel fuel ⟨numTracks, 0, true, 0, false, List.replicate numTracks []⟩).bind fun (s, e) =>
    if s.missing then .pure (.error .missing)
    else if e = .finished ∨ e = .eof then .pure (.ok ⟨format, tf, s.tracks⟩)
    else .pure (.error e)

/-! ## Interpreters -/

structure Ops (σ : Type) where
  readFull : Nat → σ → Except Err Bytes × σ
  readRaw : σ → Option Nat × σ
  discard : Nat → σ → Except Err Unit × σ

def run {σ α : Type} (o : Ops σ) : Prog α → σ → Except Err α × σ
  | .pure a, s => (.ok a, s)
  | .fail e, s => (.error e, s)
  | .readFull n k, s => run o (k (o.readFull n s).1) (o.readFull n s).2
  | .readRaw k, s => run o (k (o.readRaw s).1) (o.readRaw s).2
  | .discard n k, s => run o (k (o.discard n s).1) (o.discard n s).2

/-- in-memory source (`bytes.Reader`): the state is the unread rest -/
def listOps : Ops Bytes where
  readFull n l :=
    if n = 0 then (.ok [], l)
    else if l = [] then (.error .eof, [])
    else if l.length < n then (.error .ueof, [])
    else (.ok (l.take n), l.drop n)
  readRaw l := match l with | [] => (none, []) | b :: r => (some b, r)
  discard n l := if l.length < n then (.error .eof, []) else (.ok (), l.drop n)

/-- a source that delivers the stream in pieces: a `Read` never crosses one of the `cuts` (absolute
    offsets), the last bytes may come together with EOF, and from offset `fault` on every `Read` fails
    with a non-EOF error (sticky) -/
structure Src where
  data : Bytes            -- unread rest
  pos : Nat               -- absolute offset of `data`
  cuts : List Nat
  eofWithData : Bool
  fault : Option Nat
  hit : Bool := false     -- a Read has failed with the I/O error
deriving Repr, DecidableEq

inductive RdErr | none | eof | io
deriving Repr, DecidableEq

/-- how many bytes one `Read(p)` with `len p = k` may return at the current position -/
def Src.avail (s : Src) (k : Nat) : Nat :=
  let lim := match s.fault with | some f => f - s.pos | none => s.data.length
  let nextCut := (s.cuts.filter (fun c => c > s.pos)).foldl min (s.pos + s.data.length + 1)
  min (min k s.data.length) (min lim (nextCut - s.pos))

/-- one `Read` call -/
def Src.read (s : Src) (k : Nat) : Bytes × RdErr × Src :=
  match s.fault with
  | some f =>
    if f ≤ s.pos then ([], .io, { s with hit := true })
    else
      let m := s.avail k
      if m = 0 then ([], .eof, s)   -- k = 0 or no data (fault beyond the end)
      else
        let s' := { s with data := s.data.drop m, pos := s.pos + m }
        (s.data.take m, if s'.data = [] ∧ s.eofWithData ∧ f > s'.pos then .eof else .none, s')
  | none =>
    let m := s.avail k
    if m = 0 then ([], .eof, s)
    else
      let s' := { s with data := s.data.drop m, pos := s.pos + m }
      (s.data.take m, if s'.data = [] ∧ s.eofWithData then .eof else .none, s')

/-- `io.ReadFull` / `io.CopyN` into a buffer over the source -/
def srcReadFull : Nat → Nat → Bytes → Src → Except Err Bytes × Src
  | 0, _, _, s => (.error .fuel, s)
  | fuel+1, n, acc, s =>
    if n = 0 then (.ok acc, s)
    else
      let (got, e, s') := s.read n
      let acc' := acc ++ got
      if got.length = n then (.ok acc', s')
      else match e with
        | .none => srcReadFull fuel (n - got.length) acc' s'
        | .eof => (if acc' = [] then .error .eof else .error .ueof, s')
        | .io => (.error .io, s')

def srcDiscard : Nat → Nat → Src → Except Err Unit × Src
  | 0, _, s => (.error .fuel, s)
  | fuel+1, n, s =>
    if n = 0 then (.ok (), s)
    else
      let (got, e, s') := s.read n
      if got.length = n then (.ok (), s')
      else match e with
        | .none => srcDiscard fuel (n - got.length) s'
        | .eof => (.error .eof, s')
        | .io => (.error .io, s')

def srcOps : Ops Src where
  readFull n s := srcReadFull (n + 1) n [] s
  readRaw s := (match (s.read 1).1 with | [] => none | b :: _ => some b, (s.read 1).2.2)
  discard n s := srcDiscard (n + 1) n s

def showRes : Except Err Res → String
  | .ok (.ok f) => "ok:" ++ showFile f
  | .ok (.error .fuel) => "fuel"
  | .error .fuel => "fuel"
  | _ => "error"

def parseNats (s : String) : Option (List Nat) :=
  if s = "-" then some [] else (s.splitOn ",").mapM String.toNat?

--@driver stream. Stream.handle
def handle (op : String) (args : List String) : String :=
  match op, args with
  | "stream.read", h :: rest =>
    match unhex h, (field "cuts" rest).bind parseNats, natField "eofdata" rest with
    | some bs, some cuts, some ed =>
      let fault := natField "fault" rest
      let src : Src := { data := bs, pos := 0, cuts := cuts, eofWithData := ed = 1, fault := fault }
      let (r, s') := run srcOps (readFrom (bs.length + 2)) src
      let (rl, _) := run listOps (readFrom (bs.length + 2)) bs
      s!"r={showRes r} mem={showRes rl} hit={if s'.hit then 1 else 0} consumed={s'.pos}"
    | _, _, _ => "bad-op"
  | _, _ => "bad-op"

end Midi.Stream
