import Proofs.LiveInv
import Proofs.LiveRules
/-!
# C06 — the live decoder survives arbitrary bytes and follows the MIDI 1.0 receiver rules

Model: `MidiModel/Live.lean` — `step`/`stepTok`/`feed` = `drivers.Reader.eachByte` over a token stream (a byte,
or a clock tick = the start of a new `EachMessage` call, so every chunking is a token stream), `keep` = the
option filter of the `testdrv` in-port, `retype` = the `onMsg` closure of `midi.ListenTo`, `listen` = what the
listener receives (`none` in the first component = `retype` hit an index / constructor panic).
All theorems hold for every configuration (sysex on/off, `buf = 0` → 1024, `buf = 1, 2, …`, active sense and
time code on/off) and every token stream; bytes are arbitrary naturals (everything `≥ 0xF8` is the real-time
class). The rules are stated for `step` from ANY state satisfying the invariant `Inv` (every reachable state
does: `inv_init`, `inv_stepTok`, `inv_feed`), several even from any state whatsoever.
The resynchronisation theorem is in `Props/C06_Resync.lean`.
Helper lemmas: `Proofs/LiveInv.lean`, `Proofs/LiveRules.lean`.
-/
namespace Midi.C06
open Midi Midi.Live

/-! ## the predicates used below, spelled out -/

/-- `WellFormedMsg c m`: channel voice with two data bytes (8x 9x Ax Bx Ex) / with one (Cx Dx); F1 d; F2 d d;
    F3 d; F6; a single real-time byte; a sysex `F0 data… F7` that fits the configured buffer. Data `< 0x80`. -/
theorem wellFormedMsg_def (c : Cfg) (m : Bytes) : WellFormedMsg c m ↔
    ((∃ st d1 d2, m = [st, d1, d2] ∧ ((0x80 ≤ st ∧ st ≤ 0xBF) ∨ (0xE0 ≤ st ∧ st ≤ 0xEF)) ∧ d1 < 0x80 ∧ d2 < 0x80) ∨
     (∃ st d, m = [st, d] ∧ 0xC0 ≤ st ∧ st ≤ 0xDF ∧ d < 0x80) ∨
     (∃ d, m = [0xF1, d] ∧ d < 0x80) ∨
     (∃ d1 d2, m = [0xF2, d1, d2] ∧ d1 < 0x80 ∧ d2 < 0x80) ∨
     (∃ d, m = [0xF3, d] ∧ d < 0x80) ∨
     m = [0xF6] ∨
     (∃ b, m = [b] ∧ 0xF8 ≤ b) ∨
     (∃ d, m = 0xF0 :: (d ++ [0xF7]) ∧ (∀ x ∈ d, x < 0x80) ∧ m.length ≤ c.bufSize)) := Iff.rfl

/-- the invariant of the decoder state -/
theorem inv_def (c : Cfg) (s : St) : Inv c s ↔
    ((s.status ≠ 0 → s.typ = s.status / 16 ∧ 0x80 ≤ s.status ∧ s.status ≤ 0xEF) ∧
     (s.mode = .chan → s.status ≠ 0) ∧
     (s.mode = .sysc → s.typ = 0xF1 ∨ s.typ = 0xF2 ∨ s.typ = 0xF3) ∧
     (∀ x, s.pend = some x → x < 0x80) ∧
     (s.pend ≠ none → s.mode = .chan ∨ s.mode = .sysc) ∧
     (s.mode = .sysex →
        s.sx = [] ∨ ∃ d, s.sx = 0xF0 :: d ∧ (∀ x ∈ d, x < 0x80) ∧ s.sx.length ≤ c.bufSize) ∧
     (s.mode ≠ .sysex → s.sx = []) ∧
     s.panicked = false) :=
  ⟨fun ⟨a, b, c, d, e, f, g, h⟩ => ⟨a, b, c, d, e, f, g, h⟩, fun ⟨a, b, c, d, e, f, g, h⟩ => ⟨a, b, c, d, e, f, g, h⟩⟩

theorem inv_init (c : Cfg) : Inv c init := init_inv c

theorem inv_stepTok (c : Cfg) (s : St) (t : Tok) (h : Inv c s) : Inv c (stepTok c s t).1 := (stepTok_inv c s t h).1

theorem inv_feed (c : Cfg) (s : St) (toks : List Tok) (h : Inv c s) : Inv c (feed c s toks).1 :=
  (feed_inv c toks s h).1

/-! ## no panic -/

/-- From ANY state satisfying the invariant, on every token stream: neither `panic` branch of the decoder is
    reached, and `retype` never hits its index / constructor panic on a frame the decoder hands on. -/
theorem live_total_from (c : Cfg) (s : St) (toks : List Tok) (h : Inv c s) :
    (feed c s toks).1.panicked = false ∧ ∀ m ∈ listenFrames c (feed c s toks).2, m.1 ≠ none := by
  refine ⟨(feed_inv c toks s h).1.no_panic, fun m hm => ?_⟩
  obtain ⟨bs, hbs, _⟩ := listenFrames_wf c _ (feed_inv c toks s h).2 m hm
  rw [hbs]; simp

/-- every byte stream, every chunking, every configuration, from `Reset()` -/
theorem live_total (c : Cfg) (toks : List Tok) :
    (feed c init toks).1.panicked = false ∧ ∀ m ∈ listen c toks, m.1 ≠ none :=
  live_total_from c init toks (init_inv c)

/-! ## every delivered message is well formed -/

theorem delivered_wf_from (c : Cfg) (s : St) (toks : List Tok) (h : Inv c s) :
    ∀ m ∈ listenFrames c (feed c s toks).2, ∃ bs, m.1 = some bs ∧ WellFormedMsg c bs :=
  listenFrames_wf c _ (feed_inv c toks s h).2

theorem delivered_wf (c : Cfg) (toks : List Tok) :
    ∀ m ∈ listen c toks, ∃ bs, m.1 = some bs ∧ WellFormedMsg c bs :=
  delivered_wf_from c init toks (init_inv c)

/-- in particular: non-empty, the first byte is a status byte, every further byte of a non-sysex message is data -/
theorem delivered_status_first (c : Cfg) (toks : List Tok) :
    ∀ m ∈ listen c toks, ∃ st rest, m.1 = some (st :: rest) ∧ 0x80 ≤ st ∧
      (st ≠ 0xF0 → ∀ d ∈ rest, d < 0x80) := by
  intro m hm
  obtain ⟨bs, hbs, hw⟩ := delivered_wf c toks m hm
  rcases hw with ⟨st, d1, d2, rfl, hs, h1, h2⟩ | ⟨st, d, rfl, hs1, hs2, h1⟩ | ⟨d, rfl, h1⟩ | ⟨d1, d2, rfl, h1, h2⟩ |
      ⟨d, rfl, h1⟩ | rfl | ⟨b, rfl, hb⟩ | ⟨d, rfl, hd, _⟩
  · exact ⟨st, _, hbs, by omega, fun _ x hx => by simp at hx; omega⟩
  · exact ⟨st, _, hbs, by omega, fun _ x hx => by simp at hx; omega⟩
  · exact ⟨_, _, hbs, by omega, fun _ x hx => by simp at hx; omega⟩
  · exact ⟨_, _, hbs, by omega, fun _ x hx => by simp at hx; omega⟩
  · exact ⟨_, _, hbs, by omega, fun _ x hx => by simp at hx; omega⟩
  · exact ⟨_, _, hbs, by omega, fun _ x hx => by simp at hx⟩
  · exact ⟨b, _, hbs, by omega, fun _ x hx => by simp at hx⟩
  · exact ⟨_, _, hbs, by omega, fun h => absurd rfl h⟩

/-- if the input consists of bytes (`< 256`; the model's alphabet is all naturals), so does every message -/
theorem delivered_bytes (c : Cfg) (toks : List Tok) (hb : ∀ b, Tok.byte b ∈ toks → b < 256) :
    ∀ m ∈ listen c toks, ∀ bs, m.1 = some bs → ∀ x ∈ bs, x < 256 :=
  listen_bytes c toks init (init_inv c) hb

/-! ## the receiver rules -/

/-- A status byte `0x80..0xF6` (everything but real-time and the sysex terminator) abandons whatever was in
    progress: the decoder behaves exactly as if it had been idle without running status (`St.abandon`: clean
    mode, no status, no pending data byte, no sysex buffer). -/
theorem new_status_abandons (c : Cfg) (s : St) (b : Nat) (h : Inv c s) (hlo : 0x80 ≤ b) (hhi : b ≤ 0xF6) :
    step c s b = cleanState { s with mode := .clean, status := 0, pend := none, sx := [] } b :=
  step_status c s b h hlo hhi

/-- … hence the frames emitted and the resulting control state do not depend on the previous pending
    message / mode / running status / sysex buffer: two states at the same clock give the same frames, mode,
    running status, pending byte and sysex buffer (`typ` / the sysex time stamp wherever they are live). -/
theorem new_status_independent (c : Cfg) (s1 s2 : St) (b : Nat) (h1 : Inv c s1) (h2 : Inv c s2)
    (hlo : 0x80 ≤ b) (hhi : b ≤ 0xF6) (hts : s1.ts = s2.ts) :
    (step c s1 b).2 = (step c s2 b).2 ∧
    (step c s1 b).1.mode = (step c s2 b).1.mode ∧
    (step c s1 b).1.status = (step c s2 b).1.status ∧
    (step c s1 b).1.pend = (step c s2 b).1.pend ∧
    (step c s1 b).1.sx = (step c s2 b).1.sx ∧
    (step c s1 b).1.ts = (step c s2 b).1.ts ∧
    ((step c s1 b).1.mode = .chan ∨ (step c s1 b).1.mode = .sysc → (step c s1 b).1.typ = (step c s2 b).1.typ) ∧
    ((step c s1 b).1.mode = .sysex → (step c s1 b).1.sxTs = (step c s2 b).1.sxTs) := by
  rw [step_status c s1 b h1 hlo hhi, step_status c s2 b h2 hlo hhi]
  exact cleanState_abandon_indep s1 s2 b hlo hhi hts

/-- the pending first data byte of an interrupted message is never delivered: the only frame a status byte
    can emit is the tune request itself -/
theorem new_status_frames (c : Cfg) (s : St) (b : Nat) (h : Inv c s) (hlo : 0x80 ≤ b) (hhi : b ≤ 0xF6) :
    (step c s b).2 = if b = 0xF6 then [([0xF6, 0, 0], s.ts)] else [] := by
  rw [step_status c s b h hlo hhi]
  unfold cleanState St.abandon
  by_cases h0 : b = 0xF0
  · simp only [if_pos h0]; rw [if_neg (by omega)]
  · have h7 : ¬ b = 0xF7 := by omega
    by_cases hs : 0xF0 < b ∧ b < 0xF7
    · simp only [if_neg h0, if_neg h7, if_pos hs]
      by_cases h13 : b = 0xF1 ∨ b = 0xF2 ∨ b = 0xF3
      · simp only [if_pos h13]; rw [if_neg (by omega)]
      · by_cases h6 : b = 0xF6
        · simp only [if_neg h13, if_pos h6]
        · simp only [if_neg h13, if_neg h6]
    · have hc : 0x80 ≤ b ∧ b ≤ 0xEF := by omega
      simp only [if_neg h0, if_neg h7, if_neg hs, if_pos hc]; rw [if_neg (by omega)]

/-- a data byte without (running) status is ignored: no frame, state unchanged -/
theorem data_without_status_ignored (c : Cfg) (s : St) (b : Nat) (hm : s.mode = .clean) (hs : s.status = 0)
    (hb : b < 0x80) : step c s b = (s, []) :=
  step_data_no_status c s b hm hs hb

/-- … for a whole run of data bytes, with real-time bytes and chunk boundaries anywhere in between: only the
    real-time bytes are handed on, the decoder stays idle without running status -/
theorem data_without_status_ignored_feed (c : Cfg) (s : St) (body : List Tok) (hm : s.mode = .clean)
    (hs : s.status = 0) (hbody : ∀ t ∈ body, NonStatusTok t) :
    (feed c s body).2.map Prod.fst = (rtBytes body).map (fun r => [r]) ∧
    (feed c s body).1.mode = .clean ∧ (feed c s body).1.status = 0 ∧ (feed c s body).1.pend = s.pend := by
  obtain ⟨a, b, d, e⟩ := feed_no_status_body c body s hbody hm hs
  exact ⟨e, a, b, d⟩

/-- the undefined status bytes F4 / F5 (from any state whatsoever) produce nothing, cancel running status,
    and all data bytes that follow are ignored (real-time bytes and chunk boundaries anywhere in between: only
    the real-time bytes are handed on); the next status byte is handled by `new_status_abandons` -/
theorem undefined_status_skipped (c : Cfg) (s : St) (b : Nat) (body : List Tok) (hb : b = 0xF4 ∨ b = 0xF5)
    (hbody : ∀ t ∈ body, NonStatusTok t) :
    (feed c s (.byte b :: body)).2.map Prod.fst = (rtBytes body).map (fun r => [r]) ∧
    (feed c s (.byte b :: body)).1.mode = .unknown ∧ (feed c s (.byte b :: body)).1.status = 0 ∧
    (feed c s (.byte b :: body)).1.pend = none := by
  obtain ⟨hf, hm, hst, hp⟩ := step_undefined c s b hb
  obtain ⟨a, b', d, e⟩ := feed_unknown_body c body (step c s b).1 hbody hm
  simp only [feed, stepTok, hf, List.nil_append]
  exact ⟨e, a, by rw [b', hst], by rw [d, hp]⟩

/-- in a state waiting after F4 / F5 a data byte changes nothing -/
theorem undefined_status_data (c : Cfg) (s : St) (d : Nat) (hm : s.mode = .unknown) (hd : d < 0x80) :
    step c s d = (s, []) := step_unknown_data c s d hm hd

/-- A sysex whose total length (`F0`, data bytes, `F7`) exceeds the buffer size is never delivered — from any
    state whatsoever, with real-time bytes and chunk boundaries anywhere inside: the only frames are the
    interleaved real-time bytes, and the decoder is idle afterwards. -/
theorem oversize_sysex_dropped (c : Cfg) (s : St) (body : List Tok) (hbody : ∀ t ∈ body, NonStatusTok t)
    (hover : c.bufSize < dataCount body + 2) :
    (feed c s (.byte 0xF0 :: body ++ [.byte 0xF7])).2.map Prod.fst = (rtBytes body).map (fun r => [r]) ∧
    (feed c s (.byte 0xF0 :: body ++ [.byte 0xF7])).1.mode = .clean ∧
    (feed c s (.byte 0xF0 :: body ++ [.byte 0xF7])).1.sx = [] :=
  feed_oversize_sysex c s body hbody hover

/-- a byte `≥ 0xF8` is handed on immediately as a one-byte message (the listener gets exactly that byte) and
    leaves the decoder state untouched -/
theorem realtime_transparent (c : Cfg) (s : St) (b : Nat) (hb : 0xF8 ≤ b) :
    step c s b = (s, [([b], s.ts)]) ∧ retype [b] = some (some [b]) :=
  ⟨step_rt c s b hb, retype_rt b [] hb⟩

/-- … anywhere in a stream: the other frames and the final state are those of the stream without it -/
theorem realtime_transparent_feed (c : Cfg) (s : St) (xs ys : List Tok) (b : Nat) (hb : 0xF8 ≤ b) :
    feed c s (xs ++ .byte b :: ys) =
      ((feed c s (xs ++ ys)).1,
       (feed c s xs).2 ++ ([b], (feed c s xs).1.ts) :: (feed c (feed c s xs).1 ys).2) := by
  simp only [feed_append, feed, stepTok, step_rt c _ b hb, List.cons_append, List.nil_append]

/-! ## non-vacuity: concrete instances (evaluated by the kernel) -/

/-- a sample configuration: sysex on, buffer of 4 bytes -/
def cfg4 : Cfg := ⟨true, 4, true, true⟩

def bytes (l : List Nat) : List Tok := l.map .byte

-- garbage, an interrupted note-on, running status, real time inside a message, a lone F7, F4 + data:
example : listen cfg4 (bytes [0x40, 0x90, 0x3C, 0x91, 0x3D, 0xF8, 0x40, 0x3E, 0x41, 0xF7, 0xF4, 0x01, 0xC2, 0x05]) =
    [(some [0xF8], 0), (some [0x91, 0x3D, 0x40], 0), (some [0x91, 0x3E, 0x41], 0), (some [0xC2, 0x05], 0)] := by
  decide
example : (feed cfg4 init (bytes [0x40, 0x90, 0x3C, 0x91, 0x3D, 0xF8, 0x40])).1.panicked = false := by decide
example : WellFormedMsg cfg4 [0x91, 0x3D, 0x40] := Or.inl ⟨0x91, 0x3D, 0x40, rfl, by omega, by omega, by omega⟩
example : WellFormedMsg cfg4 [0xF0, 1, 2, 0xF7] :=
  Or.inr (Or.inr (Or.inr (Or.inr (Or.inr (Or.inr (Or.inr ⟨[1, 2], rfl, by decide, by decide⟩))))))
example : ¬ WellFormedMsg cfg4 [] := by simp [WellFormedMsg]
-- a state in the middle of a note-on satisfies the invariant, and 0x91 abandons the pending 0x3C
example : Inv cfg4 (feed cfg4 init (bytes [0x90, 0x3C])).1 := inv_feed cfg4 init _ (inv_init cfg4)
example : (feed cfg4 init (bytes [0x90, 0x3C])).1.pend = some 0x3C ∧
    step cfg4 (feed cfg4 init (bytes [0x90, 0x3C])).1 0x91 =
      ({ mode := .chan, status := 0x91, typ := 9, pend := none }, []) := by decide
-- data without status
example : step cfg4 init 0x40 = (init, []) := data_without_status_ignored cfg4 init 0x40 rfl rfl (by omega)
-- F4 then data, then a message
example : (feed cfg4 init (bytes [0x90, 0xF4, 0x01, 0x02, 0x03, 0xB0, 0x07, 0x64])).2 = [([0xB0, 0x07, 0x64], 0)] := by
  decide
-- buffer of 4: `F0 01 02 F7` fits, `F0 01 02 03 F7` does not (real-time FE in between is delivered)
example : listen cfg4 (bytes [0xF0, 1, 2, 0xF7]) = [(some [0xF0, 1, 2, 0xF7], 0)] := by decide
example : listen cfg4 (bytes [0xF0, 1, 2, 0xFE, 3, 0xF7]) = [(some [0xFE], 0)] := by decide
example : (∀ t ∈ bytes [1, 2, 0xFE, 3], NonStatusTok t) ∧ cfg4.bufSize < dataCount (bytes [1, 2, 0xFE, 3]) + 2 := by
  refine ⟨fun t ht => ?_, by decide⟩
  simp only [bytes, List.map_cons, List.map_nil, List.mem_cons, List.not_mem_nil, or_false] at ht
  rcases ht with rfl | rfl | rfl | rfl <;> simp [NonStatusTok]
-- default buffer (buf = 0 → 1024) and the smallest ones
example : (⟨true, 0, true, true⟩ : Cfg).bufSize = 1024 := by decide
example : listen ⟨true, 1, true, true⟩ (bytes [0xF0, 0xF7, 0x90, 1, 2]) = [(some [0x90, 1, 2], 0)] := by decide
example : listen ⟨true, 2, true, true⟩ (bytes [0xF0, 0xF7, 0xF0, 1, 0xF7]) = [(some [0xF0, 0xF7], 0)] := by decide
-- `delivered_bytes`: a stream of bytes
example : ∀ b, Tok.byte b ∈ bytes [0x90, 0x3C, 0xFF] → b < 256 := by
  intro b hb
  simp only [bytes, List.map_cons, List.map_nil, List.mem_cons, Tok.byte.injEq, List.not_mem_nil, or_false] at hb
  omega
-- `undefined_status_skipped` / `data_without_status_ignored_feed`: data, real time and a tick in between
example : (∀ t ∈ [Tok.byte 1, .tick 3, .byte 0xF8, .byte 2], NonStatusTok t) ∧
    (feed cfg4 init (.byte 0xF5 :: [Tok.byte 1, .tick 3, .byte 0xF8, .byte 2])).2 = [([0xF8], 3)] := by
  refine ⟨fun t ht => ?_, by decide⟩
  simp only [List.mem_cons, List.not_mem_nil, or_false] at ht
  rcases ht with rfl | rfl | rfl | rfl <;> simp [NonStatusTok]
-- real time
example : step cfg4 (feed cfg4 init (bytes [0x90, 0x3C])).1 0xF8 =
    ((feed cfg4 init (bytes [0x90, 0x3C])).1, [([0xF8], 0)]) := (realtime_transparent cfg4 _ 0xF8 (by omega)).1

end Midi.C06
