package main

// Syntactic facts about playback (property C12), read from v2/smf/track.go with go/parser:
//   * which functions of package sort (*TracksReader).MultiPlay calls, in source order
//     (`sort.Stable` keeps events with equal time keys in collection order, `sort.Sort` does not);
//   * the comparison `player.Less` returns (a strict `<` on absTime is what makes equal keys "equal" for
//     sort.Stable; `<=` would let it move equal elements past each other).
// The Lean side states theorems over these definitions, so that switching back breaks an obligation.

import (
	"bytes"
	"fmt"
	"go/ast"
	"go/parser"
	"go/printer"
	"go/token"
	"path/filepath"
	"strconv"
	"strings"
)

func init() { extractors = append(extractors, extractMultiPlay) }

func recvTypeName(fd *ast.FuncDecl) string {
	if fd.Recv == nil || len(fd.Recv.List) != 1 {
		return ""
	}
	t := fd.Recv.List[0].Type
	if s, ok := t.(*ast.StarExpr); ok {
		t = s.X
	}
	if id, ok := t.(*ast.Ident); ok {
		return id.Name
	}
	return ""
}

func extractMultiPlay(root string) (string, error) {
	path := filepath.Join(root, "smf", "track.go")
	fset := token.NewFileSet()
	file, err := parser.ParseFile(fset, path, nil, 0)
	if err != nil {
		return "", err
	}
	// local name of package "sort"
	sortName := ""
	for _, im := range file.Imports {
		if p, _ := strconv.Unquote(im.Path.Value); p == "sort" {
			sortName = "sort"
			if im.Name != nil {
				sortName = im.Name.Name
			}
		}
	}
	var calls []string
	lessExpr := ""
	foundMP, foundLess := false, false
	for _, d := range file.Decls {
		fd, ok := d.(*ast.FuncDecl)
		if !ok || fd.Body == nil {
			continue
		}
		switch {
		case fd.Name.Name == "MultiPlay" && recvTypeName(fd) == "TracksReader":
			foundMP = true
			ast.Inspect(fd.Body, func(n ast.Node) bool {
				if ce, ok := n.(*ast.CallExpr); ok {
					if se, ok := ce.Fun.(*ast.SelectorExpr); ok {
						if id, ok := se.X.(*ast.Ident); ok && sortName != "" && id.Name == sortName {
							calls = append(calls, se.Sel.Name)
						}
					}
				}
				return true
			})
		case fd.Name.Name == "Less" && recvTypeName(fd) == "player":
			foundLess = true
			// the function must consist of a single return statement; anything else is reported verbatim as "?"
			lessExpr = "?"
			if len(fd.Body.List) == 1 {
				if rs, ok := fd.Body.List[0].(*ast.ReturnStmt); ok && len(rs.Results) == 1 {
					var b bytes.Buffer
					printer.Fprint(&b, fset, rs.Results[0])
					recv := ""
					if len(fd.Recv.List[0].Names) == 1 {
						recv = fd.Recv.List[0].Names[0].Name
					}
					var params []string
					for _, f := range fd.Type.Params.List {
						for _, n := range f.Names {
							params = append(params, n.Name)
						}
					}
					lessExpr = recv + ";" + strings.Join(params, ",") + ";" + strings.Join(strings.Fields(b.String()), " ")
				}
			}
		}
	}
	if !foundMP {
		return "", fmt.Errorf("(*TracksReader).MultiPlay not found in %s", path)
	}
	if !foundLess {
		return "", fmt.Errorf("player.Less not found in %s", path)
	}
	var q []string
	for _, c := range calls {
		q = append(q, strconv.Quote(c))
	}
	var sb strings.Builder
	sb.WriteString("/-- functions of package sort called in (*TracksReader).MultiPlay (v2/smf/track.go), source order; go/parser -/\n")
	fmt.Fprintf(&sb, "def multiPlaySortCalls : List String := [%s]\n", strings.Join(q, ", "))
	sb.WriteString("/-- `player.Less`: receiver;parameters;returned expression (v2/smf/track.go); go/parser -/\n")
	fmt.Fprintf(&sb, "def playerLess : String := %s\n", strconv.Quote(lessExpr))
	return sb.String(), nil
}
