import MidiModel.Vlq
/-! Helper lemmas about variable-length quantities. -/
namespace Midi.Vlq

/-- big-endian continuation digits then final digit: value semantics -/
def valBE : Nat → List Nat → Nat
  | acc, [] => acc
  | acc, d :: ds => valBE (acc * 128 + d % 128) ds

theorem tailLE_val (f q : Nat) (h : q < 128 ^ f) :
    valBE 0 (tailLE f q).reverse = q ∧ (∀ d ∈ tailLE f q, 128 ≤ d ∧ d < 256) := by
  induction f generalizing q with
  | zero => simp at h; subst h; simp [tailLE, valBE]
  | succ f ih =>
    unfold tailLE
    split
    · next hq => subst hq; simp [valBE]
    · next hq =>
      have hlt : q / 128 < 128 ^ f := by
        rw [Nat.div_lt_iff_lt_mul (by decide)]; rw [Nat.pow_succ] at h; omega
      obtain ⟨hv, hd⟩ := ih (q / 128) hlt
      constructor
      · simp only [List.reverse_cons]
        -- valBE over append
        have happ : ∀ (l : List Nat) (acc x : Nat), valBE acc (l ++ [x]) = valBE acc l * 128 + x % 128 := by
          intro l; induction l with
          | nil => intro acc x; simp [valBE]
          | cons a l ihl => intro acc x; simp [valBE, ihl]
        rw [happ, hv]; omega
      · intro d hd'
        simp at hd'
        rcases hd' with rfl | hd'
        · omega
        · exact hd d hd'


theorem valBE_append (l : List Nat) (acc x : Nat) : valBE acc (l ++ [x]) = valBE acc l * 128 + x % 128 := by
  induction l generalizing acc with
  | nil => simp [valBE]
  | cons a l ihl => simp [valBE, ihl]

/-- reading continuation digits (all ≥128) followed by a final digit <128 -/
theorem readAux_digits (ds : List Nat) (lo : Nat) (rest : List Nat) (acc fuel : Nat)
    (hds : ∀ d ∈ ds, 128 ≤ d ∧ d < 256) (hlo : lo < 128)
    (hfuel : ds.length < fuel)
    (hbound : valBE acc ds * 128 + lo < 4294967296) :
    readAux fuel acc (ds ++ lo :: rest) = some (valBE acc ds * 128 + lo, rest) := by
  induction ds generalizing acc fuel with
  | nil =>
    cases fuel with
    | zero => simp at hfuel
    | succ f =>
      simp only [List.nil_append, readAux, valBE] at *
      have : acc * 128 % 4294967296 = acc * 128 := by apply Nat.mod_eq_of_lt; omega
      simp [this, hlo, Nat.mod_eq_of_lt hlo]
  | cons d ds ih =>
    cases fuel with
    | zero => simp at hfuel
    | succ f =>
      have hd := hds d (by simp)
      have hmono : ∀ (l : List Nat) (a : Nat), a ≤ valBE a l := by
        intro l; induction l with
        | nil => intro a; simp [valBE]
        | cons x l ihl => intro a; simp only [valBE]; exact Nat.le_trans (by omega) (ihl _)
      simp only [valBE] at hbound
      have h1 := hmono ds (acc * 128 + d % 128)
      have hm : acc * 128 % 4294967296 = acc * 128 := by apply Nat.mod_eq_of_lt; omega
      simp only [List.cons_append, readAux, hm]
      have : ¬ d < 128 := by omega
      simp only [this, if_false]
      simp only [valBE]
      exact ih _ _ (fun x hx => hds x (by simp [hx])) (by simp at hfuel; omega) hbound

theorem read_encode (n : Nat) (hn : n < 4294967296) (rest : List Nat) :
    read (encode n ++ rest) = some (n, rest) := by
  unfold read encode
  have hq : n / 128 < 128 ^ 5 := by
    rw [Nat.div_lt_iff_lt_mul (by decide)]; omega
  obtain ⟨hv, hd⟩ := tailLE_val 5 (n / 128) hq
  simp only [List.reverse_cons, List.append_assoc, List.singleton_append]
  have hlen : (tailLE 5 (n/128)).length ≤ 5 := by
    have : ∀ f q, (tailLE f q).length ≤ f := by
      intro f; induction f with
      | zero => intro q; simp [tailLE]
      | succ f ih => intro q; unfold tailLE; split <;> simp [ih]
    exact this 5 _
  have := readAux_digits (tailLE 5 (n/128)).reverse (n % 128) rest 0
    (((tailLE 5 (n / 128)).reverse ++ n % 128 :: rest).length + 1)
    (by intro d hd'; exact hd d (by simpa using hd')) (by omega)
    (by simp; omega) (by rw [hv]; omega)
  rw [this, hv]
  congr 2; omega




end Midi.Vlq
