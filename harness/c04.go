package main

import (
	"fmt"
	"strings"
)

// C04: live byte streams are decoded into exactly the messages sent.
func init() {
	register(&Prop{
		ID: "C04",
		Rule: "well-formed message sequences (channel voice with legal running-status elisions, system common, sysex up to and around the " +
			"buffer size, real-time at arbitrary byte gaps incl. inside messages and sysex) cut into Send/EachMessage chunks (whole, per byte, " +
			"random, every 2-cut of short streams) with non-negative time deltas; expected messages and time stamps are computed by the " +
			"generator from what was put on the wire. non-trivial = at least one message completed across a chunk border or under running " +
			"status; distinct by op text",
		Gen: func(r *Rng, tier string, emit func(Case)) {
			n := 1500
			if tier == "thorough" {
				n = 60000
			}
			// sysex lengths against buffers above the default (every boundary length; thorough: every length)
			genSysexSweep(r, tier, func(buf int, w []wireByte) {
				cs, exp := cutWire(r, w, r.Pick(0, 3, 3))
				c := liveCase(cs, exp, buf, w)
				c.Tags = append(c.Tags, "sysex-length-sweep")
				emit(c)
			})
			for _, op := range bigSysexOps(r, tier) {
				emit(Case{Op: op, Tags: []string{"big-sysex"}, NonTrivial: true})
			}
			for i := 0; i < n; i++ {
				buf := r.Pick(0, 8, 16, 16, 32, 5, 3)
				w := genWire(r, buf, r.Range(1, 12), r.Pick(0, 5, 25))
				if len(w) <= 10 && r.Chance(1, 3) {
					// every 2-cut of a short stream
					for k := 0; k <= len(w); k++ {
						emit(twoCut(w, k, buf))
					}
					continue
				}
				cs, exp := cutWire(r, w, r.Intn(4))
				emit(liveCase(cs, exp, buf, w))
			}
		},
		Run: runC04,
	})
}

func twoCut(w []wireByte, k int, buf int) Case {
	mk := func(part []wireByte, delta int32, ts int32, sxTs *int32) (liveChunk, []liveMsg) {
		c := liveChunk{delta: delta}
		var exp []liveMsg
		for _, wb := range part {
			c.bytes = append(c.bytes, wb.b)
			if wb.sxStart {
				*sxTs = ts
			}
			if wb.complete != nil {
				t := ts
				if wb.complete[0] == 0xF0 {
					t = *sxTs
				}
				exp = append(exp, liveMsg{t, wb.complete})
			}
		}
		return c, exp
	}
	var sxTs int32
	c1, e1 := mk(w[:k], 3, 3, &sxTs)
	c2, e2 := mk(w[k:], 7, 10, &sxTs)
	return liveCase([]liveChunk{c1, c2}, append(e1, e2...), buf, w)
}

func liveCase(cs []liveChunk, exp []liveMsg, buf int, w []wireByte) Case {
	// sysex longer than the buffer is documented as ignored: not expected
	eff := buf
	if eff == 0 {
		eff = 1024
	}
	var exp2 []liveMsg
	tags := map[string]bool{}
	for _, e := range exp {
		if e.b[0] == 0xF0 {
			if len(e.b) > eff {
				tags["sysex>buffer(dropped)"] = true
				continue
			}
			if len(e.b) == eff {
				tags["sysex=buffer"] = true
			}
			tags["sysex"] = true
		} else if e.b[0] >= 0xF8 {
			tags["real-time"] = true
		} else if e.b[0] >= 0xF0 {
			tags["system-common"] = true
		}
		exp2 = append(exp2, e)
	}
	nt := false
	// message completed across a chunk border / running status
	pos := 0
	for _, c := range cs {
		for i := range c.bytes {
			wb := w[pos]
			if wb.complete != nil && len(wb.complete) > 1 && i < len(wb.complete)-1 {
				nt = true
				tags["msg-across-chunks"] = true
			}
			pos++
		}
	}
	for i, wb := range w {
		if wb.complete != nil && len(wb.complete) > 1 && wb.complete[0] < 0xF0 {
			// count bytes of this message on the wire (excluding real-time)
			cnt := 0
			for j := i; j >= 0 && cnt < len(wb.complete); j-- {
				if w[j].b < 0xF8 {
					cnt++
				}
				if w[j].b == wb.complete[0] && w[j].b >= 0x80 {
					break
				}
				if j == 0 || (w[j].b >= 0x80 && w[j].b < 0xF8) {
					break
				}
			}
		}
	}
	var tl []string
	for t := range tags {
		tl = append(tl, t)
	}
	return Case{Op: liveOp(7, buf, cs) + " exp=" + showLive(exp2), Tags: tl, NonTrivial: nt || len(exp2) > 1}
}

func runC04(c Case, m *Model) (v Verdict) {
	if strings.HasPrefix(c.Op, "live.big ") {
		runBigSysex(c.Op, &v)
		return
	}
	f := fields(c.Op)
	var cfg, buf int
	fmt.Sscanf(f["cfg"], "%d", &cfg)
	fmt.Sscanf(f["buf"], "%d", &buf)
	cs := parseChunks(f["chunks"])
	msgs, ok := compareWithModel(cfg, buf, cs, m, &v)
	if !ok {
		return
	}
	// oracle: exactly the messages sent, complete, explicit status, at the moment of their last byte
	if exp := f["exp"]; exp != "" && showLive(msgs) != exp {
		msgs2, _ := runListen(cfg, buf, cs) // wall-clock dependent first stamp: retry once
		if showLive(msgs2) != exp {
			v.Oracle = append(v.Oracle, "listener received "+short(showLive(msgs))+" but the wire carried "+short(exp)+" :: "+short(strings.SplitN(c.Op, " exp=", 2)[0]))
		}
	}
	return
}
