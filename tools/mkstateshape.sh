#!/bin/bash
# regenerates lean/Proofs/StateShapeExpected.lean from /repo (run after every fix: commit, on the clean tree)
set -e
cd "$(dirname "$0")/stateshape"
export GOFLAGS=-mod=mod GOPROXY=off GOSUMDB=off GOTOOLCHAIN=local
go build -o /tmp/stateshape.$$ .
/tmp/stateshape.$$ ${1:-/repo}/v2 gitlab.com/gomidi/midi/v2 expected . smf internal/utils internal/runningstatus drivers drivers/testdrv drivers/midicat drivers/midicatdrv sysex mmc sequencer > ../../lean/Proofs/StateShapeExpected.lean
rm -f /tmp/stateshape.$$
