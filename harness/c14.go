package main

import (
	"fmt"
	"strings"
	"time"

	"gitlab.com/gomidi/midi/v2/drivers/testdrv"
)

// C14: listen options filter exactly their message class and nothing else.
func init() {
	register(&Prop{
		ID: "C14",
		Rule: "streams of the C04 domain (plus garbage streams) delivered through midi.ListenTo on testdrv under each of the 8 option " +
			"combinations; the messages received under a combination must be exactly those received with all options on minus the classes " +
			"switched off (content, order, time stamp). non-trivial = the all-on run delivers at least one message of a filtered class; " +
			"distinct by op text",
		Gen: func(r *Rng, tier string, emit func(Case)) {
			n := 600
			if tier == "thorough" {
				n = 25000
			}
			for i := 0; i < n; i++ {
				buf := r.Pick(0, 8, 16, 32, 4)
				var cs []liveChunk
				if r.Chance(1, 5) {
					cs = randomChunks(r, genGarbage(r, r.Range(1, 40)))
				} else {
					w := genWire(r, buf, r.Range(1, 12), r.Pick(10, 25, 40))
					cs, _ = cutWire(r, w, r.Intn(4))
				}
				emit(Case{Op: liveOp(7, buf, cs), Tags: []string{"stream"}, NonTrivial: true})
				if i%4 == 0 {
					// the same stream on a finer clock: deltas of 100, 250, 600 µs ... (stamps are whole milliseconds)
					emit(Case{Op: "c14.subms unitus=" + fmt.Sprint(r.Pick(100, 250, 300, 600, 700, 999)) + " " + strings.TrimPrefix(liveOp(7, buf, cs), "live.feed "), Tags: []string{"stream-submillisecond"}, NonTrivial: true})
				}
			}
		},
		Run: runC14,
	})
}

// runC14SubMs: the same stream with the chunk deltas counted in microseconds (the driver's time stamps are whole
// milliseconds since the previous Send): under every option set the messages that remain carry the stamps of the
// all-options run. Oracle only (the model's clock ticks in milliseconds).
func runC14SubMs(c Case) (v Verdict) {
	f := fields(c.Op)
	var buf, unit int
	fmt.Sscanf(f["buf"], "%d", &buf)
	fmt.Sscanf(f["unitus"], "%d", &unit)
	cs := parseChunks(f["chunks"])
	run := func(cfg int) (msgs []liveMsg, p string) {
		p = try(func() {
			drv := testdrv.New("verif")
			ins, _ := drv.Ins()
			outs, _ := drv.Outs()
			ins[0].Open()
			outs[0].Open()
			msgs = listenOnceUnit(drv, ins[0], outs[0], cfg, buf, cs, time.Duration(unit)*time.Microsecond)
		})
		return
	}
	all, p := run(7)
	if p != "" {
		v.Oracle = append(v.Oracle, "panic: "+p+" :: "+short(c.Op))
		return
	}
	v.Counts = map[string]int{}
	for cfg := 0; cfg < 7; cfg++ {
		got, p := run(cfg)
		if p != "" {
			v.Oracle = append(v.Oracle, "panic: "+p+" :: "+short(c.Op))
			return
		}
		var want []liveMsg
		for _, mm := range all {
			switch {
			case mm.b[0] == 0xFE && cfg&2 == 0, mm.b[0] == 0xF8 && cfg&4 == 0, mm.b[0] == 0xF0 && cfg&1 == 0:
				continue
			}
			want = append(want, mm)
		}
		v.Counts["option-runs-submillisecond"]++
		if !sameLive(got, want) {
			v.Oracle = append(v.Oracle, fmt.Sprintf("options %d, chunk deltas in units of %d µs: received %s, but all-options run minus the disabled classes is %s :: %s",
				cfg, unit, short(showLive(got)), short(showLive(want)), short(c.Op)))
			return
		}
	}
	return
}

func runC14(c Case, m *Model) (v Verdict) {
	if strings.HasPrefix(c.Op, "c14.subms ") {
		return runC14SubMs(c)
	}
	f := fields(c.Op)
	var buf int
	fmt.Sscanf(f["buf"], "%d", &buf)
	cs := parseChunks(f["chunks"])
	all, ok := compareWithModel(7, buf, cs, m, &v)
	if !ok {
		return
	}
	v.Counts = map[string]int{}
	for cfg := 0; cfg < 7; cfg++ {
		got, ok := compareWithModel(cfg, buf, cs, m, &v)
		if !ok {
			return
		}
		var want []liveMsg
		for _, mm := range all {
			switch {
			case mm.b[0] == 0xFE && cfg&2 == 0, mm.b[0] == 0xF8 && cfg&4 == 0, mm.b[0] == 0xF0 && cfg&1 == 0:
				v.Counts["filtered-messages"]++
				continue
			}
			want = append(want, mm)
		}
		v.Counts["option-runs"]++
		if !sameLive(got, want) {
			got2, _ := runListen(cfg, buf, cs)
			all2, _ := runListen(7, buf, cs)
			if !sameLive(got2, want) && sameLive(all2, all) {
				v.Oracle = append(v.Oracle, fmt.Sprintf("options %d: received %s, but all-options run minus the disabled classes is %s :: %s",
					cfg, short(showLive(got)), short(showLive(want)), short(c.Op)))
				return
			}
		}
	}
	// the same port listened to again and again under changing options (ListenTo, stop, ListenTo ...): every listener
	// gets what a listener on a fresh port gets under its options
	if hk := len(c.Op) + len(cs); hk%3 == 0 {
		order := [][]int{{0, 7, 1, 6, 2, 5, 3, 4}, {7, 0, 5, 2, 3, 4, 1, 6}, {6, 1, 7, 7, 0, 3, 5, 2, 4}, {2, 3, 0, 1, 4, 5, 7, 6}}[hk/3%4]
		res, p := runListenSeq(order, buf, cs)
		if p != "" {
			v.Oracle = append(v.Oracle, "panic while a port is listened to repeatedly: "+p+" :: "+short(c.Op))
			return
		}
		v.Counts["reused-port-runs"] += len(order)
		for i, cfg := range order {
			var want []liveMsg
			for _, mm := range all {
				switch {
				case mm.b[0] == 0xFE && cfg&2 == 0, mm.b[0] == 0xF8 && cfg&4 == 0, mm.b[0] == 0xF0 && cfg&1 == 0:
					continue
				}
				want = append(want, mm)
			}
			if !sameLive(res[i], want) {
				res2, _ := runListenSeq(order, buf, cs) // wall-clock dependent first stamp: once more
				if len(res2) == len(order) && !sameLive(res2[i], want) {
					v.Oracle = append(v.Oracle, fmt.Sprintf("options %d on a port that was listened to before (option sets %v, then this one): received %s, but all-options run minus the disabled classes is %s :: %s",
						cfg, order[:i], short(showLive(res[i])), short(showLive(want)), short(c.Op)))
					return
				}
			}
		}
	}
	return
}
