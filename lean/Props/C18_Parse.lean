import Props.C18_Code
/-!
# C18, tie to the source: `sysex.Parse` as translated from `v2/sysex/sysex.go` on every run is the model's `parse`

For every byte string (a Go slice is shorter than 2^62 bytes): the translated function returns a non-nil error exactly
where the model says `err`, the parsed value where the model says `ok`, and never panics (the model's `panic` outcome
does not occur either). The `error` value is rendered as the flag "non-nil" (DESIGN §4).
-/
namespace Midi.C18
open Midi Midi.Go Midi.Sysex

set_option linter.unusedSimpArgs false

theorem idx_lit (bt : Bytes) (i : Int) (k : Nat) (hi : i = (k : Int)) (h : k < bt.length) :
    Go.idx bt i = .ok bt[k] := by
  subst hi; simp [Go.idx, h]; rfl

theorem midx_lit (bt : Bytes) (k : Nat) (h : k < bt.length) : Sysex.idx bt k = some bt[k] := by
  simp [Sysex.idx, h]

theorem wrapS64_sub (n k : Nat) (hk : k ≤ n) (hn : n < 4611686018427387904) :
    Go.wrapS 64 ((n : Int) - (k : Int)) = ((n - k : Nat) : Int) := by
  unfold Go.wrapS; omega

theorem code_Parse (bt : Bytes) (hlen : bt.length < 4611686018427387904) :
    match parse bt with
    | .ok m => sysex.Parse bt = .ok (toGo m, false)
    | .err _ => ∃ g, sysex.Parse bt = .ok (g, true)
    | .panic => ∃ e, sysex.Parse bt = .error e := by
  unfold parse sysex.Parse
  by_cases h11 : bt.length < 11
  · have : (bt.length : Int) < 11 := by omega
    simp [h11, this]; exact ⟨_, rfl⟩
  have h11' : ¬ (bt.length : Int) < 11 := by omega
  have i0 := idx_lit bt 0 0 rfl (by omega); have m0 := midx_lit bt 0 (by omega)
  have i1 := idx_lit bt 1 1 rfl (by omega); have m1 := midx_lit bt 1 (by omega)
  have i2 := idx_lit bt 2 2 rfl (by omega); have m2 := midx_lit bt 2 (by omega)
  have i3 := idx_lit bt 3 3 rfl (by omega); have m3 := midx_lit bt 3 (by omega)
  have i4 := idx_lit bt 4 4 rfl (by omega); have m4 := midx_lit bt 4 (by omega)
  have i5 := idx_lit bt 5 5 rfl (by omega); have m5 := midx_lit bt 5 (by omega)
  have i6 := idx_lit bt 6 6 rfl (by omega); have m6 := midx_lit bt 6 (by omega)
  have i7 := idx_lit bt 7 7 rfl (by omega); have m7 := midx_lit bt 7 (by omega)
  simp only [h11, h11', ↓reduceIte, i0, i1, i2, i3, i4, i5, i6, i7, m0, m1, m2, m3, m4, m5, m6, m7]
  have okb : ∀ {α β : Type} (x : α) (f : α → Except String β), (Except.ok x >>= f) = f x := fun _ _ => rfl
  have s0 : ∀ x : Nat, Go.setIdx (List.replicate 3 0) 0 x = .ok [x, 0, 0] := fun _ => rfl
  have s1 : ∀ a x : Nat, Go.setIdx [a, 0, 0] 1 x = .ok [a, x, 0] := fun _ _ => rfl
  have s2 : ∀ a b x : Nat, Go.setIdx [a, b, 0] 2 x = .ok [a, b, x] := fun _ _ _ => rfl
  simp only [okb, s0, s1, s2]
  have hl2 : Go.wrapS 64 ((bt.length : Int) - 2) = ((bt.length - 2 : Nat) : Int) := wrapS64_sub bt.length 2 (by omega) hlen
  have hl1 : Go.wrapS 64 ((bt.length : Int) - 1) = ((bt.length - 1 : Nat) : Int) := wrapS64_sub bt.length 1 (by omega) hlen
  have j2 := idx_lit bt _ (bt.length - 2) rfl (by omega); have n2 := midx_lit bt (bt.length - 2) (by omega)
  have j1 := idx_lit bt _ (bt.length - 1) rfl (by omega); have n1 := midx_lit bt (bt.length - 1) (by omega)
  simp only [hl2, hl1, j2, j1, okb]
  by_cases hb0 : bt[0] = 240
  case neg => simp [hb0]; exact ⟨_, rfl⟩
  simp only [hb0, ne_eq, not_true_eq_false, ↓reduceIte]
  by_cases h17 : bt[4] = 17
  · have h18 : ¬ bt[4] = 18 := by omega
    simp only [h17, ↓reduceIte, ne_eq, not_true_eq_false, false_and]
    by_cases h13 : bt.length < 13
    · have : (bt.length : Int) < 13 := by omega
      simp [h13, this]; exact ⟨_, rfl⟩
    have h13' : ¬ (bt.length : Int) < 13 := by omega
    have i8 := idx_lit bt 8 8 rfl (by omega); have m8 := midx_lit bt 8 (by omega)
    have i9 := idx_lit bt 9 9 rfl (by omega); have m9 := midx_lit bt 9 (by omega)
    have i10 := idx_lit bt 10 10 rfl (by omega); have m10 := midx_lit bt 10 (by omega)
    simp only [h13, h13', ↓reduceIte, i8, i9, i10, m8, m9, m10, okb, parseTail, n2, n1]
    rw [code_Checksum_gen _ bt[5] bt[6] bt[7] bt[8] bt[9] bt[10] rfl rfl]
    simp only [okb]
    simp only [checksum, summed, body, beq_self_eq_true, ↓reduceIte, if_true]
    generalize cksumOf ([bt[5], bt[6], bt[7]] ++ [bt[8], bt[9], bt[10]]) = ck
    by_cases hc : bt[bt.length - 2] = ck
    · by_cases he : bt[bt.length - 1] = 247
      · simp [hc, he, toGo]; rfl
      · simp [hc, he]; exact ⟨_, rfl⟩
    · simp [hc]; exact ⟨_, rfl⟩
  by_cases h18 : bt[4] = 18
  · simp only [h17, h18, ↓reduceIte, ne_eq, not_true_eq_false, not_false_eq_true, and_false, Bool.false_eq_true]
    have hne : ¬ ((18 : Nat) = 17) := by decide
    have hsl : Go.slice bt 8 ((bt.length - 2 : Nat) : Int) = .ok ((bt.take (bt.length - 2)).drop 8) := by
      unfold Go.slice
      have : (0 : Int) ≤ 8 ∧ (8 : Int) ≤ ((bt.length - 2 : Nat) : Int) ∧ ((bt.length - 2 : Nat) : Int).toNat ≤ bt.length := by
        refine ⟨by decide, by omega, by simp⟩
      simp only [this, and_self, ↓reduceIte, Int.toNat_natCast]
      have hle : bt.length - 2 ≤ bt.length := by omega
      simp only [hle, and_self, ↓reduceIte, true_and]
      rfl
    have msl : Sysex.slice bt 8 (bt.length - 2) = some ((bt.take (bt.length - 2)).drop 8) := by
      unfold Sysex.slice
      have : 8 ≤ bt.length - 2 ∧ bt.length - 2 ≤ bt.length := by omega
      simp only [this, and_self, ↓reduceIte]
    simp only [hne, ↓reduceIte, hsl, msl, okb, parseTail, n2, n1]
    rw [code_Checksum_gen _ bt[5] bt[6] bt[7] 0 0 0 rfl rfl]
    simp only [okb, checksum, summed, body, Bool.false_eq_true, ↓reduceIte, if_false,
      show ((18 : Nat) == 17) = false from by decide]
    generalize cksumOf ([bt[5], bt[6], bt[7]] ++ (bt.take (bt.length - 2)).drop 8) = ck
    by_cases hc : bt[bt.length - 2] = ck
    · by_cases he : bt[bt.length - 1] = 247
      · simp [hc, he, toGo]; rfl
      · simp [hc, he]; exact ⟨_, rfl⟩
    · simp [hc]; exact ⟨_, rfl⟩
  · simp [h17, h18]; exact ⟨_, rfl⟩

end Midi.C18
