import Props.C03_Code
/-!
# C15, tie to the source: `utils.VlqEncode` (delta times and payload lengths of everything the writer and the meta
constructors emit) as translated from `internal/utils/utils.go` on every run is the model's `Vlq.encode`
(proved in `Props/C03_Code.lean`; repeated here because C15 rests on the same code).
-/
namespace Midi.C15
open Midi Midi.Go

theorem code_VlqEncode (n : Nat) (h : n < 4294967296) : utils.VlqEncode n = .ok (Vlq.encode n) :=
  Midi.C03.code_VlqEncode n h

end Midi.C15
