import Proofs.Play
import MidiModel.Generated.Facts
/-!
# C12 — playback sends every playable event once, in file order, never early

Model: `MidiModel/Play.lean` (`TracksReader.Do`, the callback and the sort of `MultiPlay`, `Play`, the pacing
loop `play`, `Message.IsPlayable`). A file `f : FileIn` is, per track, the list of `(AbsMicroSeconds, bytes)` that
`Do` hands out; the absolute times are an input (they are the business of C11). `sel` is the track selection of
`ReadTracks*` (empty = all), `pm` the track → port map of `MultiPlay` (key `-1` = default port).
`play f sel pm` is the sequence of `Send` calls: `x.ev` says which event (track, position in the track, time,
bytes), `x.port` on which port.

Trusted, not proved: `sort.Stable` is a stable sort (the model sorts with `List.mergeSort`, whose result is the
stable sorted permutation); `time.Sleep d` does not return before `d` has elapsed (then
`schedule_nonneg_cumulative` is "never early").

All theorems hold for every file, selection and port map; `FileMono` (times non-decreasing inside each track,
C11 `timeAt_mono`) is needed only where the order inside a track is concerned, `InRange` (0 ≤ µs, and the
nanosecond value fits int64: about 292 years) only for the pacing.
-/
namespace Midi.C12
open Midi Midi.Play

/-- Exactly the playable events of the selected tracks that have a port (their own or the default), each once:
    the sends are pairwise different events, and an event `x.ev` is sent on `x.port` iff it sits in the file at
    position `x.ev.idx` of track `x.ev.track` with that time and those bytes, the track is selected, the message
    is playable and `x.port` is the port found for the track. No send is a meta event; every channel message of a
    selected track with a port is sent. -/
theorem play_perm (f : FileIn) (sel : List Int) (pm : PortMap) :
    (play f sel pm).Nodup ∧
    (∀ x : PlayEv, x ∈ play f sel pm ↔
      (doTrack sel x.ev.track = true ∧
        ∃ tr, f[x.ev.track]? = some tr ∧ tr[x.ev.idx]? = some (x.ev.time, x.ev.bytes)) ∧
      isPlayable x.ev.bytes = true ∧ outFor pm x.ev.track = some x.port) ∧
    (∀ x ∈ play f sel pm, x.ev.bytes.head? ≠ some 0xFF) ∧
    (∀ (k i : Nat) (tr : TrackIn) (t : Int) (st : Nat) (data : Bytes) (p : Nat),
      f[k]? = some tr → tr[i]? = some (t, st :: data) → 0x80 ≤ st → st ≤ 0xEF →
      doTrack sel k = true → outFor pm k = some p → ⟨⟨k, i, t, st :: data⟩, p⟩ ∈ play f sel pm) := by
  have hmem : ∀ x : PlayEv, x ∈ play f sel pm ↔ x ∈ collect f sel pm := fun x => (play_perm_collect f sel pm).mem_iff
  refine ⟨?_, ?_, ?_, ?_⟩
  · rw [(play_perm_collect f sel pm).nodup_iff]
    refine List.Pairwise.imp ?_ (collect_pairwise_pos f sel pm)
    intro a b h hab
    subst hab
    unfold posLt at h; omega
  · intro x; rw [hmem, mem_collect]
  · intro x hx
    rw [hmem, mem_collect] at hx
    exact isPlayable_not_meta _ hx.2.1
  · intro k i tr t st data p hk hi h1 h2 hs hp
    rw [hmem, mem_collect]
    exact ⟨⟨hs, tr, hk, hi⟩, isPlayable_channel st data h1 h2, hp⟩

/-- Per-track order is preserved, also on shared ticks: the sends that belong to track `k` are, in this order,
    exactly the playable events of track `k` in file order (if the track is selected and has a port; none
    otherwise), all on the port found for the track; hence of two sends of one track the one earlier in the file
    leaves first. -/
theorem play_track_order (f : FileIn) (sel : List Int) (pm : PortMap) (hm : FileMono f) :
    (∀ (k : Nat) (tr : TrackIn), f[k]? = some tr →
      (play f sel pm).filter (fun x => x.ev.track == k) =
        match doTrack sel k, outFor pm k with
        | true, some p => ((enumFrom k 0 tr).filter (fun e => isPlayable e.bytes)).map (fun e => ⟨e, p⟩)
        | _, _ => []) ∧
    (play f sel pm).Pairwise (fun a b => a.ev.track = b.ev.track → a.ev.idx < b.ev.idx) := by
  constructor
  · intro k tr hk
    rw [play_filter_track f sel pm hm k, collect_filter_track, hk]
    simp only [Option.getD_some]
    cases hd : doTrack sel k with
    | false => simp
    | true =>
      simp only [if_true]
      have hall : ∀ e ∈ enumFrom k 0 tr, e.track = k := fun e he => ((mem_enumFrom k e tr 0).1 he).1
      cases ho : outFor pm k with
      | none =>
        simp only [List.filterMap_eq_nil_iff]
        intro e he
        simp [collectOne, hall e he, ho]
      | some p =>
        simp only
        generalize enumFrom k 0 tr = l at hall
        induction l with
        | nil => rfl
        | cons e r ih =>
          have he : e.track = k := hall e List.mem_cons_self
          have ih' := ih (fun e' he' => hall e' (List.mem_cons_of_mem _ he'))
          by_cases hp : isPlayable e.bytes = true
          · simp [collectOne, hp, he, ho, ih']
          · simp [collectOne, hp, ih']
  · rw [List.pairwise_iff_forall_sublist]
    intro a b hab htr
    have h1 := hab.filter (fun x => x.ev.track == a.ev.track)
    rw [play_filter_track f sel pm hm a.ev.track] at h1
    have h2 : [a, b].filter (fun x => x.ev.track == a.ev.track) = [a, b] := by
      simp [htr]
    rw [h2] at h1
    have h3 := (collect_pairwise_pos f sel pm).sublist (h1.trans List.filter_sublist)
    simp only [List.pairwise_cons, List.mem_singleton, forall_eq] at h3
    have := h3.1
    unfold posLt at this; omega

/-- Events of all tracks are merged by non-decreasing time. -/
theorem play_sorted (f : FileIn) (sel : List Int) (pm : PortMap) :
    (play f sel pm).Pairwise (fun a b => a.ev.time ≤ b.ev.time) := play_sorted' f sel pm

/-- Each send goes to the port mapped to its track; a track without an entry goes to the default port (key -1);
    and a track with neither is not played at all. -/
theorem play_port (f : FileIn) (sel : List Int) (pm : PortMap) :
    (∀ x ∈ play f sel pm,
      (∀ o, pm.lookup (x.ev.track : Int) = some o → x.port = o) ∧
      (pm.lookup (x.ev.track : Int) = none → pm.lookup (-1) = some x.port)) ∧
    (∀ k : Nat, pm.lookup (k : Int) = none → pm.lookup (-1) = none → ∀ x ∈ play f sel pm, x.ev.track ≠ k) := by
  have hmem : ∀ x : PlayEv, x ∈ play f sel pm → outFor pm x.ev.track = some x.port := by
    intro x hx
    rw [(play_perm_collect f sel pm).mem_iff, mem_collect] at hx
    exact hx.2.2
  constructor
  · intro x hx
    have h := hmem x hx
    unfold outFor at h
    constructor
    · intro o ho; rw [ho] at h; simpa using h.symm
    · intro hn; rw [hn] at h; exact h
  · intro k h1 h2 x hx hk
    have h := hmem x hx
    rw [hk] at h
    simp [outFor, h1, h2] at h

/-- Pacing: the pacing loop calls `time.Sleep` once before each send; every argument is ≥ 0 (no clamping is
    relied upon) and the sleeps before and up to send `i` add up to exactly the scheduled time of its event
    (in ns). So if no `Sleep` returns early, send `i` happens no earlier than its scheduled time after the start
    of the loop. -/
theorem schedule_nonneg_cumulative (f : FileIn) (sel : List Int) (pm : PortMap)
    (hr : ∀ tr ∈ f, ∀ e ∈ tr, InRange e.1) :
    (schedule (play f sel pm)).length = (play f sel pm).length ∧
    (∀ s ∈ schedule (play f sel pm), 0 ≤ s) ∧
    ∀ (i : Nat) (h : i < (play f sel pm).length),
      ((schedule (play f sel pm)).take (i + 1)).sum = 1000 * ((play f sel pm)[i]).ev.time := by
  have h0 : InRange 0 := by unfold InRange; omega
  have hrange : ∀ p ∈ play f sel pm, InRange p.ev.time ∧ (0 : Int) ≤ p.ev.time := by
    intro p hp
    rw [(play_perm_collect f sel pm).mem_iff, mem_collect] at hp
    obtain ⟨⟨_, tr, h1, h2⟩, _⟩ := hp
    have := hr tr (List.mem_of_getElem? h1) _ (List.mem_of_getElem? h2)
    exact ⟨this, this.1⟩
  have := sleeps_spec (play f sel pm) 0 h0 hrange (play_sorted f sel pm)
  refine ⟨sleeps_length _ _, ?_, ?_⟩
  · simpa [schedule] using this.1
  · intro i hi
    have := this.2 i hi
    simpa [schedule] using this

/-- The trusted assumption about `sort.Stable`, made exact: *any* rearrangement `out` of the collected events
    that is sorted by time and keeps, for every time value, the events of that instant in collection order (that
    is what "stable sort" promises) is the model's send sequence. So nothing about the algorithm inside
    `sort.Stable` is assumed beyond stability. -/
theorem play_is_the_stable_sort (f : FileIn) (sel : List Int) (pm : PortMap) (out : List PlayEv)
    (h : StableSortOf (fun x => x.ev.time) (collect f sel pm) out) : out = play f sel pm :=
  stable_sort_unique _ _ h

example : StableSortOf (fun x => x.ev.time) (collect [[(5, [0x90, 1, 1])], [(2, [0x91, 2, 2]), (5, [0x91, 1, 1])]] [] [(-1, 0)])
    [⟨⟨1, 0, 2, [0x91, 2, 2]⟩, 0⟩, ⟨⟨0, 0, 5, [0x90, 1, 1]⟩, 0⟩, ⟨⟨1, 1, 5, [0x91, 1, 1]⟩, 0⟩] := by
  constructor
  · decide
  · intro k
    by_cases h5 : k = 5
    · subst h5; decide
    · by_cases h2 : k = 2
      · subst h2; decide
      · have e5 : ((5 : Int) == k) = false := by simp; omega
        have e2 : ((2 : Int) == k) = false := by simp; omega
        simp [collect, doAll, doFrom, doTrack, enumFrom, collectOne, isPlayable, isMeta, typeKnown, outFor, List.lookup, e5, e2]

/-- `MultiPlay` with an empty port map and `Play` with a port that cannot be opened send nothing;
    `Play(out)` is `MultiPlay` with `out` as the default port. -/
theorem error_sends_nothing (f : FileIn) (sel : List Int) (p : Nat) :
    multiPlay f sel [] = none ∧ playOne f sel true p = none ∧
    playOne f sel false p = some (play f sel [(-1, p)]) := by
  simp [multiPlay, playOne]

/-! ## facts re-read from the code on every run -/

/-- `MultiPlay` calls `sort.Stable` and nothing else of package `sort` (go/parser on v2/smf/track.go);
    switching back to `sort.Sort` breaks this obligation. -/
theorem multiplay_uses_stable_sort : Facts.multiPlaySortCalls = ["Stable"] := by decide

/-- `player.Less` is the strict comparison of the time keys, which is what makes events of one instant
    "equal" for the stable sort (`≤` here would let `sort.Stable` move them past each other). -/
theorem player_less_is_strict : Facts.playerLess = "p;a,b;p[a].absTime < p[b].absTime" := by decide

/-- The model's `IsPlayable` agrees with the compiled library on every first byte (the library's answer
    depends on nothing else), and on the empty message. -/
theorem playable_table :
    (List.range 256).map playableByte = Facts.playableFirstByte ∧ isPlayable [] = Facts.playableEmpty := by
  decide +kernel

/-! ## non-vacuity -/

/-- two tracks, 2 × 7 controller events on tick-time 100 after events at 0, a tempo and a text meta event mixed in -/
def sampleFile : FileIn :=
  [ [(0, [0xFF, 0x51, 0x03, 0x07, 0xA1, 0x20]), (0, [0xB0, 0, 1]), (100, [0xB0, 32, 0]), (100, [0xC0, 5]),
     (100, [0x90, 60, 64]), (100, [0x90, 64, 64]), (100, [0x90, 67, 64]), (100, [0x80, 60, 0]), (100, [0x80, 64, 0]),
     (250, [0xFF, 0x2F, 0x00])],
    [(0, [0x91, 40, 1]), (100, [0xFF, 0x01, 0x01, 0x41]), (100, [0x91, 41, 1]), (100, [0x91, 42, 1]), (100, [0x91, 43, 1]),
     (100, [0x91, 44, 1]), (100, [0x91, 45, 1]), (100, [0x91, 46, 1]), (100, [0x91, 47, 1]), (100, [0xF0, 0x7E, 0xF7]),
     (180, [0x81, 40, 0]), (180, [0xFF, 0x2F, 0x00])] ]

example : FileMono sampleFile := by
  intro tr htr
  simp only [sampleFile, List.mem_cons, List.mem_nil_iff, or_false] at htr
  rcases htr with rfl | rfl <;> decide

example : ∀ tr ∈ sampleFile, ∀ e ∈ tr, InRange e.1 := by
  intro tr htr
  simp only [sampleFile, List.mem_cons, List.mem_nil_iff, or_false] at htr
  rcases htr with rfl | rfl <;> (intro e he; simp only [List.mem_cons, List.mem_nil_iff, or_false] at he; unfold InRange; rcases he with rfl | rfl | rfl | rfl | rfl | rfl | rfl | rfl | rfl | rfl | rfl | rfl <;> omega)

/-- before the sort: 17 collected events (no meta, no sysex), 14 of them share the time key 100 and the
    concatenation is not sorted (track 0's events at 100 come before track 1's event at 0) -/
example : (collect sampleFile [] [(1, 7), (-1, 3)]).map (fun x => (x.ev.track, x.ev.idx, x.ev.time, x.port)) =
    [(0, 1, 0, 3), (0, 2, 100, 3), (0, 3, 100, 3), (0, 4, 100, 3), (0, 5, 100, 3), (0, 6, 100, 3), (0, 7, 100, 3),
     (0, 8, 100, 3), (1, 0, 0, 7), (1, 2, 100, 7), (1, 3, 100, 7), (1, 4, 100, 7), (1, 5, 100, 7), (1, 6, 100, 7),
     (1, 7, 100, 7), (1, 8, 100, 7), (1, 10, 180, 7)] := by decide +kernel

/-! Tests (evaluated by the interpreter, *not* proofs; `List.mergeSort` is defined by well-founded recursion and
    does not reduce in the kernel): the executable model on the sample — track 1 on port 7, track 0 on the
    default port 3, the sleeps of track 1 played alone. -/
#guard (play sampleFile [] [(1, 7), (-1, 3)]).map (fun x => (x.ev.track, x.ev.idx, x.port)) ==
    [(0, 1, 3), (1, 0, 7), (0, 2, 3), (0, 3, 3), (0, 4, 3), (0, 5, 3), (0, 6, 3), (0, 7, 3), (0, 8, 3),
     (1, 2, 7), (1, 3, 7), (1, 4, 7), (1, 5, 7), (1, 6, 7), (1, 7, 7), (1, 8, 7), (1, 10, 7)]
#guard schedule (play sampleFile [1] [(1, 7)]) == [0, 100000, 0, 0, 0, 0, 0, 0, 80000]

end Midi.C12
