import MidiModel.Live
import MidiModel.Smf
import MidiModel.Meta
/-!
# Recording a live stream into a track: `Track.RecordFrom` (`v2/smf/track.go`)

```go
t.Add(0, MetaTempo(bpm))
var absmillisec int32
return midi.ListenTo(inPort, func(msg midi.Message, absms int32) {
    if !msg.Is(midi.ChannelMsg) { return }
    deltams := absms - absmillisec
    absmillisec = absms
    delta := ticks.Ticks(bpm, time.Duration(deltams)*time.Millisecond)
    t.Add(delta, msg)
})
```

`record` is the callback folded over what the listener receives, statement by statement: the mutable pair
(`*t`, `absmillisec`) is the state `RSt`, the `int32` subtraction carries its wrap-around (`wrap32`), and the
conversion `MetricTicks.Ticks(bpm, ·)` (float64 multiplication, `math.Round`, `uint32(...)`) is the *parameter*
`ticksOf` — floats never enter Lean. `ticksRef` is the exact rational reference `round(q·bpm·Δms/60000)` for
`bpm = bn/bd`; it is what the driver executes and what the float code is compared with.

`recordLive` composes the callback with the live path of `MidiModel/Live.lean`: `RecordFrom` calls
`midi.ListenTo` *without* options, i.e. with `ListenConfig{}` (`recCfg`: no sysex, no active sense, no timing
clock, default buffer). A panic of the re-typing step of `ListenTo` (the `none` inside `Live.listen`) would
happen before the callback runs; it is the explicit outcome `none` of `received` / `recordLive`
(shown unreachable in `Props/C13.lean`).
-/
namespace Midi.Record
open Midi.Smf

/-- `msg.Is(midi.ChannelMsg)` = `msg.Type().Is(ChannelMsg)`: `getType` answers `UnknownMsg` for the empty
    message and looks only at the first byte otherwise (no panic branch in the Go code; the link to the
    `Option`-valued model `Msg.msgIs` is `isChannelMsg_msgIs` in `Proofs/Record.lean`). -/
def isChannelMsg (m : Bytes) : Bool :=
  match m with
  | [] => Msg.typeIs Msg.UnknownMsg Msg.ChannelMsg
  | b :: _ => Msg.typeIs (Msg.typeOfStatus b) Msg.ChannelMsg

/-- `int32` result of an integer computation (two's complement wrap) -/
def wrap32 (x : Int) : Int := (x + 2147483648) % 4294967296 - 2147483648

/-- the variables the callback closes over: `*t` and `absmillisec` -/
structure RSt where
  track : Track
  absms : Int
deriving Repr, DecidableEq

/-- one invocation of the listener callback with `(msg, absms)` -/
def onMsg (ticksOf : Int → Nat) (s : RSt) (m : Bytes × Int) : RSt :=
  if !isChannelMsg m.1 then s
  else
    let deltams := wrap32 (m.2 - s.absms)
    { track := s.track.add (ticksOf deltams) [m.1], absms := m.2 }

/-- state when `ListenTo` is entered: `t.Add(0, MetaTempo(bpm))` on the (empty) track, `absmillisec = 0` -/
def start (tempoMsg : Bytes) : RSt := ⟨Track.add [] 0 [tempoMsg], 0⟩

/-- the track after the listener has received `msgs` (message, time stamp in ms) in this order -/
def record (ticksOf : Int → Nat) (tempoMsg : Bytes) (msgs : List (Bytes × Int)) : Track :=
  (msgs.foldl (onMsg ticksOf) (start tempoMsg)).track

/-- `ListenConfig{}`: what `midi.ListenTo(inPort, recv)` without options hands to the driver -/
def recCfg : Live.Cfg := ⟨false, 0, false, false⟩

/-- all listener invocations went through (`none` = the re-typing step of `ListenTo` panicked) -/
def delivered : List (Option Bytes × Int) → Option (List (Bytes × Int))
  | [] => some []
  | (none, _) :: _ => none
  | (some m, ts) :: r =>
    match delivered r with
    | none => none
    | some l => some ((m, ts) :: l)

/-- what the callback of `RecordFrom` receives for a token stream on the port -/
def received (toks : List Live.Tok) : Option (List (Bytes × Int)) := delivered (Live.listen recCfg toks)

/-- `Track.RecordFrom` on a port that carries `toks`; `none` = panic -/
def recordLive (ticksOf : Int → Nat) (tempoMsg : Bytes) (toks : List Live.Tok) : Option Track :=
  match received toks with
  | none => none
  | some ms => some (record ticksOf tempoMsg ms)

/-- the same from the driver boundary: raw frames handed to `ListenTo`'s `onMsg` -/
def recordFrames (ticksOf : Int → Nat) (tempoMsg : Bytes) (frames : List Live.Frame) : Option Track :=
  match delivered (Live.listenFrames recCfg frames) with
  | none => none
  | some ms => some (record ticksOf tempoMsg ms)

/-- exact reference of `MetricTicks(q).Ticks(bpm, Δms·time.Millisecond)` for the rational `bpm = bn/bd`:
    `round(Δms · q · bpm / 60000)`, half up (`math.Round` on a non-negative value). A negative `Δms`
    (a clock running backwards) is outside the input language of the driver (`uint32` of a negative float
    is not defined by Go); here it yields 0. -/
def ticksRef (q bn bd : Nat) (dms : Int) : Nat := Meta.roundDiv (q * bn * dms.toNat) (60000 * bd)

/-- `smf.New()`, `TimeFormat = MetricTicks(res)`, `tr.Close(0)`, `s.Add(tr)` -/
def fileOf (res : Nat) (t : Track) : File := File.addTrack ⟨0, .metric res, []⟩ (t.close 0)

/-! ### line protocol -/

def parseMsgs (s : String) : Option (List (Bytes × Int)) :=
  if s = "-" then some []
  else (s.splitOn ",").mapM fun t => (Live.parseChunk t).map fun p => (p.2, p.1)

def parseRat (s : String) : Option (Nat × Nat) :=
  match s.splitOn "/" with
  | [a, b] => do pure (← a.toNat?, ← b.toNat?)
  | _ => none

/-- time stamps of the recorded (channel) messages do not go backwards on the `int32` millisecond clock (the
    difference is taken as the code takes it, with wrap-around: the clock may pass 2^31 during a recording) -/
def stampsOK : Int → List (Bytes × Int) → Bool
  | _, [] => true
  | last, m :: r => if isChannelMsg m.1 then decide (0 ≤ wrap32 (m.2 - last)) && stampsOK m.2 r else stampsOK last r

def answer (res : Nat) (ot : Option Track) : String :=
  match ot with
  | none => "panic=1"
  | some t =>
    if t.any (fun e => e.delta ≥ 4294967296) then "bad-op" else
    let w := match writeTo true (fileOf res t) with
      | .ok w => hex w
      | .noTrack => "notrack"
      | .panic => "panic"
    s!"panic=0 t={showTrack t} w={w}"

--@driver record. Record.handle
/-- `record.msgs res=<q> bpm=<bn>/<bd> msgs=<ts>:<hex>,…` — the callback over listener-level messages;
    `record.frames res= bpm= frames=<ts>:<hex>,…` — from the raw frames the driver hands to `ListenTo`;
    `record.live res= bpm= chunks=<Δ>:<hex>,…` — from the wire (`Send` calls with the clock advance before each);
    answer: `panic=0 t=<track> w=<bytes of the format-0 file with the closed track>` | `panic=1`.
    `record.ticks res= bpm= d=<Δms>,…` — the reference conversion.
    Outside the input language (`bad-op`): `bpm` with a zero numerator/denominator, resolution 0 or ≥ 32768,
    time stamps of recorded messages that go backwards (as `int32` differences), tick values that do not fit `uint32`. -/
def handle (op : String) (args : List String) : String :=
  match natField "res" args, (field "bpm" args).bind parseRat with
  | some res, some (bn, bd) =>
    if res = 0 || res ≥ 32768 || bn = 0 || bd = 0 then "bad-op" else
    let tempo := Meta.metaTempoRat bn bd
    let tk := ticksRef res bn bd
    match op with
    | "record.msgs" =>
      match (field "msgs" args).bind parseMsgs with
      | some ms =>
        if !stampsOK 0 ms then "bad-op"
        else answer res (some (record tk tempo ms))
      | none => "bad-op"
    | "record.frames" =>
      match (field "frames" args).bind parseMsgs with
      | some fs =>
        match delivered (Live.listenFrames recCfg fs) with
        | none => "panic=1"
        | some ms =>
          if !stampsOK 0 ms then "bad-op"
          else answer res (some (record tk tempo ms))
      | none => "bad-op"
    | "record.live" =>
      match field "chunks" args with
      | some cs =>
        match (if cs = "-" then some [] else (cs.splitOn ",").mapM Live.parseChunk) with
        | some chunks =>
          match received (Live.chunkToks chunks) with
          | none => "panic=1"
          | some ms =>
            if !stampsOK 0 ms then "bad-op"
            else answer res (some (record tk tempo ms)) ++ s!" msgs={Live.showMsgs (ms.map fun m => (some m.1, wrap32 m.2))}"
        | none => "bad-op"
      | none => "bad-op"
    | "record.ticks" =>
      match field "d" args with
      | some ds =>
        match (ds.splitOn ",").mapM String.toNat? with
        | some l =>
          let ts := l.map fun (d : Nat) => tk (Int.ofNat d)
          if ts.any (· ≥ 4294967296) then "bad-op"
          else "ticks=" ++ ",".intercalate (ts.map toString) ++ s!" tempo={hex tempo}"
        | none => "bad-op"
      | none => "bad-op"
    | _ => "bad-op"
  | _, _ => "bad-op"

end Midi.Record
