import Props.C01_Rs
/-!
# C03, tie to the source: the running-status writer of `internal/runningstatus` as translated on every run is the
running-status rule of the writer model (proved in `Props/C01_Rs.lean`; repeated here because what C03's strict parser
accepts rests on the same code).
-/
namespace Midi.C03
open Midi Midi.Go

theorem code_rsWrite (rs b0 : Nat) (tl : Bytes) (h : ¬ (b0 = 0xF0 ∨ b0 = 0xF7)) :
    ∃ out rs', Smf.encMsg true rs (b0 :: tl) = some (out, rs') ∧
      runningstatus.smfwriter.Write ⟨rs⟩ (b0 :: tl) = .ok (⟨rs'⟩, out) :=
  Midi.C01.code_rsWrite rs b0 tl h

theorem code_rsReset (rs : Nat) : runningstatus.smfwriter.ResetStatus ⟨rs⟩ = .ok ⟨0⟩ := rfl

end Midi.C03
