import MidiModel.SmfStream
/-! C10 (read side): a source that starts failing with a non-EOF error makes `readFrom` return an error. -/
namespace Midi.Stream
open Midi.Smf

theorem run_bind {σ α β : Type} (o : Ops σ) (p : Prog α) (f : α → Prog β) : ∀ s,
    run o (p.bind f) s = (match run o p s with
      | (.ok a, s') => run o (f a) s'
      | (.error e, s') => (.error e, s')) := by
  induction p with
  | pure a => intro s; simp [Prog.bind, run]
  | fail e => intro s; simp [Prog.bind, run]
  | readFull n k ih => intro s; simp only [Prog.bind, run]; exact ih _ _
  | readRaw k ih => intro s; simp only [Prog.bind, run]; exact ih _ _
  | discard n k ih => intro s; simp only [Prog.bind, run]; exact ih _ _

theorem run_catch {σ α β : Type} (o : Ops σ) (p : Prog α) (f : Except Err α → Prog β) : ∀ s,
    run o (p.catch f) s = run o (f (run o p s).1) (run o p s).2 := by
  induction p with
  | pure a => intro s; simp [Prog.catch, run]
  | fail e => intro s; simp [Prog.catch, run]
  | readFull n k ih => intro s; simp only [Prog.catch, run]; exact ih _ _
  | readRaw k ih => intro s; simp only [Prog.catch, run]; exact ih _ _
  | discard n k ih => intro s; simp only [Prog.catch, run]; exact ih _ _

/-- the source has a (sticky) fault at offset `f`; `hit` is only set once the offset was reached -/
def Inv (f : Nat) (s : Src) : Prop := s.fault = some f ∧ (s.hit = true → f ≤ s.pos)

theorem read_fault (f : Nat) (s : Src) (k : Nat) (h : Inv f s) (got : Bytes) (e : RdErr) (s' : Src)
    (hr : s.read k = (got, e, s')) :
    Inv f s' ∧
    (f ≤ s.pos → got = [] ∧ e = .io ∧ s'.hit = true) ∧
    (s.pos < f → s'.hit = s.hit ∧ e ≠ .io) := by
  obtain ⟨hf, hh⟩ := h
  unfold Src.read at hr
  rw [hf] at hr
  simp only at hr
  by_cases hp : f ≤ s.pos
  · simp only [hp, if_true, Prod.mk.injEq] at hr
    obtain ⟨rfl, rfl, rfl⟩ := hr
    exact ⟨⟨rfl, fun _ => hp⟩, fun _ => ⟨rfl, rfl, rfl⟩, fun h => (by omega)⟩
  · simp only [hp, if_false] at hr
    have hav : s.avail k ≤ f - s.pos := by simp only [Src.avail, hf]; omega
    by_cases hm : s.avail k = 0
    · simp only [hm, if_true, Prod.mk.injEq] at hr
      obtain ⟨rfl, rfl, rfl⟩ := hr
      exact ⟨⟨hf, hh⟩, fun h => absurd h hp, fun _ => ⟨rfl, (by simp)⟩⟩
    · simp only [hm, if_false, Prod.mk.injEq] at hr
      obtain ⟨rfl, rfl, rfl⟩ := hr
      refine ⟨⟨rfl, fun h => ?_⟩, fun h => absurd h hp, fun _ => ⟨rfl, (by split <;> simp)⟩⟩
      have := hh h; simp only; omega

/-- outcome classes of the primitives on a faulty source: once the fault was touched the primitive fails -/
theorem srcReadFull_fault (f : Nat) : ∀ (fuel n : Nat) (acc : Bytes) (s : Src) (r : Except Err Bytes) (s' : Src),
    Inv f s → 1 ≤ n → srcReadFull fuel n acc s = (r, s') →
    Inv f s' ∧ (s.hit = true → s'.hit = true) ∧ (s'.hit = true → r = .error .io ∨ r = .error .fuel) := by
  intro fuel
  induction fuel with
  | zero =>
    intro n acc s r s' h _ hr
    simp only [srcReadFull, Prod.mk.injEq] at hr
    obtain ⟨rfl, rfl⟩ := hr
    exact ⟨h, fun x => x, fun _ => Or.inr rfl⟩
  | succ fuel ih =>
    intro n acc s r s' h hn hr
    have hn0 : ¬ n = 0 := by omega
    unfold srcReadFull at hr
    simp only [hn0, if_false] at hr
    generalize hrd : s.read n = q at hr
    obtain ⟨got, e, s1⟩ := q
    obtain ⟨i1, i2, i3⟩ := read_fault f s n h got e s1 hrd
    simp only at hr
    have hnh : s.pos < f → s.hit = false := by
      intro hlt
      cases hh : s.hit with
      | false => rfl
      | true => have := h.2 hh; omega
    by_cases hp : f ≤ s.pos
    · obtain ⟨rfl, rfl, g3⟩ := i2 hp
      have : ¬ (([] : Bytes).length = n) := by simp; omega
      simp only [this, if_false, Prod.mk.injEq] at hr
      obtain ⟨rfl, rfl⟩ := hr
      exact ⟨i1, fun _ => g3, fun _ => Or.inl rfl⟩
    · obtain ⟨g1, g2⟩ := i3 (by omega)
      have hs := hnh (by omega)
      by_cases hfull : got.length = n
      · simp only [hfull, if_true, Prod.mk.injEq] at hr
        obtain ⟨rfl, rfl⟩ := hr
        exact ⟨i1, fun x => (by rw [hs] at x; cases x), fun x => (by rw [g1, hs] at x; cases x)⟩
      · simp only [hfull, if_false] at hr
        cases e with
        | io => exact absurd rfl g2
        | eof =>
          simp only [Prod.mk.injEq] at hr
          obtain ⟨rfl, rfl⟩ := hr
          exact ⟨i1, fun x => (by rw [hs] at x; cases x), fun x => (by rw [g1, hs] at x; cases x)⟩
        | none =>
          simp only at hr
          by_cases hz : n - got.length = 0
          · cases fuel with
            | zero =>
              simp only [srcReadFull, Prod.mk.injEq] at hr
              obtain ⟨rfl, rfl⟩ := hr
              exact ⟨i1, fun x => (by rw [hs] at x; cases x), fun _ => Or.inr rfl⟩
            | succ fuel' =>
              simp only [srcReadFull, hz, if_true, Prod.mk.injEq] at hr
              obtain ⟨rfl, rfl⟩ := hr
              exact ⟨i1, fun x => (by rw [hs] at x; cases x), fun x => (by rw [g1, hs] at x; cases x)⟩
          · have := ih (n - got.length) (acc ++ got) s1 r s' i1 (by omega) hr
            exact ⟨this.1, fun x => (by rw [hs] at x; cases x), this.2.2⟩

theorem srcDiscard_fault (f : Nat) : ∀ (fuel n : Nat) (s : Src) (r : Except Err Unit) (s' : Src),
    Inv f s → 1 ≤ n → srcDiscard fuel n s = (r, s') →
    Inv f s' ∧ (s.hit = true → s'.hit = true) ∧ (s'.hit = true → r = .error .io ∨ r = .error .fuel) := by
  intro fuel
  induction fuel with
  | zero =>
    intro n s r s' h _ hr
    simp only [srcDiscard, Prod.mk.injEq] at hr
    obtain ⟨rfl, rfl⟩ := hr
    exact ⟨h, fun x => x, fun _ => Or.inr rfl⟩
  | succ fuel ih =>
    intro n s r s' h hn hr
    have hn0 : ¬ n = 0 := by omega
    unfold srcDiscard at hr
    simp only [hn0, if_false] at hr
    generalize hrd : s.read n = q at hr
    obtain ⟨got, e, s1⟩ := q
    obtain ⟨i1, i2, i3⟩ := read_fault f s n h got e s1 hrd
    simp only at hr
    have hnh : s.pos < f → s.hit = false := by
      intro hlt
      cases hh : s.hit with
      | false => rfl
      | true => have := h.2 hh; omega
    by_cases hp : f ≤ s.pos
    · obtain ⟨rfl, rfl, g3⟩ := i2 hp
      have : ¬ (([] : Bytes).length = n) := by simp; omega
      simp only [this, if_false, Prod.mk.injEq] at hr
      obtain ⟨rfl, rfl⟩ := hr
      exact ⟨i1, fun _ => g3, fun _ => Or.inl rfl⟩
    · obtain ⟨g1, g2⟩ := i3 (by omega)
      have hs := hnh (by omega)
      by_cases hfull : got.length = n
      · simp only [hfull, if_true, Prod.mk.injEq] at hr
        obtain ⟨rfl, rfl⟩ := hr
        exact ⟨i1, fun x => (by rw [hs] at x; cases x), fun x => (by rw [g1, hs] at x; cases x)⟩
      · simp only [hfull, if_false] at hr
        cases e with
        | io => exact absurd rfl g2
        | eof =>
          simp only [Prod.mk.injEq] at hr
          obtain ⟨rfl, rfl⟩ := hr
          exact ⟨i1, fun x => (by rw [hs] at x; cases x), fun x => (by rw [g1, hs] at x; cases x)⟩
        | none =>
          simp only at hr
          by_cases hz : n - got.length = 0
          · cases fuel with
            | zero =>
              simp only [srcDiscard, Prod.mk.injEq] at hr
              obtain ⟨rfl, rfl⟩ := hr
              exact ⟨i1, fun x => (by rw [hs] at x; cases x), fun _ => Or.inr rfl⟩
            | succ fuel' =>
              simp only [srcDiscard, hz, if_true, Prod.mk.injEq] at hr
              obtain ⟨rfl, rfl⟩ := hr
              exact ⟨i1, fun x => (by rw [hs] at x; cases x), fun x => (by rw [g1, hs] at x; cases x)⟩
          · have := ih (n - got.length) s1 r s' i1 (by omega) hr
            exact ⟨this.1, fun x => (by rw [hs] at x; cases x), this.2.2⟩

end Midi.Stream

namespace Midi.Stream
open Midi.Smf

theorem bind_eq {α β : Type} (p : Prog α) (f : α → Prog β) : (p >>= f) = p.bind f := rfl
theorem pure_eq {α : Type} (a : α) : (pure a : Prog α) = Prog.pure a := rfl

/-- error classes that make `ReadFrom` return a value: `io.EOF` and `ErrFinished` -/
def Bad (e : Err) : Prop := e = .eof ∨ e = .finished

theorem hit_false_of (f : Nat) (s : Src) (h : Inv f s) (hp : s.pos < f) : s.hit = false := by
  cases hh : s.hit with
  | false => rfl
  | true => have := h.2 hh; omega

/-! ### primitives of `srcOps` on a faulty source -/

theorem ops_readFull (f n : Nat) (s : Src) (h : Inv f s) :
    Inv f (srcOps.readFull n s).2 ∧ (s.hit = true → (srcOps.readFull n s).2.hit = true) ∧
    (1 ≤ n → (srcOps.readFull n s).2.hit = true →
      (srcOps.readFull n s).1 = .error .io ∨ (srcOps.readFull n s).1 = .error .fuel) ∧
    (n = 0 → srcOps.readFull n s = (.ok [], s)) := by
  by_cases hn : n = 0
  · subst hn
    have : srcOps.readFull 0 s = (.ok [], s) := by simp [srcOps, srcReadFull]
    rw [this]
    exact ⟨h, fun x => x, fun h0 => (by omega), fun _ => rfl⟩
  · have := srcReadFull_fault f (n + 1) n [] s (srcReadFull (n + 1) n [] s).1 (srcReadFull (n + 1) n [] s).2 h (by omega) rfl
    exact ⟨this.1, this.2.1, fun _ => this.2.2, fun h0 => absurd h0 hn⟩

theorem ops_discard (f n : Nat) (s : Src) (h : Inv f s) :
    Inv f (srcOps.discard n s).2 ∧ (s.hit = true → (srcOps.discard n s).2.hit = true) ∧
    ((srcOps.discard n s).2.hit = true → s.hit = false →
      (srcOps.discard n s).1 = .error .io ∨ (srcOps.discard n s).1 = .error .fuel) := by
  by_cases hn : n = 0
  · subst hn
    have : srcOps.discard 0 s = (.ok (), s) := by simp [srcOps, srcDiscard]
    rw [this]
    exact ⟨h, fun x => x, fun h1 h2 => (by rw [h2] at h1; cases h1)⟩
  · have := srcDiscard_fault f (n + 1) n s (srcDiscard (n + 1) n s).1 (srcDiscard (n + 1) n s).2 h (by omega) rfl
    exact ⟨this.1, this.2.1, fun h1 _ => this.2.2 h1⟩

theorem ops_readRaw (f : Nat) (s : Src) (h : Inv f s) :
    Inv f (srcOps.readRaw s).2 ∧ (s.hit = true → (srcOps.readRaw s).2.hit = true) ∧
    ((srcOps.readRaw s).2.hit = true → (srcOps.readRaw s).1 = none) := by
  obtain ⟨i1, i2, i3⟩ := read_fault f s 1 h (s.read 1).1 (s.read 1).2.1 (s.read 1).2.2 rfl
  simp only [srcOps]
  by_cases hp : f ≤ s.pos
  · obtain ⟨g1, _, g3⟩ := i2 hp
    exact ⟨i1, fun _ => g3, fun _ => (by rw [g1])⟩
  · obtain ⟨g1, _⟩ := i3 (by omega)
    have hs := hit_false_of f s h (by omega)
    exact ⟨i1, fun x => (by rw [hs] at x; cases x), fun x => (by rw [g1, hs] at x; cases x)⟩

/-! ### program classes -/

/-- if the program touches the fault it fails, and not with `io.EOF` -/
def Safe (f : Nat) {α : Type} (p : Prog α) : Prop :=
  ∀ s, Inv f s → s.hit = false →
    Inv f (run srcOps p s).2 ∧ ((run srcOps p s).2.hit = true → ∃ e, (run srcOps p s).1 = .error e ∧ ¬ Bad e)

/-- started on a source that has already failed, the program fails, and not with `io.EOF` -/
def Dead (f : Nat) {α : Type} (p : Prog α) : Prop :=
  ∀ s, Inv f s → s.hit = true →
    Inv f (run srcOps p s).2 ∧ (run srcOps p s).2.hit = true ∧ ∃ e, (run srcOps p s).1 = .error e ∧ ¬ Bad e

theorem safe_pure (f : Nat) {α : Type} (a : α) : Safe f (Prog.pure a) := by
  intro s h hh; simp only [run]; exact ⟨h, fun x => (by rw [hh] at x; cases x)⟩

theorem safe_fail (f : Nat) {α : Type} (e : Err) : Safe f (Prog.fail e : Prog α) := by
  intro s h hh; simp only [run]; exact ⟨h, fun x => (by rw [hh] at x; cases x)⟩

theorem safe_bind (f : Nat) {α β : Type} (p : Prog α) (g : α → Prog β) (hp : Safe f p) (hg : ∀ a, Safe f (g a)) :
    Safe f (p.bind g) := by
  intro s h hh
  rw [run_bind]
  obtain ⟨i1, i2⟩ := hp s h hh
  cases hr : (run srcOps p s).1 with
  | error e =>
    have : run srcOps p s = (.error e, (run srcOps p s).2) := by rw [← hr]
    rw [this]
    simp only
    exact ⟨i1, fun x => (by obtain ⟨e', he, hne⟩ := i2 x; rw [hr] at he; cases he; exact ⟨e, rfl, hne⟩)⟩
  | ok a =>
    have : run srcOps p s = (.ok a, (run srcOps p s).2) := by rw [← hr]
    rw [this]
    simp only
    have hs1 : (run srcOps p s).2.hit = false := by
      cases hx : (run srcOps p s).2.hit with
      | false => rfl
      | true => obtain ⟨e', he, _⟩ := i2 hx; rw [hr] at he; cases he
    exact hg a _ i1 hs1

theorem not_bad_io : ¬ Bad .io := by intro h; rcases h with h | h <;> cases h
theorem not_bad_fuel : ¬ Bad .fuel := by intro h; rcases h with h | h <;> cases h
theorem not_bad_ueof : ¬ Bad .ueof := by intro h; rcases h with h | h <;> cases h

theorem safe_readN (f n : Nat) : Safe f (readN n) := by
  intro s h hh
  obtain ⟨o1, o2, o3, o4⟩ := ops_readFull f n s h
  simp only [readN, run]
  by_cases hn : n = 0
  · rw [o4 hn]
    simp only [run]
    exact ⟨h, fun x => (by rw [hh] at x; cases x)⟩
  · cases hr : (srcOps.readFull n s).1 with
    | ok b =>
      simp only [run]
      exact ⟨o1, fun x => (by rcases o3 (by omega) x with h1 | h1 <;> (rw [hr] at h1; cases h1))⟩
    | error e =>
      simp only [run]
      refine ⟨o1, fun x => ⟨e, rfl, ?_⟩⟩
      rcases o3 (by omega) x with h1 | h1 <;> (rw [hr] at h1; cases h1)
      · exact not_bad_io
      · exact not_bad_fuel

theorem safe_readByte (f : Nat) : Safe f readByte := by
  intro s h hh
  obtain ⟨o1, o2, o3, o4⟩ := ops_readFull f 1 s h
  simp only [readByte, run]
  cases hr : (srcOps.readFull 1 s).1 with
  | ok b =>
    have hnh : (srcOps.readFull 1 s).2.hit = true → False := fun x => by
      rcases o3 (by omega) x with h1 | h1 <;> (rw [hr] at h1; cases h1)
    split <;> simp only [run] <;> exact ⟨o1, fun x => (hnh x).elim⟩
  | error e =>
    simp only [run]
    refine ⟨o1, fun x => ⟨e, rfl, ?_⟩⟩
    rcases o3 (by omega) x with h1 | h1 <;> (rw [hr] at h1; cases h1)
    · exact not_bad_io
    · exact not_bad_fuel

theorem safe_readVlq (f : Nat) : ∀ fuel acc, Safe f (readVlq fuel acc) := by
  intro fuel
  induction fuel with
  | zero => intro acc; exact safe_fail f _
  | succ fuel ih =>
    intro acc s h hh
    obtain ⟨o1, o2, o3⟩ := ops_readRaw f s h
    simp only [readVlq, run]
    cases hr : (srcOps.readRaw s).1 with
    | none => simp only [run]; exact ⟨o1, fun _ => ⟨.ueof, rfl, not_bad_ueof⟩⟩
    | some b =>
      have hs1 : (srcOps.readRaw s).2.hit = false := by
        cases hx : (srcOps.readRaw s).2.hit with
        | false => rfl
        | true => have := o3 hx; rw [hr] at this; cases this
      simp only
      split
      · simp only [run]; exact ⟨o1, fun x => (by rw [hs1] at x; cases x)⟩
      · exact ih _ _ o1 hs1

theorem dead_readVlq (f : Nat) (fuel acc : Nat) : Dead f (readVlq fuel acc) := by
  intro s h hh
  cases fuel with
  | zero => simp only [readVlq, run]; exact ⟨h, hh, .fuel, rfl, not_bad_fuel⟩
  | succ fuel =>
    obtain ⟨o1, o2, o3⟩ := ops_readRaw f s h
    simp only [readVlq, run]
    rw [o3 (o2 hh)]
    simp only [run]
    exact ⟨o1, o2 hh, .ueof, rfl, not_bad_ueof⟩

theorem dead_bind (f : Nat) {α β : Type} (p : Prog α) (g : α → Prog β) (hp : Dead f p) : Dead f (p.bind g) := by
  intro s h hh
  rw [run_bind]
  obtain ⟨i1, i2, e, he, hne⟩ := hp s h hh
  have : run srcOps p s = (.error e, (run srcOps p s).2) := by rw [← he]
  rw [this]
  exact ⟨i1, i2, e, rfl, hne⟩

theorem dead_readN (f n : Nat) (hn : 1 ≤ n) : Dead f (readN n) := by
  intro s h hh
  obtain ⟨o1, o2, o3, _⟩ := ops_readFull f n s h
  simp only [readN, run]
  have h2 := o2 hh
  rcases o3 hn h2 with h3 | h3 <;> (rw [h3]; simp only [run])
  · exact ⟨o1, h2, _, rfl, not_bad_io⟩
  · exact ⟨o1, h2, _, rfl, not_bad_fuel⟩

/-! ### the reader -/

theorem safe_chunkLoop (f : Nat) : ∀ fuel started, Safe f (chunkLoop fuel started) := by
  intro fuel
  induction fuel with
  | zero => intro st; exact safe_fail f _
  | succ fuel ih =>
    intro st
    simp only [chunkLoop, bind_eq, pure_eq]
    apply safe_bind _ _ _ (safe_readN f 4); intro typ
    apply safe_bind _ _ _ (safe_readN f 4); intro len4
    split
    · exact safe_pure f _
    · intro s h hh
      obtain ⟨o1, o2, o3⟩ := ops_discard f (lenOf4 len4) s h
      simp only [run]
      cases hr : (srcOps.discard (lenOf4 len4) s).1 with
      | ok u =>
        have hs1 : (srcOps.discard (lenOf4 len4) s).2.hit = false := by
          cases hx : (srcOps.discard (lenOf4 len4) s).2.hit with
          | false => rfl
          | true => rcases o3 hx hh with h1 | h1 <;> (rw [hr] at h1; cases h1)
        exact ih st _ o1 hs1
      | error e =>
        simp only [run]
        refine ⟨o1, fun x => ⟨e, rfl, ?_⟩⟩
        rcases o3 x hh with h1 | h1 <;> (rw [hr] at h1; cases h1)
        · exact not_bad_io
        · exact not_bad_fuel

theorem dead_chunkLoop (f : Nat) (fuel started : Nat) : Dead f (chunkLoop fuel started) := by
  cases fuel with
  | zero => intro s h hh; simp only [chunkLoop, run]; exact ⟨h, hh, .fuel, rfl, not_bad_fuel⟩
  | succ fuel =>
    simp only [chunkLoop, bind_eq]
    exact dead_bind f _ _ (dead_readN f 4 (by omega))

/-- the event decoder may swallow the failure of the second data byte: then the message is empty -/
def SafeEv (f : Nat) (p : Prog Ev) : Prop :=
  ∀ s, Inv f s → s.hit = false →
    Inv f (run srcOps p s).2 ∧ ((run srcOps p s).2.hit = true →
      (∃ e, (run srcOps p s).1 = .error e ∧ ¬ Bad e) ∨ (∃ ev, (run srcOps p s).1 = .ok ev ∧ ev.msg = []))

theorem safeEv_of_safe (f : Nat) (p : Prog Ev) (h : Safe f p) : SafeEv f p := by
  intro s hi hh
  obtain ⟨a, b⟩ := h s hi hh
  exact ⟨a, fun x => Or.inl (b x)⟩

theorem safeEv_bind (f : Nat) {α : Type} (p : Prog α) (g : α → Prog Ev) (hp : Safe f p) (hg : ∀ a, SafeEv f (g a)) :
    SafeEv f (p.bind g) := by
  intro s h hh
  rw [run_bind]
  obtain ⟨i1, i2⟩ := hp s h hh
  cases hr : (run srcOps p s).1 with
  | error e =>
    have : run srcOps p s = (.error e, (run srcOps p s).2) := by rw [← hr]
    rw [this]
    simp only
    exact ⟨i1, fun x => Or.inl (by obtain ⟨e', he, hne⟩ := i2 x; rw [hr] at he; cases he; exact ⟨e, rfl, hne⟩)⟩
  | ok a =>
    have : run srcOps p s = (.ok a, (run srcOps p s).2) := by rw [← hr]
    rw [this]
    simp only
    have hs1 : (run srcOps p s).2.hit = false := by
      cases hx : (run srcOps p s).2.hit with
      | false => rfl
      | true => obtain ⟨e', he, _⟩ := i2 hx; rw [hr] at he; cases he
    exact hg a _ i1 hs1

theorem safeEv_finishChan (f δ st a1 : Nat) : SafeEv f (finishChan δ st a1) := by
  unfold finishChan
  split
  · exact safeEv_of_safe f _ (safe_pure f _)
  · intro s h hh
    obtain ⟨o1, o2, o3, _⟩ := ops_readFull f 1 s h
    simp only [run]
    cases hr : (srcOps.readFull 1 s).1 with
    | ok b =>
      have hnh : (srcOps.readFull 1 s).2.hit = true → False := fun x => by
        rcases o3 (by omega) x with h1 | h1 <;> (rw [hr] at h1; cases h1)
      split <;> simp only [run] <;> exact ⟨o1, fun x => (hnh x).elim⟩
    | error e =>
      simp only [run]
      exact ⟨o1, fun _ => Or.inr ⟨_, rfl, rfl⟩⟩

theorem safeEv_readEvent (f vfuel rr : Nat) : SafeEv f (readEvent vfuel rr) := by
  simp only [readEvent, bind_eq, pure_eq]
  apply safeEv_bind _ _ _ (safe_readVlq f _ _); intro δ
  apply safeEv_bind _ _ _ (safe_readByte f); intro c
  split
  · apply safeEv_bind _ _ _ (safe_readByte f); intro t
    apply safeEv_bind _ _ _ (safe_readVlq f _ _); intro n
    apply safeEv_bind _ _ _ (safe_readN f _); intro d
    exact safeEv_of_safe f _ (safe_pure f _)
  · split
    · apply safeEv_bind _ _ _ (safe_readVlq f _ _); intro n
      apply safeEv_bind _ _ _ (safe_readN f _); intro d
      exact safeEv_of_safe f _ (safe_pure f _)
    · split
      · apply safeEv_bind _ _ _ (safe_readByte f); intro a1
        exact safeEv_finishChan f _ _ _
      · split
        · exact safeEv_of_safe f _ (safe_fail f _)
        · exact safeEv_finishChan f _ _ _

theorem dead_readEvent (f vfuel rr : Nat) : Dead f (readEvent vfuel rr) := by
  simp only [readEvent, bind_eq]
  exact dead_bind f _ _ (dead_readVlq f _ _)

end Midi.Stream

namespace Midi.Stream
open Midi.Smf

theorem not_bad_other : ¬ Bad .other := by intro h; rcases h with h | h <;> cases h
theorem not_bad_missing : ¬ Bad .missing := by intro h; rcases h with h | h <;> cases h

theorem endErr_not_bad (e : Err) (m : Bool) (h : ¬ Bad e) : ¬ Bad (if e = .eof ∧ m = true then .missing else e) := by
  have : ¬ (e = .eof ∧ m = true) := fun hc => h (Or.inl hc.1)
  simp only [this, if_false]; exact h

/-- loop results: a pair, and if the fault was touched the loop did not end "normally" -/
def LoopOK (f : Nat) (p : Prog LoopRes) (s : Src) : Prop :=
  ∃ st' e, (run srcOps p s).1 = .ok (st', e) ∧ ((run srcOps p s).2.hit = true → ¬ Bad e)

theorem afterEvent_ok (f vf : Nat) (k : RState → Prog LoopRes) (s1 : RState)
    (hk : ∀ st s, Inv f s → (s.hit = false ∨ st.done = false) → LoopOK f (k st) s)
    (s : Src) (h : Inv f s) : LoopOK f ((readEvent vf s1.rs).catch (afterEvent k s1)) s := by
  unfold LoopOK
  rw [run_catch]
  by_cases hh1 : s.hit = true
  · obtain ⟨a, b, e, he, hne⟩ := dead_readEvent f vf s1.rs s h hh1
    rw [he]
    simp only [afterEvent, run]
    exact ⟨_, _, rfl, fun _ => endErr_not_bad e _ hne⟩
  · have hh1' : s.hit = false := by cases hv : s.hit <;> simp_all
    obtain ⟨a, b⟩ := safeEv_readEvent f vf s1.rs s h hh1'
    cases hr : (run srcOps (readEvent vf s1.rs) s).1 with
    | error e =>
      simp only [afterEvent, run]
      refine ⟨_, _, rfl, fun x => ?_⟩
      rcases b x with ⟨e', he, hne⟩ | ⟨ev, he, _⟩
      · rw [hr] at he; cases he; exact endErr_not_bad e _ hne
      · rw [hr] at he; cases he
    | ok ev =>
      simp only [afterEvent]
      split
      · simp only [run]
        exact ⟨_, _, rfl, fun _ => not_bad_other⟩
      · apply hk _ _ a
        by_cases hx : (run srcOps (readEvent vf s1.rs) s).2.hit = true
        · right
          rcases b hx with ⟨e', he, _⟩ | ⟨ev', he, hm⟩
          · rw [hr] at he; cases he
          · rw [hr] at he; cases he
            simp [hm, isEOTMsg]
        · left
          cases hv : (run srcOps (readEvent vf s1.rs) s).2.hit <;> simp_all

/-- `ReadTracks`: if the fault was touched, the loop did not end "normally" (`finished` / `io.EOF`) -/
theorem readLoop_fault (f : Nat) : ∀ (lf vf : Nat) (st : RState) (s : Src), Inv f s →
    (s.hit = false ∨ st.done = false) → LoopOK f (readLoop lf vf st) s := by
  intro lf
  induction lf with
  | zero =>
    intro vf st s h _
    simp only [LoopOK, readLoop, run]
    exact ⟨st, .fuel, rfl, fun _ => not_bad_fuel⟩
  | succ lf ih =>
    intro vf st s h hcase
    unfold readLoop
    by_cases hd : st.done = true
    · simp only [LoopOK, hd, if_true, run]
      rcases hcase with hh | hnd
      · exact ⟨st, .finished, rfl, fun x => (by rw [hh] at x; cases x)⟩
      · rw [hd] at hnd; cases hnd
    · simp only [hd, Bool.false_eq_true, if_false]
      by_cases hx : st.expectChunk = true
      · simp only [hx, if_true]
        unfold LoopOK
        rw [run_catch]
        by_cases hh : s.hit = true
        · obtain ⟨a, b, e, he, hne⟩ := dead_chunkLoop f vf st.started s h hh
          rw [he]
          simp only [afterChunk, run]
          exact ⟨_, _, rfl, fun _ => endErr_not_bad e _ hne⟩
        · have hh' : s.hit = false := by cases hv : s.hit <;> simp_all
          obtain ⟨a, b⟩ := safe_chunkLoop f vf st.started s h hh'
          cases hr : (run srcOps (chunkLoop vf st.started) s).1 with
          | error e =>
            simp only [afterChunk, run]
            refine ⟨_, _, rfl, fun x => ?_⟩
            obtain ⟨e', he, hne⟩ := b x
            rw [hr] at he; cases he
            exact endErr_not_bad e _ hne
          | ok started =>
            simp only [afterChunk]
            exact afterEvent_ok f vf (readLoop lf vf) { st with started := started, expectChunk := false } (ih vf) _ a
      · simp only [hx, Bool.false_eq_true, if_false]
        unfold LoopOK
        rw [run_catch]
        simp only [run, afterChunk]
        exact afterEvent_ok f vf (readLoop lf vf) { st with started := st.started, expectChunk := false } (ih vf) _ h

/-- C10 (read side): if the source failed with a non-EOF error while the file was read, `ReadFrom` returns an error -/
theorem readFrom_fault (f fuel : Nat) (s : Src) (h : Inv f s) (hh : s.hit = false)
    (hhit : (run srcOps (readFrom fuel) s).2.hit = true) :
    ∃ e, (run srcOps (readFrom fuel) s).1 = .ok (.error e) := by
  unfold readFrom at hhit ⊢
  rw [run_catch] at hhit ⊢
  -- header
  have hhead : Safe f (do
      let typ ← readN 4
      let _ ← readN 4
      if typ ≠ MThd then Prog.fail .other else
      let fm ← readN 2
      if val16 fm > 2 then Prog.fail .other else
      let nt ← readN 2
      let dv ← readN 2
      pure (val16 fm, val16 nt, tfOf2 dv) : Prog (Nat × Nat × TimeFormat)) := by
    simp only [bind_eq, pure_eq]
    apply safe_bind _ _ _ (safe_readN f 4); intro typ
    apply safe_bind _ _ _ (safe_readN f 4); intro l4
    split
    · exact safe_fail f _
    · apply safe_bind _ _ _ (safe_readN f 2); intro fm
      split
      · exact safe_fail f _
      · apply safe_bind _ _ _ (safe_readN f 2); intro nt
        apply safe_bind _ _ _ (safe_readN f 2); intro dv
        exact safe_pure f _
  obtain ⟨a, b⟩ := hhead s h hh
  generalize hq : run srcOps (do
      let typ ← readN 4
      let _ ← readN 4
      if typ ≠ MThd then Prog.fail .other else
      let fm ← readN 2
      if val16 fm > 2 then Prog.fail .other else
      let nt ← readN 2
      let dv ← readN 2
      pure (val16 fm, val16 nt, tfOf2 dv) : Prog (Nat × Nat × TimeFormat)) s = q at a b hhit ⊢
  obtain ⟨r, s1⟩ := q
  simp only at a b hhit ⊢
  cases r with
  | error e => simp only [run]; exact ⟨e, rfl⟩
  | ok x =>
    obtain ⟨format, numTracks, tf⟩ := x
    have hs1 : s1.hit = false := by
      cases hv : s1.hit with
      | false => rfl
      | true => obtain ⟨e', he, _⟩ := b hv; cases he
    simp only at hhit ⊢
    rw [run_bind] at hhit ⊢
    obtain ⟨st', e, he, hb⟩ := readLoop_fault f fuel fuel ⟨numTracks, 0, true, 0, false, List.replicate numTracks []⟩ s1 a (Or.inl hs1)
    have hsplit : run srcOps (readLoop fuel fuel ⟨numTracks, 0, true, 0, false, List.replicate numTracks []⟩) s1
        = (.ok (st', e), (run srcOps (readLoop fuel fuel ⟨numTracks, 0, true, 0, false, List.replicate numTracks []⟩) s1).2) := by
      rw [← he]
    rw [hsplit] at hhit ⊢
    simp only at hhit ⊢
    by_cases hm : st'.missing = true
    · simp only [hm, if_true, run]; exact ⟨_, rfl⟩
    · simp only [hm, Bool.false_eq_true, if_false] at hhit ⊢
      have hfin : (run srcOps (readLoop fuel fuel ⟨numTracks, 0, true, 0, false, List.replicate numTracks []⟩) s1).2.hit = true := by
        split at hhit <;> simpa [run] using hhit
      have hnb := hb hfin
      have : ¬ (e = .finished ∨ e = .eof) := fun hc => hnb (by rcases hc with hc | hc; exact Or.inr hc; exact Or.inl hc)
      simp only [this, if_false, run]
      exact ⟨_, rfl⟩

end Midi.Stream
