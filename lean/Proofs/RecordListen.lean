import Proofs.RecordLive
/-!
# From decoder frames to what the recording callback receives

`ListenTo`'s re-typing on the frames of `Proofs/RecordLive.lean`: never the panic outcome; a channel frame
`[status, d1, d2]` becomes exactly `[status, d1]` (program change / channel pressure) or `[status, d1, d2]`
— the constructors' clamping and the pitch-bend re-encoding are the identity on 7-bit data —; every other
frame becomes a message that is not a channel message, or nothing.
-/
namespace Midi.Record
open Midi.Live Midi.Smf

/-- a well-formed channel message: the `chan` case of the domain of C01/C03 (status 0x80..0xEF, one data
    byte for program change / channel pressure and two otherwise, data bytes < 0x80) -/
def ChanWF (m : Bytes) : Prop := ∃ st d1 d2, (Ev.chan st d1 d2).Valid ∧ m = (Ev.chan st d1 d2).toBytes

/-- the message a channel frame stands for -/
def chanOf (st a b : Nat) : Bytes := if st / 16 = 0xC ∨ st / 16 = 0xD then [st, a] else [st, a, b]

theorem chanOf_wf (st a b : Nat) (h1 : 0x80 ≤ st) (h2 : st ≤ 0xEF) (ha : a < 0x80) (hb : b < 0x80) :
    ChanWF (chanOf st a b) := by
  unfold chanOf
  by_cases c : st / 16 = 0xC ∨ st / 16 = 0xD
  · rw [if_pos c]
    refine ⟨st, a, none, ⟨h1, h2, ha, ?_⟩, rfl⟩
    rcases c with c | c <;> simp [oneData, c]
  · rw [if_neg c]
    refine ⟨st, a, some b, ⟨h1, h2, ha, ?_, hb⟩, rfl⟩
    have c1 : ¬ st / 16 = 0xC := fun h => c (Or.inl h)
    have c2 : ¬ st / 16 = 0xD := fun h => c (Or.inr h)
    simp [oneData, c1, c2]

theorem retype_chan (st a b : Nat) (h1 : 0x80 ≤ st) (h2 : st ≤ 0xEF) (ha : a < 0x80) (hb : b < 0x80) :
    retype [st, a, b] = some (some (chanOf st a b)) := by
  have hp := Msg.parseStatus_eq st (by omega)
  have c1 : ¬ 0xF8 ≤ st := by omega
  have c2 : ¬ (0xF0 < st ∧ st < 0xF7) := by omega
  have c3 : ¬ st = 0xF7 := by omega
  have c4 : ¬ st = 0xF0 := by omega
  have c5 : 0x80 ≤ st ∧ st ≤ 0xEF := ⟨h1, h2⟩
  have ea : min a 127 = a := by omega
  have eb : min b 127 = b := by omega
  have ec : min (st % 16) 15 = st % 16 := by omega
  simp only [retype, if_neg c1, if_neg c2, if_neg c3, if_neg c4, if_pos c5, hp, chanOf]
  by_cases k1 : st / 16 = 0xD
  · rw [if_pos k1, if_pos (Or.inr k1), Msg.afterTouch_eq, ea, ec]
    have : 0xD0 + st % 16 = st := by omega
    rw [this]
  rw [if_neg k1]
  by_cases k2 : st / 16 = 0xC
  · rw [if_pos k2, if_pos (Or.inl k2), Msg.programChange_eq, ea, ec]
    have : 0xC0 + st % 16 = st := by omega
    rw [this]
  rw [if_neg k2, if_neg (by omega : ¬ (st / 16 = 0xC ∨ st / 16 = 0xD))]
  by_cases k3 : st / 16 = 0xB
  · rw [if_pos k3, Msg.controlChange_eq, ea, eb, ec]
    have : 0xB0 + st % 16 = st := by omega
    rw [this]
  rw [if_neg k3]
  by_cases k4 : st / 16 = 0x9
  · rw [if_pos k4, Msg.noteOn_eq, ea, eb, ec]
    have : 0x90 + st % 16 = st := by omega
    rw [this]
  rw [if_neg k4]
  by_cases k5 : st / 16 = 0x8
  · rw [if_pos k5, Msg.noteOffVelocity_eq, ea, eb, ec]
    have : 0x80 + st % 16 = st := by omega
    rw [this]
  rw [if_neg k5]
  by_cases k6 : st / 16 = 0xA
  · rw [if_pos k6, Msg.polyAfterTouch_eq, ea, eb, ec]
    have : 0xA0 + st % 16 = st := by omega
    rw [this]
  rw [if_neg k6]
  have k7 : st / 16 = 0xE := by omega
  rw [if_pos k7, Msg.parsePitchWheelVals_eq, Msg.pitchbend_eq, ec]
  have hv := Msg.clampPitch_eq (((b % 128 * 128 + a % 128 : Nat) : Int) - 8192)
  have e1 : (Msg.clampPitch (((b % 128 * 128 + a % 128 : Nat) : Int) - 8192) + 8192).toNat = b * 128 + a := by omega
  rw [e1]
  have e2 : (b * 128 + a) % 128 = a := by omega
  have e3 : (b * 128 + a) / 128 = b := by omega
  have e4 : 0xE0 + st % 16 = st := by omega
  rw [e2, e3, e4]

/-- re-typing a frame of the decoder: a message (well formed if it is a channel message) or nothing,
    never the panic outcome -/
theorem retype_frameOK (f : Frame) (h : FrameOK f) :
    retype f.1 = none ∨ ∃ m, retype f.1 = some (some m) ∧ (isChannelMsg m = true → ChanWF m) := by
  rcases h with ⟨b, hf, hb⟩ | ⟨st, a, b, hf, h1, h2, ha, hb⟩ | ⟨h, a, b, hf, hh⟩
  · right
    refine ⟨[b], ?_, ?_⟩
    · rw [hf]; simp only [retype, if_pos hb]
    · intro hc
      obtain ⟨b', r, e, h1, h2⟩ := (isChannelMsg_iff [b]).1 hc
      cases e; omega
  · right
    exact ⟨chanOf st a b, by rw [hf]; exact retype_chan st a b h1 h2 ha hb, fun _ => chanOf_wf st a b h1 h2 ha hb⟩
  · rw [hf]
    have notChan : ∀ x r, 0xF0 ≤ x → isChannelMsg (x :: r) = true → ChanWF (x :: r) := by
      intro x r hx hc
      obtain ⟨b', r', e, h1, h2⟩ := (isChannelMsg_iff (x :: r)).1 hc
      cases e; omega
    rcases hh with rfl | rfl | rfl | rfl | rfl
    · right; exact ⟨Msg.mtc a, by simp [retype], by rw [Msg.mtc_eq]; exact notChan _ _ (by omega)⟩
    · right
      exact ⟨Msg.spp (Msg.parsePitchWheelVals a b).2, by simp [retype], by rw [Msg.spp_eq]; exact notChan _ _ (by omega)⟩
    · right; exact ⟨Msg.songSelect a, by simp [retype], by rw [Msg.songSelect_eq]; exact notChan _ _ (by omega)⟩
    · right; exact ⟨Msg.tune, by simp [retype], notChan _ _ (by omega)⟩
    · left; simp [retype]

/-! ### `listenFrames` and `delivered` -/

/-- the listener message of one frame (`none`: filtered by the driver, or nothing to deliver) -/
def msgOfFrame (c : Cfg) (f : Frame) : Option (Bytes × Int) :=
  if keep c f then
    match retype f.1 with
    | some (some m) => some (m, f.2)
    | _ => none
  else none

theorem delivered_map_some (l : List (Bytes × Int)) :
    delivered (l.map fun m => (some m.1, m.2)) = some l := by
  induction l with
  | nil => rfl
  | cons m r ih => simp [delivered, ih]

theorem listenFrames_eq (c : Cfg) (frames : List Frame) (h : ∀ f ∈ frames, retype f.1 ≠ some none) :
    listenFrames c frames = (frames.filterMap (msgOfFrame c)).map fun m => (some m.1, m.2) := by
  induction frames with
  | nil => rfl
  | cons f r ih =>
    have ih' := ih (fun g hg => h g (List.mem_cons_of_mem _ hg))
    have hf := h f (by simp)
    simp only [listenFrames] at ih' ⊢
    by_cases hk : keep c f = true
    · rw [List.filter_cons_of_pos hk, List.filterMap_cons, List.filterMap_cons]
      cases hr : retype f.1 with
      | none => simp [msgOfFrame, hk, hr, ih']
      | some o =>
        cases o with
        | none => exact absurd hr hf
        | some m => simp [msgOfFrame, hk, hr, ih']
    · have hk' : keep c f = false := by simpa using hk
      rw [List.filter_cons_of_neg hk, List.filterMap_cons]
      simp [msgOfFrame, hk', ih']

theorem msgOfFrame_stamp (c : Cfg) (f : Frame) (m : Bytes × Int) (h : msgOfFrame c f = some m) :
    m.2 = f.2 ∧ retype f.1 = some (some m.1) := by
  unfold msgOfFrame at h
  split at h
  · split at h
    · rename_i m' hm; cases h; exact ⟨rfl, hm⟩
    · cases h
  · cases h

theorem filterMap_stamps_sublist (c : Cfg) (frames : List Frame) :
    ((frames.filterMap (msgOfFrame c)).map (·.2)).Sublist (frames.map (·.2)) := by
  induction frames with
  | nil => simp
  | cons f r ih =>
    rw [List.filterMap_cons]
    cases hm : msgOfFrame c f with
    | none => simpa using ih.cons _
    | some m =>
      have := (msgOfFrame_stamp c f m hm).1
      simp only [List.map_cons, this]
      exact ih.cons_cons _

/-- **what the callback receives**, for every token stream: the re-typing never panics; the result is
    the list of per-frame messages; every channel message in it is well formed; the stamps are stamps of
    decoder frames, in order -/
theorem received_spec (toks : List Tok) :
    ∃ ms, received toks = some ms ∧
      ms = (feed recCfg init toks).2.filterMap (msgOfFrame recCfg) ∧
      (∀ m ∈ ms, isChannelMsg m.1 = true → ChanWF m.1) ∧
      (ms.map (·.2)).Sublist ((feed recCfg init toks).2.map (·.2)) := by
  obtain ⟨_, _, hfr⟩ := feed_good recCfg rfl toks init init_inv
  have hnp : ∀ f ∈ (feed recCfg init toks).2, retype f.1 ≠ some none := by
    intro f hf
    rcases retype_frameOK f (hfr f hf) with h | ⟨m, h, _⟩ <;> rw [h] <;> simp
  refine ⟨_, ?_, rfl, ?_, filterMap_stamps_sublist recCfg _⟩
  · simp only [received, listen]
    rw [listenFrames_eq recCfg _ hnp, delivered_map_some]
  · intro m hm hc
    obtain ⟨f, hf, hfm⟩ := List.mem_filterMap.1 hm
    have hs := (msgOfFrame_stamp recCfg f m hfm).2
    rcases retype_frameOK f (hfr f hf) with h | ⟨m', h, hw⟩
    · rw [h] at hs; cases hs
    · rw [h] at hs
      simp only [Option.some.injEq] at hs
      subst hs
      exact hw hc

/-- with a forward clock: the stamps of what the callback receives are non-negative, bounded by the
    elapsed time and non-decreasing -/
theorem received_stamps (toks : List Tok) (hfw : Forward toks) (ms : List (Bytes × Int))
    (h : received toks = some ms) :
    (∀ m ∈ ms, 0 ≤ m.2 ∧ m.2 ≤ elapsed toks) ∧ (ms.map (·.2)).Pairwise (· ≤ ·) := by
  obtain ⟨ms', h1, _, _, hsub⟩ := received_spec toks
  rw [h] at h1
  cases h1
  obtain ⟨hb, hp⟩ := feed_stamps recCfg rfl toks hfw init init_inv
  refine ⟨?_, hp.sublist hsub⟩
  intro m hm
  have : m.2 ∈ (feed recCfg init toks).2.map (·.2) := hsub.subset (List.mem_map_of_mem hm)
  obtain ⟨f, hf, e⟩ := List.mem_map.1 this
  have := hb f hf
  simp only [init] at this
  rw [← e]
  omega

end Midi.Record
