import Proofs.SmfEvent
/-! Track- and file-level round trip on top of the per-event lemma. -/
namespace Midi.Smf
open Midi.Vlq

abbrev ATrack := List (Nat × Ev)

def evOf (x : Nat × Ev) : Event := ⟨x.1, x.2.toBytes⟩

/-- AST-level writer of the events of a track body -/
def encBodyL (rsOn : Bool) : Nat → ATrack → Bytes
  | _, [] => []
  | rs, (δ, e) :: r => encode δ ++ (encBody rsOn rs e).1 ++ encBodyL rsOn (encBody rsOn rs e).2 r

def BodyOK (body : ATrack) : Prop := ∀ x ∈ body, x.2.Valid ∧ x.2.notEOT ∧ x.1 < 4294967296

theorem EOT_eq : EOT = (Ev.metaEv 0x2F []).toBytes := by
  simp [EOT, Ev.toBytes, encode, tailLE]

theorem isEOTMsg_toBytes (e : Ev) (h : e.notEOT) (hv : e.Valid) : isEOTMsg e.toBytes = false := by
  cases e with
  | chan s d1 d2 =>
    obtain ⟨h1, h2, _, _⟩ := hv
    have : s ≠ 255 := by omega
    cases d2 <;> simp [Ev.toBytes, isEOTMsg, this]
  | metaEv t d => simp [Ev.notEOT] at h; simp [Ev.toBytes, isEOTMsg, h]
  | sysex l d =>
    obtain ⟨hl, _⟩ := hv
    rcases hl with rfl | rfl <;> cases d <;> simp [Ev.toBytes, isEOTMsg]

theorem toBytes_ne_EOT (e : Ev) (h : e.notEOT) (hv : e.Valid) : (e.toBytes == EOT) = false := by
  have h1 := isEOTMsg_toBytes e h hv
  have h2 : isEOTMsg EOT = true := by simp [EOT, isEOTMsg]
  cases hb : (e.toBytes == EOT) with
  | false => rfl
  | true =>
    have : e.toBytes = EOT := by simpa using hb
    rw [this] at h1; rw [h1] at h2; cases h2

theorem isClosed_snoc (t : Track) (x : Event) : Track.isClosed (t ++ [x]) = (x.msg == EOT) := by
  simp [Track.isClosed]

theorem add_open (t : Track) (δ : Nat) (m : Msg) (h : t.isClosed = false) :
    t.add δ [m] = t ++ [⟨δ, m⟩] := by simp [Track.add, h, addEvents]

theorem close_open (t : Track) (δ : Nat) (h : t.isClosed = false) :
    t.close δ = t ++ [⟨δ, EOT⟩] := by simp [Track.close, h]

theorem set_mid {α} (A : List α) (x y : α) (B : List α) : (A ++ x :: B).set A.length y = A ++ y :: B := by
  induction A with
  | nil => simp
  | cons a A ih => simp [ih]

theorem getD_mid {α} (A : List α) (x d : α) (B : List α) : (A ++ x :: B).getD A.length d = x := by
  induction A with
  | nil => simp
  | cons a A ih => simpa using ih

/-- one loop iteration inside a track: an event that is not end-of-track is appended to the open track -/
theorem readLoop_event (f n rr : Nat) (A B : List Track) (pre : Track) (bs : Bytes) (ev : REv)
    (hpre : pre.isClosed = false) (hev : readEvent rr bs = .ok ev) (hne : isEOTMsg ev.msg = false) :
    readLoop (f+1) ⟨n, A.length + 1, false, rr, false, A ++ pre :: B⟩ bs
      = readLoop f ⟨n, A.length + 1, false, ev.rs, false, A ++ (pre ++ [⟨ev.delta, ev.msg⟩]) :: B⟩ ev.rest := by
  have hlen : ¬ (A.length + (B.length + 1) ≤ A.length) := by omega
  simp [readLoop, hev, hne, setTrack, set_mid, getD_mid, add_open _ _ _ hpre, hlen]

/-- the iteration that reads the end-of-track event closes the track -/
theorem readLoop_eot (f n rr : Nat) (A B : List Track) (pre : Track) (bs : Bytes) (ev : REv)
    (hpre : pre.isClosed = false) (hev : readEvent rr bs = .ok ev) (he : isEOTMsg ev.msg = true) :
    readLoop (f+1) ⟨n, A.length + 1, false, rr, false, A ++ pre :: B⟩ bs
      = readLoop f ⟨n, A.length + 1, !(A.length + 1 == n), ev.rs, (A.length + 1 == n),
          A ++ (pre ++ [⟨ev.delta, EOT⟩]) :: B⟩ ev.rest := by
  have hlen : ¬ (A.length + (B.length + 1) ≤ A.length) := by omega
  simp [readLoop, hev, he, setTrack, set_mid, getD_mid, close_open _ _ hpre, hlen]

theorem isClosed_append_body (pre : Track) (body : ATrack) (hpre : pre.isClosed = false) (hb : BodyOK body) :
    Track.isClosed (pre ++ body.map evOf) = false := by
  induction body generalizing pre with
  | nil => simpa using hpre
  | cons x body ih =>
    have hx := hb x (by simp)
    have : Track.isClosed (pre ++ [evOf x]) = false := by
      rw [isClosed_snoc]; exact toBytes_ne_EOT x.2 hx.2.1 hx.1
    have := ih (pre ++ [evOf x]) this (fun y hy => hb y (by simp [hy]))
    simpa using this

/-- a whole track body followed by its end-of-track event -/
theorem readLoop_track (rsOn : Bool) (body : ATrack) (δe n : Nat) (A B : List Track) (rest : Bytes)
    (hδ : δe < 4294967296) (hb : BodyOK body) :
    ∀ (pre : Track) (rs rr fuel : Nat), pre.isClosed = false → (rsOn = true → rr = rs) → body.length < fuel →
    readLoop fuel ⟨n, A.length + 1, false, rr, false, A ++ pre :: B⟩
        (encBodyL rsOn rs body ++ (encode δe ++ EOT ++ rest))
      = readLoop (fuel - (body.length + 1)) ⟨n, A.length + 1, !(A.length + 1 == n), 0, (A.length + 1 == n),
          A ++ (pre ++ body.map evOf ++ [⟨δe, EOT⟩]) :: B⟩ rest := by
  induction body with
  | nil =>
    intro pre rs rr fuel hpre hrr hf
    cases fuel with
    | zero => omega
    | succ f =>
      have hv : (Ev.metaEv 0x2F []).Valid := by simp [Ev.Valid]
      have hev := readEvent_enc rsOn rs rr δe (.metaEv 0x2F []) rest hv hδ hrr
      have hb2 : (encBody rsOn rs (.metaEv 0x2F [])).1 = EOT := by
        simp [encBody, EOT, encode, tailLE]
      rw [hb2, ← EOT_eq] at hev
      have := readLoop_eot f n rr A B pre (encode δe ++ EOT ++ rest) _ hpre hev (by simp [EOT, isEOTMsg])
      simpa [encBodyL, statusOr0] using this
  | cons x body ih =>
    intro pre rs rr fuel hpre hrr hf
    obtain ⟨δ, e⟩ := x
    obtain ⟨hv, hne, hd⟩ := hb (δ, e) (by simp)
    have hb' : BodyOK body := fun y hy => hb y (by simp [hy])
    cases fuel with
    | zero => omega
    | succ f =>
      have hev := readEvent_enc rsOn rs rr δ e
        (encBodyL rsOn (encBody rsOn rs e).2 body ++ (encode δe ++ EOT ++ rest)) hv hd hrr
      have hstep := readLoop_event f n rr A B pre _ _ hpre hev (isEOTMsg_toBytes e hne hv)
      have hpre' : Track.isClosed (pre ++ [⟨δ, e.toBytes⟩]) = false := by
        rw [isClosed_snoc]; exact toBytes_ne_EOT e hne hv
      have hnext := ih hb' (pre ++ [⟨δ, e.toBytes⟩]) (encBody rsOn rs e).2 (statusOr0 e) f hpre'
        (by intro h; subst h; exact (encBody_status rs e).symm) (by simp at hf; omega)
      simp only [encBodyL, List.append_assoc] at hstep hnext ⊢
      rw [hstep, hnext]
      simp [evOf, Nat.add_sub_add_right]

end Midi.Smf
