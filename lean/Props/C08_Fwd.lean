import MidiModel.Basic
import MidiModel.Generated.SmfMetaGo
/-!
# C08, tie to the source: the channel-voice and sysex accessors of `smf.Message` (`smf/message.go`) as translated on
every run are exactly those of `midi.Message` (tied to the model in `Props/C07_Get.lean`): same result, same out
variables, same panics, for every byte string and every nil pattern.
-/
open Midi Midi.Go
namespace Midi.C08

/-! the channel-voice and sysex accessors of `smf.Message` forward to those of `midi.Message` -/
theorem fwd {α β : Type} (x : Except String (α × β)) :
    (x >>= fun r => (pure (r.1, r.2) : Except String (α × β))) = x := by
  cases x with
  | error e => rfl
  | ok r => rfl

theorem code_smf_GetNoteOn (m : Bytes) (a b c : Bool) (x y z : Nat) :
    smf.Message.GetNoteOn m a x b y c z = midi.Message.GetNoteOn m a x b y c z := by
  unfold smf.Message.GetNoteOn
  simp only []
  generalize midi.Message.GetNoteOn m a x b y c z = r
  cases r <;> rfl

theorem code_smf_GetNoteStart (m : Bytes) (a b c : Bool) (x y z : Nat) :
    smf.Message.GetNoteStart m a x b y c z = midi.Message.GetNoteStart m a x b y c z := by
  unfold smf.Message.GetNoteStart
  simp only []
  generalize midi.Message.GetNoteStart m a x b y c z = r
  cases r <;> rfl

theorem code_smf_GetNoteOff (m : Bytes) (a b c : Bool) (x y z : Nat) :
    smf.Message.GetNoteOff m a x b y c z = midi.Message.GetNoteOff m a x b y c z := by
  unfold smf.Message.GetNoteOff
  simp only []
  generalize midi.Message.GetNoteOff m a x b y c z = r
  cases r <;> rfl

theorem code_smf_GetPolyAfterTouch (m : Bytes) (a b c : Bool) (x y z : Nat) :
    smf.Message.GetPolyAfterTouch m a x b y c z = midi.Message.GetPolyAfterTouch m a x b y c z := by
  unfold smf.Message.GetPolyAfterTouch
  simp only []
  generalize midi.Message.GetPolyAfterTouch m a x b y c z = r
  cases r <;> rfl

theorem code_smf_GetControlChange (m : Bytes) (a b c : Bool) (x y z : Nat) :
    smf.Message.GetControlChange m a x b y c z = midi.Message.GetControlChange m a x b y c z := by
  unfold smf.Message.GetControlChange
  simp only []
  generalize midi.Message.GetControlChange m a x b y c z = r
  cases r <;> rfl

theorem code_smf_GetAfterTouch (m : Bytes) (a b : Bool) (x y : Nat) :
    smf.Message.GetAfterTouch m a x b y = midi.Message.GetAfterTouch m a x b y := by
  unfold smf.Message.GetAfterTouch
  simp only []
  generalize midi.Message.GetAfterTouch m a x b y = r
  cases r <;> rfl

theorem code_smf_GetProgramChange (m : Bytes) (a b : Bool) (x y : Nat) :
    smf.Message.GetProgramChange m a x b y = midi.Message.GetProgramChange m a x b y := by
  unfold smf.Message.GetProgramChange
  simp only []
  generalize midi.Message.GetProgramChange m a x b y = r
  cases r <;> rfl

theorem code_smf_GetNoteEnd (m : Bytes) (a b : Bool) (x y : Nat) :
    smf.Message.GetNoteEnd m a x b y = midi.Message.GetNoteEnd m a x b y := by
  unfold smf.Message.GetNoteEnd
  simp only []
  generalize midi.Message.GetNoteEnd m a x b y = r
  cases r <;> rfl

theorem code_smf_GetChannel (m : Bytes) (a : Bool) (x : Nat) :
    smf.Message.GetChannel m a x = midi.Message.GetChannel m a x := by
  unfold smf.Message.GetChannel
  simp only []
  generalize midi.Message.GetChannel m a x = r
  cases r <;> rfl

theorem code_smf_GetSysEx (m : Bytes) (a : Bool) (x : Bytes) :
    smf.Message.GetSysEx m a x = midi.Message.GetSysEx m a x := by
  unfold smf.Message.GetSysEx
  simp only []
  generalize midi.Message.GetSysEx m a x = r
  cases r <;> rfl

theorem code_smf_GetPitchBend (m : Bytes) (a b c : Bool) (x : Nat) (y : Int) (z : Nat) :
    smf.Message.GetPitchBend m a x b y c z = midi.Message.GetPitchBend m a x b y c z := by
  unfold smf.Message.GetPitchBend
  simp only []
  generalize midi.Message.GetPitchBend m a x b y c z = r
  cases r <;> rfl

end Midi.C08
