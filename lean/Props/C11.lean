import Proofs.Tempo
/-!
# C11 — tick-to-time conversion follows the tempo map exactly

Model: `MidiModel/Tempo.lean` (`finish` = `finishTempoChanges` = sort + `calculateAbsTimes`, `timeAt` = `SMF.TimeAt`,
`doTrack` = the loop of `TracksReader.Do`, `collect` = the reader's tempo bookkeeping). The tempo map is a list of
`(absolute tick, microseconds per quarter u)`; the Go code stores `BPM = 6e7/u` as float64 and converts with
`MetricTicks.Duration` (float64 + `math.Round`). **Floats do not enter Lean**: `dur u d` (microseconds of `d` ticks at
tempo `u` for the file's resolution `q`) is a parameter of the model and the theorems assume `DurOK dur q H`
(`Proofs/Tempo.lean`): `dur u 0 = 0`, monotone in `d`, within one microsecond of the exact `u·d/q` for segment
durations up to the horizon `H`. That the *float* code meets `DurOK` is validated differentially
on every run (support, not proof) — this is the named partial aspect of C11. `durRef_durOK` proves it for the
rational reference the driver executes.

Domain (`InDomain q H m t`, needed by `timeAt_error` only): every tempo segment on the way to `t` lasts at most `H`
microseconds — the range on which `DurOK` asks `dur` to be accurate. There is no bound on the ticks: since the repair
c7c6d62 the code passes the int64 tick difference to `duration64` unconverted (before, `uint32(...)` truncated it and
the theorems carried a `< 2^32` guard per tick gap). `inDomain_of_small`: exact time of `t` at most `H` suffices.
`timeAt_mono` and `do_times_eq_timeAt` hold for all ticks without any domain condition.

Sorting: `finish` sorts with the model `sortTc` of `sort.Sort`; all theorems hold for *every* collection order `m`
relative to the sorted slice `sortTc m`. The tie to the code's `sort.Sort` is only claimed where its result is
determined (already non-decreasing — the case of the property, tempo events in one track, see `one_track_sorted`
and `sort_untouched` — or pairwise distinct ticks); for an unsorted slice with repeated ticks `sort.Sort` (unstable)
may order the equal entries either way, whichever it picks the result is *a* sorted slice, but which tempo wins at
the repeated tick is unspecified.

Everything is stated in natural numbers scaled by `q` (`integral m t` = `q ·` exact microseconds).
-/
namespace Midi.C11
open Midi Midi.Tempo

/-- The absolute time `TimeAt` reports for tick `t` differs from the exact integral of the tempo map (every tick `k < t`
    lasts `uAt k / q` µs: 120 BPM before the first tempo event, each tempo valid from its tick until the next, the last
    of several events on one tick wins) by at most one microsecond per completed tempo segment plus one for the
    running segment. -/
theorem timeAt_error (dur : Nat → Nat → Nat) (q H : Nat) (hd : DurOK dur q H) (m : Map) (t : Nat)
    (hdom : InDomain q H (sortTc m) t) :
    q * timeAt dur (finish dur m) t ≤ integral (sortTc m) t + q * (segments (sortTc m) t + 1) ∧
    integral (sortTc m) t ≤ q * timeAt dur (finish dur m) t + q * (segments (sortTc m) t + 1) := by
  have hs := sortTc_sorted m
  have h := timeSimple_error hd (sortTc m) 0 0 defaultU t hs (Nat.zero_le _) hdom
  rw [finish, timeAt_finish_eq dur _ hs, ← exactNum_eq_integral _ hs]
  simpa [exactNum, segments] using h

/-- `TimeAt` is non-decreasing in the tick, for all ticks (uses only `dur u 0 = 0` and monotonicity of `dur`). -/
theorem timeAt_mono (dur : Nat → Nat → Nat) (q H : Nat) (hd : DurOK dur q H) (m : Map) (t t' : Nat) (htt : t ≤ t') :
    timeAt dur (finish dur m) t ≤ timeAt dur (finish dur m) t' := by
  have hs := sortTc_sorted m
  rw [finish, timeAt_finish_eq dur _ hs, timeAt_finish_eq dur _ hs]
  exact timeSimple_mono hd (sortTc m) 0 0 defaultU t t' hs (Nat.zero_le _) htt

/-- The times handed out by `TracksReader.Do` for a track with deltas `ds` are `TimeAt` of the running sum of the
    deltas: event `i` gets absolute tick `Σ_{j ≤ i} ds[j]` and that tick's `TimeAt` (so `timeAt_error` and `timeAt_mono`
    apply to them verbatim). -/
theorem do_times_eq_timeAt (dur : Nat → Nat → Nat) (l : List Tc) (ds : List Nat) :
    doTrack dur l ds 0 = (absTicks ds 0).map (fun a => (a, timeAt dur l a)) ∧
    ∀ i, i < ds.length → (absTicks ds 0)[i]? = some ((ds.take (i + 1)).sum) := by
  refine ⟨doTrack_eq dur l ds 0, fun i hi => ?_⟩
  simpa using absTicks_getElem? ds 0 i hi

/-- Converting ticks to a duration and back returns the tick count (integers, explicit error budget):
    if `D` ns is within `(500+e1)/1000` ns of the exact duration `1000·u·n/q` of `n` ticks, `T` is within `(500+e2)/1000`
    ticks of `D·q/(1000·u)`, and `q·(500+e1) + 1000·u·(500+e2) < 10^6·u`, then `T = n`.
    On the stated domain (durations < 2^40 µs, tick rate < 10^7/s, i.e. tick length `1000u/q > 100` ns) float64 gives
    `e1 < 500` (0.5 ns) and `e2 < 10` and the budget holds with room: `q·1000 + 1000·u·510 < 10·u·1000 + 510000·u`. -/
theorem ticks_dur_inverse (q u n D T e1 e2 : Nat)
    (hD1 : 1000 * (q * D) ≤ 1000 * (1000 * (u * n)) + q * (500 + e1))
    (hD2 : 1000 * (1000 * (u * n)) ≤ 1000 * (q * D) + q * (500 + e1))
    (hT1 : 1000 * (u * T) ≤ q * D + u * (500 + e2))
    (hT2 : q * D ≤ 1000 * (u * T) + u * (500 + e2))
    (hb : q * (500 + e1) + 1000 * (u * (500 + e2)) < 1000000 * u) : T = n :=
  inverse_budget q u n D T e1 e2 hD1 hD2 hT1 hT2 hb

/-- The exact-arithmetic versions of `Duration` (round to ns) and `Ticks` (round to ticks) are inverse for every tick
    count as soon as a tick is longer than one nanosecond. -/
theorem ticks_dur_inverse_ref (q u n : Nat) (hq : 0 < q) (h : q < 1000 * u) :
    ticksRef q u (durNsRef q u n) = n :=
  ticksRef_durNsRef q u n hq h

/-- The rational reference of `Duration(...).Microseconds()` that the driver executes satisfies the accuracy
    hypothesis for every resolution and every horizon (so the theorems above are not vacuous). -/
theorem durRef_durOK (q H : Nat) (hq : 0 < q) : DurOK (durRef q) q H := durRef_ok q H hq

/-- The number the driver returns as exact numerator (`exactNum`, segment-wise products) is the tick-by-tick
    integral of the specification. -/
theorem exactNum_is_integral (m : Map) (t : Nat) : exactNum (sortTc m) t = integral (sortTc m) t :=
  exactNum_eq_integral _ (sortTc_sorted m) t

/-- Simple sufficient condition for the domain: the exact time of `t` is at most the horizon. -/
theorem inDomain_of_small (q H : Nat) (m : Map) (t : Nat)
    (hH : exactNum (sortTc m) t ≤ q * H) : InDomain q H (sortTc m) t :=
  domFrom_of_small q H _ 0 defaultU t (sortTc_sorted m) (Nat.zero_le _) hH

/-- An already non-decreasing slice is what the sort returns (the model of `sort.Sort` leaves it untouched, as
    pdqsort does: no element is swapped). -/
theorem sort_untouched (m : Map) (h : isSorted m = true) : sortTc m = m :=
  sortTc_of_sorted m 0 ((isSorted_iff m).1 h)

/-- Tempo events of one track (closed by its end-of-track event) are collected in non-decreasing tick order, so
    for the files of the property the sort changes nothing. -/
theorem one_track_sorted (evs : List TEv) (δ : Nat) (h : ∀ e ∈ evs, e.eot = false) :
    isSorted (collect [evs ++ [⟨δ, none, true⟩]]) = true := by
  rw [isSorted_iff]
  simp only [collect, List.map_cons, List.map_nil, List.flatten_cons, List.flatten_nil, List.append_nil]
  suffices hh : ∀ abs, SortedFrom abs (collectTrack (evs ++ [⟨δ, none, true⟩]) abs) from
    (hh 0)
  induction evs with
  | nil => intro abs; simp [collectTrack, SortedFrom]
  | cons e r ih =>
    intro abs
    have he : e.eot = false := h e (by simp)
    have ih' := ih (fun x hx => h x (by simp [hx]))
    simp only [List.cons_append, collectTrack, he]
    cases e.tempo with
    | none => exact (ih' (abs + e.delta)).mono (Nat.le_add_right _ _)
    | some u => exact ⟨Nat.le_add_right _ _, ih' (abs + e.delta)⟩

/-! Non-vacuity: a concrete map with an event at tick 0, a repeated tick and the extreme tempo `u = 1` is inside the
    domain at resolution 96 with the reference duration function, and the executable model computes the expected
    values on it (test of one instance, not a proof of anything general). -/
def sampleMap : Map := [(0, 500000), (96, 250000), (96, 300000), (192, 1), (1000, 16777215)]

example : InDomain 96 (2 ^ 40) (sortTc sampleMap) 2000 :=
  inDomain_of_small 96 (2 ^ 40) sampleMap 2000 (by decide)

example : let f := finish (durRef 96) sampleMap
    96 * timeAt (durRef 96) f 2000 ≤ integral (sortTc sampleMap) 2000 + 96 * (segments (sortTc sampleMap) 2000 + 1) :=
  (timeAt_error (durRef 96) 96 (2 ^ 40) (durRef_durOK 96 _ (by decide)) sampleMap 2000
    (inDomain_of_small 96 (2 ^ 40) sampleMap 2000 (by decide))).1

example : (finish (durRef 96) sampleMap).map (·.time) = [0, 500000, 500000, 800000, 800008] := by decide
example : [96, 97, 192, 193, 1000, 1001].map (timeAt (durRef 96) (finish (durRef 96) sampleMap)) =
    [500000, 503125, 800000, 800000, 800008, 974770] := by decide
example : segments sampleMap 2000 = 3 ∧ exactNum sampleMap 2000 = 16854015808 := by decide
/-- ticks beyond 2^32: resolution 32767, no tempo event — tick 2^32 is 65538.0 s into the file (the former finding) -/
example : [4294967295, 4294967296, 4294967297].map (timeAt (durRef 32767) (finish (durRef 32767) [])) =
    [65538000045, 65538000061, 65538000076] := by decide
example : InDomain 32767 (2 ^ 40) (sortTc [(0, 500000), (4294967296, 250000)]) 8589934592 :=
  inDomain_of_small _ _ _ _ (by decide)
example : ticksRef 960 500000 (durNsRef 960 500000 123456789) = 123456789 :=
  ticks_dur_inverse_ref 960 500000 123456789 (by decide) (by decide)
example : isSorted (collect [[⟨0, some 500000, false⟩, ⟨96, none, false⟩, ⟨0, some 250000, false⟩, ⟨5, none, true⟩]]) = true :=
  one_track_sorted [⟨0, some 500000, false⟩, ⟨96, none, false⟩, ⟨0, some 250000, false⟩] 5 (by decide)

end Midi.C11
