import Proofs.StreamSim
import Proofs.StreamEq
import Proofs.Gram
/-!
# C09 — SMF reading does not depend on how the source delivers its bytes

`Stream.readFrom` is `smf.ReadFrom` written as a program over the stream primitives the Go code uses;
`srcOps` interprets it over a source that hands out the stream in arbitrary pieces (`cuts`: a `Read`
never crosses a cut point; every `Read` returns at least one byte or EOF), possibly returning the last
bytes together with EOF; `listOps` interprets it over in-memory bytes (`bytes.Reader`).
-/
namespace Midi.C09
open Midi Midi.Smf Midi.Stream

/-- Reading from any fragmenting source gives the same result — same value or same kind of failure —
    as reading the same bytes from memory: for every byte string (valid, truncated or garbage), every
    set of cut points, with or without data+EOF in one call. -/
theorem frag_indep (data : Bytes) (cuts : List Nat) (eofWithData : Bool) (fuel : Nat) :
    (run srcOps (readFrom fuel) ⟨data, 0, cuts, eofWithData, none, false⟩).1 = (run listOps (readFrom fuel) data).1 :=
  (run_sim (readFrom fuel) _ _ ⟨rfl, rfl, rfl⟩).1

/-- the same for every program over the primitives, together with the unread rest of the stream -/
theorem frag_indep_prog {α : Type} (p : Prog α) (data : Bytes) (pos : Nat) (cuts : List Nat) (eofWithData : Bool) :
    (run srcOps p ⟨data, pos, cuts, eofWithData, none, false⟩).1 = (run listOps p data).1 ∧
    (run srcOps p ⟨data, pos, cuts, eofWithData, none, false⟩).2.data = (run listOps p data).2 :=
  let h := run_sim p ⟨data, pos, cuts, eofWithData, none, false⟩ data ⟨rfl, rfl, rfl⟩
  ⟨h.1, h.2.1⟩

/-- primitive level: `io.ReadFull` over any fragmentation returns the same bytes / the same error
    class (`io.EOF` for nothing, `io.ErrUnexpectedEOF` for a part) and leaves the same rest -/
theorem readFull_frag (n : Nat) (s : Src) (h : s.fault = none ∧ s.hit = false) :
    (srcOps.readFull n s).1 = (listOps.readFull n s.data).1 ∧
    (srcOps.readFull n s).2.data = (listOps.readFull n s.data).2 :=
  let r := readFull_sim n s s.data ⟨rfl, h.1, h.2⟩
  ⟨r.1, r.2.1⟩

/-- every `Read` of the modelled source returns at least one byte while data is left (the quantifier
    of the property: readers that return at least one byte or an error per call) -/
theorem source_makes_progress (s : Src) (k : Nat) (hf : s.fault = none) (hh : s.hit = false) (hk : 1 ≤ k) (hd : s.data ≠ []) :
    1 ≤ (s.read k).1.length ∧ (s.read k).1.length ≤ k ∧ (s.read k).1 ++ (s.read k).2.2.data = s.data := by
  obtain ⟨got, e, s', hr, p1, p2, p3, _⟩ := read_progress s k hf hh hk hd
  rw [hr]; exact ⟨p1, p2, p3⟩

/-- the program reader over in-memory bytes IS the in-memory reader model of C01/C02/C05
    (`Smf.readFrom`): the two models of `smf.ReadFrom` agree on every byte string -/
theorem program_reader_is_list_reader (data : Bytes) (fuel : Nat) (hf : data.length + 2 ≤ fuel) :
    (run listOps (Stream.readFrom fuel) data).1 = .ok (cvRes (Smf.readFrom data)) :=
  readFrom_eq data fuel hf

/-- hence: reading through ANY fragmenting source gives what the in-memory reader model gives -/
theorem frag_reads_like_memory_model (data : Bytes) (cuts : List Nat) (eofWithData : Bool) :
    (run srcOps (Stream.readFrom (data.length + 2)) ⟨data, 0, cuts, eofWithData, none, false⟩).1
      = .ok (cvRes (Smf.readFrom data)) := by
  rw [frag_indep]; exact readFrom_eq data _ (Nat.le_refl _)

/-- and with C02: a valid SMF 1.0 file read through any fragmenting source decodes to its specified meaning -/
theorem frag_conforms (g : Gram.GFile) (h : g.Valid) (cuts : List Nat) (eofWithData : Bool) :
    (run srcOps (Stream.readFrom ((Gram.serialize g).length + 2)) ⟨Gram.serialize g, 0, cuts, eofWithData, none, false⟩).1
      = .ok (.ok (Gram.meaning g)) := by
  rw [frag_reads_like_memory_model, Gram.readFrom_serialize g h]; rfl

/-! Non-vacuity: a one-byte-per-call source with data+EOF reads a small file like the in-memory reader. -/
def sampleFile : Bytes :=
  [0x4D, 0x54, 0x68, 0x64, 0, 0, 0, 6, 0, 0, 0, 1, 0, 0x60, 0x4D, 0x54, 0x72, 0x6B, 0, 0, 0, 8, 0, 0x90, 60, 64, 10, 62, 0, 0]

example : (run srcOps (readFrom 40) ⟨sampleFile, 0, List.range 40, true, none, false⟩).1
    = (run listOps (readFrom 40) sampleFile).1 := frag_indep _ _ _ _

end Midi.C09
