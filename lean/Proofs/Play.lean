import MidiModel.Play
/-!
# Helper lemmas for C12 (playback): `Do` enumerates the file, the callback filters, the stable sort
keeps every track's order, the pacing loop sleeps the differences.
-/
namespace Midi.Play

/-! ## `IsPlayable` -/

theorem isPlayable_eq (m : Bytes) :
    isPlayable m = match m with | [] => false | b :: _ => playableByte b := by
  cases m with
  | nil => rfl
  | cons b r => cases h : (b == 0xFF) <;> simp [isPlayable, isMeta, playableByte, h]

theorem isPlayable_not_meta (m : Bytes) (h : isPlayable m = true) : m.head? ≠ some 0xFF := by
  cases m with
  | nil => simp
  | cons b r =>
    simp only [isPlayable, isMeta] at h
    intro hb
    simp only [List.head?_cons, Option.some.injEq] at hb
    subst hb
    simp at h

theorem isPlayable_channel (b : Nat) (r : Bytes) (h1 : 0x80 ≤ b) (h2 : b ≤ 0xEF) :
    isPlayable (b :: r) = true := by
  have hne : (b == 0xFF) = false := by simp; omega
  simp only [isPlayable, isMeta, hne, typeKnown]
  simp [h1, h2]

/-! ## enumeration done by `Do` -/

theorem mem_enumFrom (no : Nat) (e : Ev) : ∀ (tr : TrackIn) (i : Nat),
    e ∈ enumFrom no i tr ↔ e.track = no ∧ i ≤ e.idx ∧ tr[e.idx - i]? = some (e.time, e.bytes)
  | [], i => by simp [enumFrom]
  | (t, b) :: r, i => by
    simp only [enumFrom, List.mem_cons, mem_enumFrom no e r (i + 1)]
    constructor
    · rintro (h | ⟨h1, h2, h3⟩)
      · subst h; simp
      · refine ⟨h1, by omega, ?_⟩
        have : e.idx - i = (e.idx - (i + 1)) + 1 := by omega
        rw [this, List.getElem?_cons_succ]; exact h3
    · rintro ⟨h1, h2, h3⟩
      by_cases hi : e.idx = i
      · left
        have : e.idx - i = 0 := by omega
        rw [this] at h3
        simp only [List.getElem?_cons_zero, Option.some.injEq, Prod.mk.injEq] at h3
        cases e; simp_all
      · right
        refine ⟨h1, by omega, ?_⟩
        have : e.idx - i = (e.idx - (i + 1)) + 1 := by omega
        rw [this, List.getElem?_cons_succ] at h3; exact h3

theorem enumFrom_pairwise_idx (no : Nat) : ∀ (tr : TrackIn) (i : Nat),
    (enumFrom no i tr).Pairwise (fun a b => a.idx < b.idx)
  | [], _ => by simp [enumFrom]
  | (t, b) :: r, i => by
    simp only [enumFrom, List.pairwise_cons]
    refine ⟨?_, enumFrom_pairwise_idx no r (i + 1)⟩
    intro e he
    have := (mem_enumFrom no e r (i + 1)).1 he
    show i < e.idx
    omega

theorem enumFrom_pairwise_time (no : Nat) : ∀ (tr : TrackIn) (i : Nat),
    tr.Pairwise (fun a b => a.1 ≤ b.1) → (enumFrom no i tr).Pairwise (fun a b => a.time ≤ b.time)
  | [], _, _ => by simp [enumFrom]
  | (t, b) :: r, i, h => by
    simp only [List.pairwise_cons] at h
    simp only [enumFrom, List.pairwise_cons]
    refine ⟨?_, enumFrom_pairwise_time no r (i + 1) h.2⟩
    intro e he
    have hm := (mem_enumFrom no e r (i + 1)).1 he
    have := h.1 _ (List.mem_of_getElem? hm.2.2)
    exact this

/-- the enumeration carries exactly the track's content, in order -/
theorem enumFrom_content (no : Nat) : ∀ (tr : TrackIn) (i : Nat),
    (enumFrom no i tr).map (fun e => (e.time, e.bytes)) = tr
  | [], _ => rfl
  | (t, b) :: r, i => by simp [enumFrom, enumFrom_content no r (i + 1)]

theorem mem_doFrom (sel : List Int) (e : Ev) : ∀ (f : FileIn) (no : Nat),
    e ∈ doFrom sel no f ↔
      no ≤ e.track ∧ doTrack sel e.track = true ∧
        ∃ tr, f[e.track - no]? = some tr ∧ tr[e.idx]? = some (e.time, e.bytes)
  | [], no => by simp [doFrom]
  | tr :: rest, no => by
    simp only [doFrom, List.mem_append, mem_doFrom sel e rest (no + 1)]
    constructor
    · rintro (h | ⟨h1, h2, tr', h3, h4⟩)
      · by_cases hd : doTrack sel no = true
        · simp only [hd, if_true, mem_enumFrom] at h
          obtain ⟨h1, _, h3⟩ := h
          refine ⟨by omega, by rw [h1]; exact hd, tr, ?_, by simpa using h3⟩
          have : e.track - no = 0 := by omega
          rw [this]; rfl
        · simp [hd] at h
      · refine ⟨by omega, h2, tr', ?_, h4⟩
        have : e.track - no = (e.track - (no + 1)) + 1 := by omega
        rw [this, List.getElem?_cons_succ]; exact h3
    · rintro ⟨h1, h2, tr', h3, h4⟩
      by_cases hk : e.track = no
      · left
        have : e.track - no = 0 := by omega
        rw [this] at h3
        simp only [List.getElem?_cons_zero, Option.some.injEq] at h3
        subst h3
        rw [hk] at h2
        simp only [h2, if_true, mem_enumFrom]
        exact ⟨hk, by omega, by simpa using h4⟩
      · right
        refine ⟨by omega, h2, tr', ?_, h4⟩
        have : e.track - no = (e.track - (no + 1)) + 1 := by omega
        rw [this, List.getElem?_cons_succ] at h3; exact h3

/-- position order: earlier track, or same track and earlier index -/
def posLt (a b : Ev) : Prop := a.track < b.track ∨ (a.track = b.track ∧ a.idx < b.idx)

theorem doFrom_pairwise_pos (sel : List Int) : ∀ (f : FileIn) (no : Nat),
    (doFrom sel no f).Pairwise posLt
  | [], _ => by simp [doFrom]
  | tr :: rest, no => by
    simp only [doFrom]
    rw [List.pairwise_append]
    refine ⟨?_, doFrom_pairwise_pos sel rest (no + 1), ?_⟩
    · by_cases hd : doTrack sel no = true
      · simp only [hd, if_true]
        have h1 := enumFrom_pairwise_idx no tr 0
        have h2 : ∀ a ∈ enumFrom no 0 tr, a.track = no := fun a ha => ((mem_enumFrom no a tr 0).1 ha).1
        have h3 : ∀ a ∈ enumFrom no 0 tr, ∀ b ∈ enumFrom no 0 tr, a.idx < b.idx → posLt a b := by
          intro a ha b hb hlt
          exact Or.inr ⟨by rw [h2 a ha, h2 b hb], hlt⟩
        exact List.Pairwise.imp_of_mem (fun {a b} ha hb h => h3 a ha b hb h) h1
      · simp [hd]
    · intro a ha b hb
      have hb' := (mem_doFrom sel b rest (no + 1)).1 hb
      by_cases hd : doTrack sel no = true
      · simp only [hd, if_true] at ha
        have := ((mem_enumFrom no a tr 0).1 ha).1
        left; omega
      · simp [hd] at ha

/-- the events of track `k` among the callback invocations: all of them, in file order, if selected -/
theorem doFrom_filter_track (sel : List Int) (k : Nat) : ∀ (f : FileIn) (no : Nat), no ≤ k →
    (doFrom sel no f).filter (fun e => e.track == k) =
      if doTrack sel k = true then enumFrom k 0 (f[k - no]?.getD []) else []
  | [], no, _ => by simp [doFrom, enumFrom]
  | tr :: rest, no, hle => by
    simp only [doFrom, List.filter_append]
    by_cases hk : k = no
    · subst hk
      have hrest : (doFrom sel (k + 1) rest).filter (fun e => e.track == k) = [] := by
        rw [List.filter_eq_nil_iff]
        intro e he
        have := ((mem_doFrom sel e rest (k + 1)).1 he).1
        simp only [beq_iff_eq]; omega
      rw [hrest, List.append_nil]
      by_cases hd : doTrack sel k = true
      · simp only [hd, if_true, Nat.sub_self, List.getElem?_cons_zero, Option.getD_some]
        rw [List.filter_eq_self]
        intro e he
        simp only [beq_iff_eq]
        exact ((mem_enumFrom k e tr 0).1 he).1
      · simp [hd]
    · have hfirst : (if doTrack sel no = true then enumFrom no 0 tr else []).filter (fun e => e.track == k) = [] := by
        rw [List.filter_eq_nil_iff]
        intro e he
        by_cases hd : doTrack sel no = true
        · simp only [hd, if_true] at he
          have := ((mem_enumFrom no e tr 0).1 he).1
          simp only [beq_iff_eq]; omega
        · simp [hd] at he
      rw [hfirst, List.nil_append, doFrom_filter_track sel k rest (no + 1) (by omega)]
      have : k - no = (k - (no + 1)) + 1 := by omega
      rw [this, List.getElem?_cons_succ]

/-! ## the callback -/

theorem collectOne_some (pm : PortMap) (e : Ev) (x : PlayEv) :
    collectOne pm e = some x ↔ x.ev = e ∧ isPlayable e.bytes = true ∧ outFor pm e.track = some x.port := by
  unfold collectOne
  by_cases hp : isPlayable e.bytes = true
  · simp only [hp, if_true]
    cases ho : outFor pm e.track with
    | none => simp
    | some o =>
      cases x with
      | mk xe xp => simp only [Option.some.injEq, PlayEv.mk.injEq, true_and]; constructor <;> rintro ⟨a, b⟩ <;> exact ⟨a.symm, b⟩
  · simp [hp]

theorem mem_collect (f : FileIn) (sel : List Int) (pm : PortMap) (x : PlayEv) :
    x ∈ collect f sel pm ↔
      (doTrack sel x.ev.track = true ∧
        ∃ tr, f[x.ev.track]? = some tr ∧ tr[x.ev.idx]? = some (x.ev.time, x.ev.bytes)) ∧
      isPlayable x.ev.bytes = true ∧ outFor pm x.ev.track = some x.port := by
  simp only [collect, doAll, List.mem_filterMap, collectOne_some]
  constructor
  · rintro ⟨e, he, rfl, h2, h3⟩
    have := (mem_doFrom sel x.ev f 0).1 he
    exact ⟨⟨this.2.1, by simpa using this.2.2⟩, h2, h3⟩
  · rintro ⟨⟨h1, h2⟩, h3, h4⟩
    exact ⟨x.ev, (mem_doFrom sel x.ev f 0).2 ⟨Nat.zero_le _, h1, by simpa using h2⟩, rfl, h3, h4⟩

theorem collect_pairwise_pos (f : FileIn) (sel : List Int) (pm : PortMap) :
    (collect f sel pm).Pairwise (fun a b => posLt a.ev b.ev) := by
  simp only [collect, doAll]
  rw [List.pairwise_filterMap]
  refine List.Pairwise.imp ?_ (doFrom_pairwise_pos sel f 0)
  intro a b hab x hx y hy
  rw [collectOne_some] at hx hy
  rw [hx.1, hy.1]; exact hab

theorem collect_filter_track (f : FileIn) (sel : List Int) (pm : PortMap) (k : Nat) :
    (collect f sel pm).filter (fun x => x.ev.track == k) =
      if doTrack sel k = true then (enumFrom k 0 (f[k]?.getD [])).filterMap (collectOne pm) else [] := by
  have h1 : (collect f sel pm).filter (fun x => x.ev.track == k) =
      ((doAll sel f).filter (fun e => e.track == k)).filterMap (collectOne pm) := by
    simp only [collect]
    rw [List.filter_filterMap, List.filterMap_filter]
    congr 1
    funext e
    cases hc : collectOne pm e with
    | none => simp
    | some x =>
      have := (collectOne_some pm e x).1 hc
      by_cases hk : e.track = k
      · simp [hk, this.1]
      · simp [hk, this.1]
  rw [h1, doAll, doFrom_filter_track sel k f 0 (Nat.zero_le _)]
  by_cases hd : doTrack sel k = true <;> simp [hd]

/-! ## the sort -/

theorem le_trans' : ∀ (a b c : PlayEv), le a b = true → le b c = true → le a c = true := by
  intro a b c; simp only [le, decide_eq_true_eq]; omega

theorem le_total' : ∀ (a b : PlayEv), (le a b || le b a) = true := by
  intro a b; simp only [le, Bool.or_eq_true, decide_eq_true_eq]; omega

theorem play_perm_collect (f : FileIn) (sel : List Int) (pm : PortMap) :
    (play f sel pm).Perm (collect f sel pm) := List.mergeSort_perm _ le

theorem play_sorted' (f : FileIn) (sel : List Int) (pm : PortMap) :
    (play f sel pm).Pairwise (fun a b => a.ev.time ≤ b.ev.time) := by
  have := List.pairwise_mergeSort le_trans' le_total' (collect f sel pm)
  unfold play
  simpa [le] using this

/-- every track's times are non-decreasing in file order (what C11's `timeAt_mono` gives) -/
def FileMono (f : FileIn) : Prop := ∀ tr ∈ f, tr.Pairwise (fun a b => a.1 ≤ b.1)

theorem collect_track_mono (f : FileIn) (sel : List Int) (pm : PortMap) (hm : FileMono f) (k : Nat) :
    ((collect f sel pm).filter (fun x => x.ev.track == k)).Pairwise (fun a b => le a b = true) := by
  rw [collect_filter_track]
  by_cases hd : doTrack sel k = true
  · simp only [hd, if_true]
    rw [List.pairwise_filterMap]
    have htr : (f[k]?.getD []).Pairwise (fun a b => a.1 ≤ b.1) := by
      cases h : f[k]? with
      | none => simp
      | some tr => simpa using hm tr (List.mem_of_getElem? h)
    refine List.Pairwise.imp ?_ (enumFrom_pairwise_time k _ 0 htr)
    intro a b hab x hx y hy
    rw [collectOne_some] at hx hy
    simp only [le, decide_eq_true_eq, hx.1, hy.1]; exact hab
  · simp [hd]

/-- stable sort: the events of one track leave in the order in which they were collected -/
theorem play_filter_track (f : FileIn) (sel : List Int) (pm : PortMap) (hm : FileMono f) (k : Nat) :
    (play f sel pm).filter (fun x => x.ev.track == k) = (collect f sel pm).filter (fun x => x.ev.track == k) := by
  have hsub : ((collect f sel pm).filter (fun x => x.ev.track == k)).Sublist (play f sel pm) :=
    List.sublist_mergeSort le_trans' le_total' (collect_track_mono f sel pm hm k) List.filter_sublist
  have h2 := hsub.filter (fun x => x.ev.track == k)
  rw [List.filter_filter] at h2
  simp only [Bool.and_self] at h2
  have hlen : ((play f sel pm).filter (fun x => x.ev.track == k)).length =
      ((collect f sel pm).filter (fun x => x.ev.track == k)).length :=
    ((play_perm_collect f sel pm).filter _).length_eq
  exact (h2.eq_of_length hlen.symm).symm

/-! ## pacing -/

/-- `1000 * t` fits into int64 nanoseconds (about 292 years) -/
def InRange (t : Int) : Prop := 0 ≤ t ∧ t ≤ 9223372036854775

theorem wrap64_id (x : Int) (h1 : -9223372036854775808 ≤ x) (h2 : x < 9223372036854775808) : wrap64 x = x := by
  unfold wrap64; omega

theorem nanos_eq (t : Int) (h : InRange t) : nanos t = 1000 * t := by
  unfold nanos; apply wrap64_id <;> (unfold InRange at h; omega)

theorem sleeps_length : ∀ (l : List PlayEv) (last : Int), (sleeps last l).length = l.length
  | [], _ => rfl
  | p :: r, last => by simp [sleeps, sleeps_length r]

/-- from a reference instant `1000 * t0` not later than any event: all sleeps are non-negative and the
    sleeps up to and including event `i` add up to its distance from the reference -/
theorem sleeps_spec : ∀ (l : List PlayEv) (t0 : Int), InRange t0 →
    (∀ p ∈ l, InRange p.ev.time ∧ t0 ≤ p.ev.time) →
    l.Pairwise (fun a b => a.ev.time ≤ b.ev.time) →
    (∀ s ∈ sleeps (1000 * t0) l, 0 ≤ s) ∧
    ∀ (i : Nat) (h : i < l.length), ((sleeps (1000 * t0) l).take (i + 1)).sum = 1000 * l[i].ev.time - 1000 * t0
  | [], _, _, _, _ => by simp [sleeps]
  | p :: r, t0, h0, hr, hs => by
    have hp := hr p List.mem_cons_self
    have hn : nanos p.ev.time = 1000 * p.ev.time := nanos_eq _ hp.1
    have hw : wrap64 (1000 * p.ev.time - 1000 * t0) = 1000 * p.ev.time - 1000 * t0 := by
      apply wrap64_id <;> (have := hp.1; have := hp.2; unfold InRange at *; omega)
    simp only [List.pairwise_cons] at hs
    have ih := sleeps_spec r p.ev.time hp.1
      (fun q hq => ⟨(hr q (List.mem_cons_of_mem _ hq)).1, hs.1 q hq⟩) hs.2
    simp only [sleeps, hn, hw]
    constructor
    · intro s hsm
      simp only [List.mem_cons] at hsm
      rcases hsm with rfl | hsm
      · have := hp.2; omega
      · exact ih.1 s hsm
    · intro i hi
      cases i with
      | zero => simp
      | succ j =>
        simp only [List.length_cons] at hi
        have := ih.2 j (by omega)
        simp only [List.take_succ_cons, List.sum_cons, List.getElem_cons_succ, this]
        omega

/-! ## what is trusted of `sort.Stable`, made exact -/

/-- `out` is a stable sort of `l` by `key`: sorted, and for every key value the elements with that key are the
    same ones, in the same order -/
def StableSortOf {α : Type} (key : α → Int) (l out : List α) : Prop :=
  out.Pairwise (fun a b => key a ≤ key b) ∧
  ∀ k : Int, out.filter (fun a => key a == k) = l.filter (fun a => key a == k)

/-- two sorted lists with the same elements per key, in the same order per key, are equal -/
theorem stable_unique_aux {α : Type} (key : α → Int) : ∀ (l1 l2 : List α),
    l1.Pairwise (fun a b => key a ≤ key b) → l2.Pairwise (fun a b => key a ≤ key b) →
    (∀ k : Int, l1.filter (fun a => key a == k) = l2.filter (fun a => key a == k)) → l1 = l2
  | [], [], _, _, _ => rfl
  | [], b :: r2, _, _, h => by
    have := h (key b); simp at this
  | a :: r1, [], _, _, h => by
    have := h (key a); simp at this
  | a :: r1, b :: r2, h1, h2, h => by
    simp only [List.pairwise_cons] at h1 h2
    have hab : key a = key b := by
      have ha := h (key a)
      have hb := h (key b)
      simp only [List.filter_cons, beq_self_eq_true, if_true] at ha hb
      have ha' : a ∈ (b :: r2).filter (fun x => key x == key a) := by
        simp only [List.filter_cons]; rw [← ha]; exact List.mem_cons_self
      have hb' : b ∈ (a :: r1).filter (fun x => key x == key b) := by
        simp only [List.filter_cons]; rw [hb]; exact List.mem_cons_self
      simp only [List.mem_filter, List.mem_cons, beq_iff_eq] at ha' hb'
      have l1 : key b ≤ key a := by
        rcases ha'.1 with rfl | hm
        · exact Int.le_refl _
        · exact h2.1 a hm
      have l2 : key a ≤ key b := by
        rcases hb'.1 with rfl | hm
        · exact Int.le_refl _
        · exact h1.1 b hm
      omega
    have hk := h (key a)
    simp only [List.filter_cons, beq_self_eq_true, if_true, hab] at hk
    simp only [← hab, List.cons.injEq] at hk
    obtain ⟨rfl, _⟩ := hk
    congr 1
    apply stable_unique_aux key r1 r2 h1.2 h2.2
    intro k
    have := h k
    simp only [List.filter_cons] at this
    by_cases hk' : (key a == k) = true
    · simp only [hk', if_true, List.cons.injEq, true_and] at this; exact this
    · simp only [hk'] at this; exact this

/-- `List.mergeSort` with `≤` on the time key is a stable sort in this sense -/
theorem mergeSort_stable (l : List PlayEv) : StableSortOf (fun x => x.ev.time) l (l.mergeSort le) := by
  constructor
  · have := List.pairwise_mergeSort le_trans' le_total' l
    simpa [le] using this
  · intro k
    have hpw : (l.filter (fun x => x.ev.time == k)).Pairwise (fun a b => le a b = true) := by
      rw [List.pairwise_filter]
      rw [List.pairwise_iff_forall_sublist]
      intro a b _ ha hb
      simp only [beq_iff_eq] at ha hb
      simp only [le, decide_eq_true_eq]; omega
    have hsub : (l.filter (fun x => x.ev.time == k)).Sublist (l.mergeSort le) :=
      List.sublist_mergeSort le_trans' le_total' hpw List.filter_sublist
    have h2 := hsub.filter (fun x => x.ev.time == k)
    rw [List.filter_filter] at h2
    simp only [Bool.and_self] at h2
    have hlen : ((l.mergeSort le).filter (fun x => x.ev.time == k)).length =
        (l.filter (fun x => x.ev.time == k)).length :=
      ((List.mergeSort_perm l le).filter _).length_eq
    exact (h2.eq_of_length hlen.symm).symm

/-- … and the only one: whatever stable sort `sort.Stable` implements, its result is the model's -/
theorem stable_sort_unique (l out : List PlayEv) (h : StableSortOf (fun x => x.ev.time) l out) :
    out = l.mergeSort le := by
  have hm := mergeSort_stable l
  exact stable_unique_aux _ _ _ h.1 hm.1 (fun k => (h.2 k).trans (hm.2 k).symm)

end Midi.Play
