import Proofs.Gram
/-!
# C02 — SMF decoding conforms to the Standard MIDI File 1.0 format

`Gram` (MidiModel/SmfGrammar.lean) is the independent specification: a syntax tree of a valid SMF 1.0
file with every encoding choice the format leaves open, its bytes (`serialize`) and the events a
decoder has to report (`meaning`). The theorem says that the reader model returns exactly `meaning g`
for every valid tree `g` — including files the library's writer never produces.
-/
namespace Midi.C02
open Midi Midi.Smf Midi.Gram

/-- For every valid SMF 1.0 syntax tree (formats 0/1/2, metric or SMPTE division, any alien chunks
    before, between and after the tracks, running status wherever legal, non-minimal variable-length
    quantities, unknown meta types, `F0`/`F7` packets of any content, payloads of any length) reading
    its bytes yields exactly the specified events. -/
theorem reader_conforms (g : GFile) (h : g.Valid) : readFrom (serialize g) = .ok (meaning g) :=
  readFrom_serialize g h

/-- the executable validity test used to label generated trees is sound -/
theorem validB_sound_vlq (v : GVlq) (h : v.validB = true) : v.Valid := by
  simp only [GVlq.validB, Bool.and_eq_true, decide_eq_true_eq] at h
  exact h

/-- one event, from any reader state that makes its running-status elision legal -/
theorem event_conforms (rr : Nat) (e : GEvent) (rest : Bytes) (hd : e.delta.Valid) (hv : e.ev.Valid)
    (hel : match e.ev with | .chan s _ _ true => rr = s | _ => True) :
    readEvent rr (e.bytes ++ rest) = .ok ⟨e.delta.value, e.ev.msg, e.ev.statusAfter, rest⟩ :=
  readEvent_g rr e rest hd hv hel

/-- alien chunks of any type and size in front of a track chunk are skipped -/
theorem aliens_skipped (as : List Alien) (hv : ∀ a ∈ as, a.Valid) (k L : Nat) (rest : Bytes) (fuel : Nat)
    (hf : as.length < fuel) :
    chunkLoop fuel k ((as.map Alien.bytes).flatten ++ (MTrk ++ be32 L ++ rest)) = .ok (k + 1, rest) :=
  chunkLoop_aliens as hv k L rest fuel hf

/-! Non-vacuity: a tree with an alien chunk before the track, a padded delta, running status on a
    one-data-byte message, an unknown meta type, an `F7` escape and a trailing alien chunk is valid,
    and the executable reader decodes it to its meaning. -/
def sample : GFile :=
  { format := 0, tf := .smpte 25 40,
    groups := [([⟨[0x58, 0x46, 0x49, 0x48], [1, 2, 3]⟩],
      { events := [⟨⟨0, 2⟩, .chan 0xC3 5 none false⟩, ⟨⟨128, 1⟩, .chan 0xC3 7 none true⟩,
                   ⟨⟨0, 0⟩, .metaEv 0x60 ⟨2, 1⟩ [9, 9]⟩, ⟨⟨5, 0⟩, .sysex 0xF7 ⟨1, 0⟩ [0xFA]⟩,
                   ⟨⟨0, 0⟩, .chan 0x93 60 (some 64) false⟩],
        eotDelta := ⟨0, 3⟩, eotLenPad := 2 })],
    trailer := [⟨[0x41, 0x42, 0x43, 0x44], []⟩] }

example : sample.validB = true := by decide +kernel
example : (readFrom (serialize sample) == .ok (meaning sample)) = true := by decide +kernel

example : sample.Valid := by
  refine ⟨by decide, by simp [sample, ValidDiv], by simp [sample], by simp [sample], ?_⟩
  intro x hx
  simp only [sample, List.mem_singleton] at hx
  subst hx
  refine ⟨?_, ?_, ?_, ?_, ?_, ?_⟩
  · intro a ha; simp at ha; subst ha; exact ⟨rfl, by decide, by simp⟩
  · intro e he
    simp only [List.mem_cons, List.mem_nil_iff, or_false] at he
    rcases he with rfl | rfl | rfl | rfl | rfl <;>
      simp [GVlq.Valid, GVlq.bytes, Vlq.encode, Vlq.tailLE, GEv.Valid, Gram.oneData]
  · simp [elideOK, GEv.statusAfter]
  · simp [GVlq.Valid, GVlq.bytes, Vlq.encode, Vlq.tailLE]
  · decide
  · decide +kernel

end Midi.C02
