package main

import (
	"fmt"
	"strconv"
	"strings"
)

// C04, second tie: the wire SPECIFICATION of the Lean side (MidiModel/LiveWire.lean: Item, wireToks, expected, WF —
// the statement of theorem decode_wire) is run against the real library. The harness generates item sequences
// (messages with per-gap real-time bytes and chunk borders), asks the Lean side for the EachMessage calls that
// `wireToks` stands for and for `expected`, feeds exactly those calls to midi.ListenTo over testdrv and demands that
// the listener receives `expected` (oracle: the conclusion of decode_wire / C06 resync on the implementation).
// Legality, wire bytes, chunks and expected messages are also computed here in Go, independently, and compared
// with the Lean answers (mismatch = harness and specification read MIDI 1.0 differently).
func init() {
	p := props["C04"]
	if p == nil {
		panic("c04_wire.go: property C04 must be registered first (c04.go)")
	}
	gen0, run0 := p.Gen, p.Run
	p.Rule += "; wire.* cases: item sequences of the Lean wire specification (legal ones with real-time bytes and chunk " +
		"borders in every gap, sysex at buffer size 0/-1/+1, a share of illegal ones for the legality predicate, a share " +
		"behind a garbage prefix = resync), non-trivial = legal with at least two messages"
	p.Gen = func(r *Rng, tier string, emit func(Case)) {
		gen0(r, tier, emit)
		n := 700
		if tier == "thorough" {
			n = 30000
		}
		for i := 0; i < n; i++ {
			emit(c04wGenWireSpecCase(r))
		}
	}
	p.Run = func(c Case, m *Model) Verdict {
		if strings.HasPrefix(c.Op, "wire.") {
			return c04wRunWireSpec(c, m)
		}
		return run0(c, m)
	}
}

type wGapTok struct {
	tick bool
	b    byte
	d    int32
}

type wData struct {
	gap []wGapTok
	d   byte
}

type wItem struct {
	kind  byte // 'r' real-time, 't' tick, 'c' channel, 's' system common, 'x' sysex
	b     byte // real-time byte / status
	d     int32
	elide bool
	body  []wData
	last  []wGapTok
}

func (g wGapTok) String() string {
	if g.tick {
		return "t" + strconv.Itoa(int(g.d))
	}
	return hx([]byte{g.b})
}

func c04wGapString(g []wGapTok) string {
	p := make([]string, len(g))
	for i, t := range g {
		p[i] = t.String()
	}
	return strings.Join(p, "+")
}

func c04wBodyString(b []wData) string {
	p := make([]string, len(b))
	for i, d := range b {
		p[i] = c04wGapString(d.gap) + "." + hx([]byte{d.d})
	}
	return strings.Join(p, "/")
}

func (it wItem) String() string {
	switch it.kind {
	case 'r':
		return "r" + hx([]byte{it.b})
	case 't':
		return "t" + strconv.Itoa(int(it.d))
	case 'c':
		f := "x"
		if it.elide {
			f = "e"
		}
		return "c" + hx([]byte{it.b}) + f + ":" + c04wBodyString(it.body)
	case 's':
		return "s" + hx([]byte{it.b}) + ":" + c04wBodyString(it.body)
	default:
		return "x:" + c04wBodyString(it.body) + ":" + c04wGapString(it.last)
	}
}

// --- independent Go reading of the wire: tokens, legality, expected ---

type wTok struct {
	tick bool
	b    byte
	d    int32
}

func c04wGapToks(g []wGapTok) []wTok {
	var out []wTok
	for _, t := range g {
		out = append(out, wTok{t.tick, t.b, t.d})
	}
	return out
}

func c04wItemToks(it wItem) []wTok {
	var out []wTok
	switch it.kind {
	case 'r':
		return []wTok{{b: it.b}}
	case 't':
		return []wTok{{tick: true, d: it.d}}
	case 'c':
		if !it.elide {
			out = append(out, wTok{b: it.b})
		}
	case 's':
		out = append(out, wTok{b: it.b})
	case 'x':
		out = append(out, wTok{b: 0xF0})
	}
	for _, d := range it.body {
		out = append(out, c04wGapToks(d.gap)...)
		out = append(out, wTok{b: d.d})
	}
	if it.kind == 'x' {
		out = append(out, c04wGapToks(it.last)...)
		out = append(out, wTok{b: 0xF7})
	}
	return out
}

func c04wToksToChunks(ts []wTok) []liveChunk {
	cs := []liveChunk{{}}
	for _, t := range ts {
		if t.tick {
			cs = append(cs, liveChunk{delta: t.d})
		} else {
			cs[len(cs)-1].bytes = append(cs[len(cs)-1].bytes, t.b)
		}
	}
	return cs
}

func c04wGapLegal(g []wGapTok) bool {
	for _, t := range g {
		if !t.tick && t.b < 0xF8 {
			return false
		}
	}
	return true
}

// c04wWireLegal: MIDI 1.0 sender rules for the sequence, receiver buffer `eff`
func c04wWireLegal(items []wItem, eff int) bool {
	var run byte
	for _, it := range items {
		for _, d := range it.body {
			if d.d >= 0x80 || !c04wGapLegal(d.gap) {
				return false
			}
		}
		switch it.kind {
		case 'r':
			if it.b < 0xF8 {
				return false
			}
		case 'c':
			if it.b < 0x80 || it.b > 0xEF || len(it.body) != chanLen(it.b)-1 || (it.elide && run != it.b) {
				return false
			}
			run = it.b
		case 's':
			want := map[byte]int{0xF1: 1, 0xF2: 2, 0xF3: 1, 0xF6: 0}
			n, ok := want[it.b]
			if !ok || n != len(it.body) {
				return false
			}
			run = 0
		case 'x':
			if !c04wGapLegal(it.last) || len(it.body)+2 > eff {
				return false
			}
			run = 0
		}
	}
	return true
}

// c04wWireExpected: what a listener must receive, by walking the token stream with a clock (written from the
// property text: real-time at once, a message at its last byte, sysex with the clock of its F0)
func c04wWireExpected(items []wItem, t0 int32) []liveMsg {
	var out []liveMsg
	ts := t0
	for _, it := range items {
		start := ts
		var data []byte
		for _, t := range c04wItemToks(it) {
			switch {
			case t.tick:
				ts += t.d
			case t.b >= 0xF8:
				out = append(out, liveMsg{ts, []byte{t.b}})
			case t.b < 0x80:
				data = append(data, t.b)
			}
		}
		switch it.kind {
		case 'c', 's':
			out = append(out, liveMsg{ts, append([]byte{it.b}, data...)})
		case 'x':
			out = append(out, liveMsg{start, append(append([]byte{0xF0}, data...), 0xF7)})
		}
	}
	return out
}

// --- generator ---

func c04wGenGap(r *Rng, rate int) []wGapTok {
	var g []wGapTok
	for r.Chance(rate, 100) && len(g) < 4 {
		if r.Bool() {
			g = append(g, wGapTok{tick: true, d: int32(r.Pick(0, 1, 2, 5, 17, 250))})
		} else {
			g = append(g, wGapTok{b: rtBytes[r.Intn(len(rtBytes))]})
		}
	}
	return g
}

func c04wGenWireSpecCase(r *Rng) Case {
	buf := r.Pick(0, 8, 16, 16, 32, 5, 3, 2)
	eff := buf
	if eff == 0 {
		eff = 1024
	}
	rate := r.Pick(0, 15, 40)
	n := r.Range(1, 10)
	var items []wItem
	var run byte
	pool := genStatusPool(r)
	tags := map[string]bool{}
	breakIt := r.Chance(1, 8) // one illegal spot
	broken := false
	for i := 0; i < n; i++ {
		switch k := r.Intn(24); {
		case k < 12:
			m := genChannelMsg(r, pool)
			it := wItem{kind: 'c', b: m[0]}
			if run == m[0] && r.Chance(3, 4) {
				it.elide = true
				tags["running-status"] = true
			}
			for _, d := range m[1:] {
				it.body = append(it.body, wData{c04wGenGap(r, rate), d})
			}
			if breakIt && !broken && r.Chance(1, 3) {
				broken = true
				switch r.Intn(4) {
				case 0:
					it.elide = true
					if run == m[0] { // make it a different status
						it.b ^= 0x01
					}
				case 1:
					it.body[0].d |= 0x80
				case 2:
					it.body = append(it.body, wData{nil, 1}) // one data byte too many
				default:
					it.body[0].gap = append(it.body[0].gap, wGapTok{b: 0xF4})
				}
			}
			run = it.b
			items = append(items, it)
		case k < 13:
			items = append(items, wItem{kind: 's', b: 0xF1, body: []wData{{c04wGenGap(r, rate), byte(r.Intn(128))}}})
			run = 0
		case k < 14:
			items = append(items, wItem{kind: 's', b: 0xF2, body: []wData{{c04wGenGap(r, rate), byte(r.Intn(128))}, {c04wGenGap(r, rate), byte(r.Intn(128))}}})
			run = 0
		case k < 15:
			items = append(items, wItem{kind: 's', b: 0xF3, body: []wData{{c04wGenGap(r, rate), byte(r.Intn(128))}}})
			run = 0
		case k < 16:
			items = append(items, wItem{kind: 's', b: 0xF6})
			run = 0
		case k < 18:
			items = append(items, wItem{kind: 'r', b: rtBytes[r.Intn(len(rtBytes))]})
			tags["real-time"] = true
		case k < 20:
			items = append(items, wItem{kind: 't', d: int32(r.Pick(0, 1, 3, 40))})
		default:
			nd := r.Intn(6)
			switch r.Intn(6) {
			case 0:
				nd = eff - 2 // exactly fills the buffer
			case 1:
				nd = eff - 3
			case 2:
				if breakIt && !broken {
					nd = eff - 1 // one byte too long: illegal for this receiver
					broken = true
				}
			}
			if nd < 0 {
				nd = 0
			}
			if nd > 40 {
				nd = r.Intn(6)
			}
			if nd+2 == eff {
				tags["sysex=buffer"] = true
			}
			it := wItem{kind: 'x', last: c04wGenGap(r, rate)}
			for j := 0; j < nd; j++ {
				it.body = append(it.body, wData{c04wGenGap(r, rate/3), byte(r.Intn(128))})
			}
			items = append(items, it)
			tags["sysex"] = true
			run = 0
		}
	}
	legal := c04wWireLegal(items, eff)
	var t0 int32
	pre := "-"
	explicit := len(items) > 0 && (items[0].kind == 's' || items[0].kind == 'x' || (items[0].kind == 'c' && !items[0].elide))
	if legal && explicit && r.Chance(1, 3) {
		// resync: garbage prefix in arbitrary chunks
		cs := randomChunks(r, genGarbage(r, r.Range(1, 12)))
		for _, c := range cs {
			t0 += c.delta
		}
		pre = chunksString(cs)
		tags["resync(garbage-prefix)"] = true
	}
	for _, it := range items {
		for _, d := range it.body {
			for _, g := range d.gap {
				if g.tick {
					tags["cut-inside-message"] = true
				} else {
					tags["real-time-inside-message"] = true
				}
			}
		}
	}
	if !legal {
		tags["illegal(wf=0)"] = true
	}
	p := make([]string, len(items))
	var toks []wTok
	for i, it := range items {
		p[i] = it.String()
		toks = append(toks, c04wItemToks(it)...)
	}
	is := strings.Join(p, ",")
	if len(items) == 0 {
		is = "-"
	}
	gwf := 0
	if legal {
		gwf = 1
	}
	exp := c04wWireExpected(items, t0)
	op := fmt.Sprintf("wire.expect buf=%d t0=%d items=%s pre=%s gwf=%d gchunks=%s gexp=%s",
		buf, t0, is, pre, gwf, chunksString(c04wToksToChunks(toks)), showLive(exp))
	var tl []string
	for t := range tags {
		tl = append(tl, t)
	}
	return Case{Op: op, Tags: tl, NonTrivial: legal && len(exp) >= 2}
}

func c04wRunWireSpec(c Case, m *Model) (v Verdict) {
	f := fields(c.Op)
	a := fields(m.Ask(c.Op))
	if a["wf"] == "" {
		v.Mismatch = append(v.Mismatch, "wire specification does not accept the op: "+short(c.Op))
		return
	}
	var buf int
	fmt.Sscanf(f["buf"], "%d", &buf)
	// harness and Lean specification agree on legality, tokens and (for legal sequences) on the expectation
	if a["wf"] != f["gwf"] {
		v.Mismatch = append(v.Mismatch, "legality: Lean WF="+a["wf"]+" harness="+f["gwf"]+" :: "+short(c.Op))
		return
	}
	if a["chunks"] != f["gchunks"] {
		v.Mismatch = append(v.Mismatch, "wireToks: Lean "+short(a["chunks"])+" harness "+short(f["gchunks"])+" :: "+short(c.Op))
		return
	}
	if a["wf"] != "1" {
		return
	}
	if a["exp"] != f["gexp"] {
		v.Mismatch = append(v.Mismatch, "expected: Lean "+short(a["exp"])+" harness "+short(f["gexp"])+" :: "+short(c.Op))
	}
	// the conclusion of decode_wire / resync on the real library
	pre := parseChunks(f["pre"])
	cs := append(append([]liveChunk{}, pre...), parseChunks(a["chunks"])...)
	var want string
	runBoth := func() (string, string) {
		var head []liveMsg
		if len(pre) > 0 {
			h, p := runListen(7, buf, pre)
			if p != "" {
				return "", p
			}
			head = h
		}
		msgs, p := runListen(7, buf, cs)
		if p != "" {
			return "", p
		}
		want = showLive(append(append([]liveMsg{}, head...), parseLive(a["exp"])...))
		return showLive(msgs), ""
	}
	got, p := runBoth()
	if p != "" {
		v.Oracle = append(v.Oracle, "live decoder panicked: "+p+" :: "+short(c.Op))
		return
	}
	if got != want {
		got, _ = runBoth() // wall-clock dependent first stamp of testdrv: retry once
	}
	if got != want {
		v.Oracle = append(v.Oracle, "listener received "+short(got)+" but the wire specification demands "+short(want)+" :: "+short(c.Op))
	}
	// exact virtual time through drivers.Reader: same contents and stamps after re-typing is covered by the live.feed tie;
	// here: the raw reader delivers as many frames as messages are expected (no loss / duplication at the driver level)
	if len(pre) == 0 {
		frames, p := runRawReader(7, buf, cs)
		if p != "" {
			v.Oracle = append(v.Oracle, "drivers.Reader panicked: "+p+" :: "+short(c.Op))
		} else if len(frames) != len(parseLive(a["exp"])) {
			v.Oracle = append(v.Oracle, fmt.Sprintf("drivers.Reader handed over %d frames, %d messages were sent :: %s", len(frames), len(parseLive(a["exp"])), short(c.Op)))
		} else {
			for i, e := range parseLive(a["exp"]) {
				if frames[i].ts != e.ts {
					v.Oracle = append(v.Oracle, fmt.Sprintf("drivers.Reader frame %d stamped %d, completion time is %d :: %s", i, frames[i].ts, e.ts, short(c.Op)))
					break
				}
			}
		}
	}
	return
}
